"""Run the REAL assembler with a debugging file, load the label table back, read the image, resolve breakpoints.
argv: in.json out.json.  in: list of jobs, each one of
  {'kind': 'asm', 'w', 'version', 'files': [[short_name, text], ...], 'queries': [{'A': [...], 'L': [...], 'S': [...]}, ...]}
  {'kind': 'roundtrip', 'tables': [[[name, addr], ...], ...]}
out (asm): {'outcome': 0 assembled | 1 "label declared twice" | 2 catch-all | 3 other library error, 'error': text,
            'table': [[name, addr], ...] in file order, 'words': [[word_address, value], ...] non-zero, 'segments': [[start, len], ...],
            'queries': [{'A','L','S' in the iteration order of the python sets, 'bps': [[addr, label|None], ...] in dict order,
                         'warnings': [label, ...]}]}
out (roundtrip): {'results': [{'equal': bool, 'same_order': bool, 'loaded': ... (only when different)}]}"""
import contextlib
import io
import json
import os
import re
import sys
import tempfile
from pathlib import Path

from flipjump.assembler import assembler
from flipjump.fjm.fjm_consts import FJMVersion
from flipjump.fjm.fjm_reader import Reader
from flipjump.fjm.fjm_writer import Writer
from flipjump.interpreter.debugging.breakpoints import get_breakpoint_handler
from flipjump.utils.exceptions import FlipJumpException
from flipjump.utils.functions import load_debugging_labels, save_debugging_labels


def asm_job(job, td):
    td = Path(td)
    for f in td.iterdir():
        f.unlink()
    files = []
    for short, text in job['files']:
        p = td / f'{short}.fj'
        p.write_text(text)
        files.append((short, p))
    fjm, fjd = td / 'o.fjm', td / 'o.fjd'
    res = {'outcome': 0, 'error': ''}
    buf = io.StringIO()
    try:
        with contextlib.redirect_stdout(buf):
            wr = Writer(fjm, job['w'], FJMVersion(job.get('version', 1)))
            assembler.assemble(files, job['w'], wr, warning_as_errors=False, debugging_file_path=fjd, print_time=False)
    except FlipJumpException as e:
        msg = str(e)
        res['error'] = (type(e).__name__ + ': ' + msg)[:400]
        if e.__cause__ is not None:
            res['error'] += ' <- ' + repr(e.__cause__)[:200]
        if 'label declared twice' in msg:
            res['outcome'] = 1
        elif 'please report this bug' in msg:
            res['outcome'] = 2
        else:
            res['outcome'] = 3
        return res
    except BaseException as e:  # noqa
        res['outcome'] = 3
        res['error'] = 'RAW ' + type(e).__name__ + ': ' + str(e)[:300]
        return res
    table = load_debugging_labels(fjd)
    res['table'] = [[k, v] for k, v in table.items()]
    rd = Reader(fjm)
    res['words'] = sorted([a, v] for a, v in rd.memory.items() if v)
    res['segments'] = [[s.segment_start, s.segment_length] for s in rd.memory_segments]
    res['queries'] = []
    for q in job.get('queries', []):
        A, L, S = set(q['A']), set(q['L']), set(q['S'])
        out = io.StringIO()
        try:
            with contextlib.redirect_stdout(out):
                h = get_breakpoint_handler(fjd, A, L, S)
        except BaseException as e:  # noqa - resolving breakpoints must never raise, whatever characters a substring holds
            res['queries'].append({'A': list(A), 'L': list(L), 'S': list(S), 'exc': type(e).__name__ + ': ' + str(e)[:200],
                                   'bps': [], 'warnings': [], 'other_output': [], 'l2a_equal': True})
            continue
        warns = re.findall(r"^Warning:  Breakpoint label (.*) can't be found!$", out.getvalue(), re.M)
        other = [ln for ln in out.getvalue().splitlines() if ln and not ln.startswith('Warning:  Breakpoint label ')]
        res['queries'].append({'A': list(A), 'L': list(L), 'S': list(S),
                               'bps': [[a, l] for a, l in h.breakpoints.items()], 'warnings': warns, 'other_output': other,
                               'l2a_equal': h.label_to_address == table})
    return res


def roundtrip_job(job, td):
    out = []
    p = Path(td) / 'rt.fjd'
    for items in job['tables']:
        t = {k: v for k, v in items}
        r = {}
        try:
            save_debugging_labels(p, t)
            back = load_debugging_labels(p)
            r['equal'] = back == t
            r['same_order'] = list(back.items()) == list(t.items())
            r['types_ok'] = all(type(k) is str and type(v) is int for k, v in back.items())
            if not (r['equal'] and r['same_order']):
                r['loaded'] = [[k, v] for k, v in back.items()][:50]
        except BaseException as e:  # noqa
            r['exc'] = type(e).__name__ + ': ' + str(e)[:300]
        out.append(r)
    return {'results': out}


def big_roundtrip_job(job, td):
    """a label table whose JSON has `mib` MiB: a block of distinctive names at the start, incompressible random names in
    between, the same block (other keys, same long text) at the end - the text recurs at a distance above the target size.
    Built here (not shipped through json files).  Also resolves breakpoints against the saved file."""
    import random
    rng = random.Random(job['seed'])
    target = int(job['mib'] * (1 << 20))
    block = ['m_%040x_%d' % (rng.getrandbits(160), k) for k in range(job.get('block', 60))]
    t = {}
    addr = 0
    for n in block:
        t['f1:l9:marker---' + n] = addr
        addr += 128
    size = sum(len(k) + 12 for k in t)
    i = 0
    while size < target:
        k = 'f1:l%d:rep%d:filler---%064x' % (10 + i % 7, i, rng.getrandbits(256))
        t[k] = addr
        addr += 128
        size += len(k) + 4 + len(str(addr)) + 2
        i += 1
    for n in block:
        t['f1:l11:marker---' + n] = addr
        addr += 128
    p = Path(td) / 'big.fjd'
    r = {'entries': len(t), 'json_bytes': len(json.dumps(t))}
    try:
        save_debugging_labels(p, t)
        r['file_bytes'] = p.stat().st_size
        back = load_debugging_labels(p)
        r['equal'] = back == t
        r['same_order'] = r['equal'] and all(a == b for a, b in zip(back, t))
        r['types_ok'] = all(type(k) is str and type(v) is int for k, v in back.items())
        # the debugger's path: exact label at the start, substring of a name of the block (matches start and end copies)
        exact = 'f1:l9:marker---' + block[0]
        sub = block[-1][2:30]
        with contextlib.redirect_stdout(io.StringIO()):
            h = get_breakpoint_handler(p, {5}, {exact}, {sub})
        want = {5, t[exact]} | {a for k, a in t.items() if sub in k}
        r['bp_ok'] = set(h.breakpoints) == want and len(want) == 4
        r['bps'] = sorted(h.breakpoints)
    except BaseException as e:  # noqa
        r['exc'] = type(e).__name__ + ': ' + str(e)[:300]
    return {'results': [r]}


def main():
    sys.set_int_max_str_digits(0)
    jobs = json.loads(Path(sys.argv[1]).read_text())
    out = []
    with tempfile.TemporaryDirectory(dir=os.getcwd()) as td:
        for j in jobs:
            out.append(asm_job(j, td) if j['kind'] == 'asm' else
                       big_roundtrip_job(j, td) if j['kind'] == 'roundtrip_big' else roundtrip_job(j, td))
    Path(sys.argv[2]).write_text(json.dumps(out))


if __name__ == '__main__':
    main()
