"""C14 worker: call the REAL `flipjump.assemble` (the Python API of the repo on PYTHONPATH) on source files written into
the scratch directory, one forked child per case, under a watchdog (wall-clock limit, address-space limit).
argv: in.json out.json

A case with "seq": [step, ...] (each step = the fields w, v, stl, files, max_depth, debug of a case) performs the steps one
after the other in ONE child and returns {"result": "seq", "steps": [observation per step, + "recursion_limit_after"]}.

in.json : {"dir": "<scratch sub-directory>", "timeout": 30.0, "mem_mb": 4096,
           "cases": [{"id": str, "w": 8|16|32|64, "v": 0..3, "stl": bool, "warm": bool,
                      "files": [[name, hex-of-bytes], ...], "max_depth": int|null,
                      "debug": bool (pass debugging_file_path=<case dir>/out.fjd),
                      "timeout": float?, "mem_mb": int?}, ...]}
out.json: one observation per case (nothing is judged here):
  {"result": "ok" | "exception" | "hang" | "crash",
   "cls": exception class name, "lib": is it a FlipJumpException, "mro": [...], "msg": str (cut), "catch_all": bool,
   "cause": class of __cause__ ("struct.error" style for non-builtins) or null,
   "frame": innermost frame inside the repo of the ORIGINAL exception (function name), "frame_file": file (repo relative),
   "stage": "parse" | "parser-fold" | "macro-resolve" | "label-resolve" | "write" | "api" (outermost pipeline function on the stack),
   "expr_frames" / "macro_frames": how many frames of the original traceback are Expr methods / macro expansions,
   "has_pos": message carries an input file name and a line number, "idents": source identifiers found in the message,
   "debug": bool, "dbg_exists": bool, "dbg_load": "loads" | "<exception class>" | null (only after a successful assembly),
   "out_exists": bool, "out_size": int, "reader": "accepts" | "<exception class>" | null, "secs": float}
The child reports in two lines: what assemble() did (the watchdog period ends there), then what the Reader says.
The default int->str digit limit of the interpreter is left untouched on purpose (it is part of the behaviour)."""
import contextlib
import json
import os
import re
import resource
import select
import signal
import struct
import sys
import time
import traceback
from pathlib import Path

import flipjump  # noqa: E402
from flipjump.assembler import fj_parser  # noqa: E402
from flipjump.fjm.fjm_consts import FJMVersion  # noqa: E402
from flipjump.fjm.fjm_reader import Reader  # noqa: E402
from flipjump.utils.exceptions import FlipJumpException  # noqa: E402
from flipjump.utils.functions import load_debugging_labels  # noqa: E402

REPO_ROOT = str(Path(flipjump.__file__).resolve().parent.parent)
CATCH_ALL_TEXT = 'Unknown exception during assembling the .fj files, please report this bug'
KEYWORDS = {'def', 'rep', 'ns', 'wflip', 'pad', 'segment', 'reserve'}
STAGE_OF = {'parse_macro_tree': 'parse', 'resolve_macros': 'macro-resolve', 'labels_resolve': 'label-resolve',
            'write_to_file': 'write', 'assert_first_op_assembled': 'label-resolve',
            'save_debugging_labels': 'write'}


def exc_name(e):
    t = type(e)
    if t.__module__ in ('builtins', '__main__'):
        return t.__name__
    if isinstance(e, struct.error):
        return 'struct.error'
    if isinstance(e, FlipJumpException):
        return t.__name__
    return f'{t.__module__}.{t.__name__}'


def describe(e, sources, names):
    root = e.__cause__ if e.__cause__ is not None else e
    # for a library exception chained from another library exception, the diagnostic site is the outer one
    site = root if not isinstance(root, FlipJumpException) else e
    tb = traceback.extract_tb(site.__traceback__)
    repo_frames = [f for f in tb if f.filename.startswith(REPO_ROOT + os.sep)]
    inner = repo_frames[-1] if repo_frames else None
    stage = 'api'
    for f in repo_frames:
        if f.name in STAGE_OF:
            stage = STAGE_OF[f.name]
            break
    if inner is not None and inner.name == 'get_minimized_expr':
        stage = 'parser-fold'
    try:
        msg = str(e)
    except BaseException as e2:  # noqa
        msg = f'<str() failed: {type(e2).__name__}>'
    has_pos = any(n in msg for n in names) and re.search(r'line \d+', msg) is not None
    idents = sorted({t for t in re.findall(r'[A-Za-z_][A-Za-z_0-9]*', sources) if t not in KEYWORDS and
                     re.search(r'(?<![A-Za-z_0-9])' + re.escape(t) + r'(?![A-Za-z_0-9])', msg[:20000])})[:8]
    return {'result': 'exception', 'cls': exc_name(e), 'lib': isinstance(e, FlipJumpException),
            'mro': [c.__name__ for c in type(e).__mro__][:6], 'msg': msg[:1500], 'msg_len': len(msg),
            'catch_all': CATCH_ALL_TEXT in msg,
            'cause': exc_name(e.__cause__) if e.__cause__ is not None else None,
            'frame': inner.name if inner else None,
            'frame_file': os.path.relpath(inner.filename, REPO_ROOT) if inner else None,
            'frame_line': inner.lineno if inner else None, 'stage': stage, 'has_pos': has_pos, 'idents': idents,
            # what the stack was made of (tells a deep expression tree from deep macro nesting when the stack overflows)
            'expr_frames': sum(1 for f in repo_frames if f.filename.endswith(os.sep + 'expr.py')),
            'macro_frames': sum(1 for f in repo_frames if f.name in ('resolve_macro_aux', 'resolve_rep_call'))}


def child(case, cdir, wfd):
    mem = int(case.get('mem_mb', 4096)) << 20
    # only the soft limit: it is lifted again when the outcome is reported (a process at its limit cannot even format
    # the traceback of the MemoryError it got)
    hard = resource.getrlimit(resource.RLIMIT_AS)[1]
    resource.setrlimit(resource.RLIMIT_AS, (mem, hard))
    resource.setrlimit(resource.RLIMIT_CORE, (0, 0))
    paths, names, sources = [], [], ''
    for name, hx in case['files']:
        p = cdir / name
        data = bytes.fromhex(hx)
        p.write_bytes(data)
        paths.append(p)
        names.append(name)
        sources += data.decode('latin1') + '\n'
    out = cdir / 'out.fjm'
    if not case.get('warm'):
        fj_parser._stl_prefix_cache.clear()
    kw = {}
    if case.get('max_depth') is not None:
        kw['max_recursion_depth'] = case['max_depth']
    dbg = cdir / 'out.fjd'
    if case.get('debug'):
        kw['debugging_file_path'] = dbg
    t0 = time.time()
    try:
        with open(os.devnull, 'w') as dn, contextlib.redirect_stdout(dn):
            flipjump.assemble(paths, out, memory_width=case['w'], use_stl=case['stl'],
                              fjm_version=FJMVersion(case['v']), print_time=False, **kw)
        obs = {'result': 'ok'}
    except BaseException as e:  # noqa  (everything is an observation)
        resource.setrlimit(resource.RLIMIT_AS, (hard, hard))
        sys.setrecursionlimit(5000)
        obs = describe(e, sources, names)
        del e
    obs['secs'] = round(time.time() - t0, 3)
    sys.setrecursionlimit(5000)
    obs['out_exists'] = out.exists()
    obs['out_size'] = out.stat().st_size if out.exists() else 0
    obs['debug'] = bool(case.get('debug'))
    obs['dbg_exists'] = dbg.exists()
    # first line: what assemble() did (the watchdog stops here); second line: what the Reader says about the output path
    os.write(wfd, (json.dumps(obs) + '\n').encode())
    reader = None
    if out.exists():
        try:
            with open(os.devnull, 'w') as dn, contextlib.redirect_stdout(dn):
                Reader(out)
            reader = 'accepts'
        except BaseException as e:  # noqa
            reader = exc_name(e)
    # the debugging-labels file of a successful assembly must load back (load_debugging_labels)
    dbg_load = None
    if case.get('debug') and obs['result'] == 'ok':
        try:
            labels = load_debugging_labels(dbg)
            dbg_load = 'loads' if isinstance(labels, dict) else f'not a dict: {type(labels).__name__}'
        except BaseException as e:  # noqa
            dbg_load = exc_name(e)
    os.write(wfd, (json.dumps({'reader': reader, 'dbg_load': dbg_load}) + '\n').encode())
    os.close(wfd)


def assemble_step(step, sdir, hard):
    """one assembly of a sequence, observed completely (same fields as a single case) inside the running process"""
    sdir.mkdir(parents=True, exist_ok=True)
    paths, names, sources = [], [], ''
    for name, hx in step['files']:
        p = sdir / name
        data = bytes.fromhex(hx)
        p.write_bytes(data)
        paths.append(p)
        names.append(name)
        sources += data.decode('latin1') + '\n'
    out = sdir / 'out.fjm'
    dbg = sdir / 'out.fjd'
    kw = {}
    if step.get('max_depth') is not None:
        kw['max_recursion_depth'] = step['max_depth']
    if step.get('debug'):
        kw['debugging_file_path'] = dbg
    t0 = time.time()
    try:
        with open(os.devnull, 'w') as dn, contextlib.redirect_stdout(dn):
            flipjump.assemble(paths, out, memory_width=step['w'], use_stl=step['stl'],
                              fjm_version=FJMVersion(step['v']), print_time=False, **kw)
        obs = {'result': 'ok'}
    except BaseException as e:  # noqa
        limit_now = sys.getrecursionlimit()
        sys.setrecursionlimit(max(limit_now, 5000))
        obs = describe(e, sources, names)
        sys.setrecursionlimit(limit_now)        # the process state the next step sees is the one the library left
        del e
    obs['secs'] = round(time.time() - t0, 3)
    obs['recursion_limit_after'] = sys.getrecursionlimit()
    obs['out_exists'] = out.exists()
    obs['out_size'] = out.stat().st_size if out.exists() else 0
    obs['debug'] = bool(step.get('debug'))
    obs['dbg_exists'] = dbg.exists()
    limit_now = sys.getrecursionlimit()
    sys.setrecursionlimit(max(limit_now, 5000))
    obs['reader'] = None
    if out.exists():
        try:
            with open(os.devnull, 'w') as dn, contextlib.redirect_stdout(dn):
                Reader(out)
            obs['reader'] = 'accepts'
        except BaseException as e:  # noqa
            obs['reader'] = exc_name(e)
    obs['dbg_load'] = None
    if step.get('debug') and obs['result'] == 'ok':
        try:
            labels = load_debugging_labels(dbg)
            obs['dbg_load'] = 'loads' if isinstance(labels, dict) else f'not a dict: {type(labels).__name__}'
        except BaseException as e:  # noqa
            obs['dbg_load'] = exc_name(e)
    sys.setrecursionlimit(limit_now)
    for f in list(sdir.iterdir()):
        f.unlink()
    sdir.rmdir()
    return obs


def child_seq(case, cdir, wfd):
    """several assemblies in a row in ONE process (what a test-suite, a server or a notebook does): one line per step"""
    mem = int(case.get('mem_mb', 4096)) << 20
    hard = resource.getrlimit(resource.RLIMIT_AS)[1]
    resource.setrlimit(resource.RLIMIT_AS, (mem, hard))
    resource.setrlimit(resource.RLIMIT_CORE, (0, 0))
    fj_parser._stl_prefix_cache.clear()
    for i, step in enumerate(case['seq']):
        obs = assemble_step(step, cdir / f'step{i}', hard)
        os.write(wfd, (json.dumps(obs) + '\n').encode())
    os.close(wfd)


def run_seq(case, base, default_timeout):
    cdir = base / re.sub(r'[^A-Za-z0-9_.-]', '_', str(case['id']))
    cdir.mkdir(parents=True, exist_ok=True)
    rfd, wfd = os.pipe()
    sys.stdout.flush()
    pid = os.fork()
    if pid == 0:
        rc = 0
        try:
            os.close(rfd)
            child_seq(case, cdir, wfd)
        except BaseException:  # noqa
            traceback.print_exc()
            rc = 3
        finally:
            os._exit(rc)
    os.close(wfd)
    limit = float(case.get('timeout') or default_timeout) * len(case['seq'])
    t0 = time.time()
    buf = b''
    hang = False
    while True:
        left = limit - (time.time() - t0)
        r = select.select([rfd], [], [], left)[0] if left > 0 else []
        if not r:
            hang = True
            break
        chunk = os.read(rfd, 1 << 16)
        if not chunk:
            break
        buf += chunk
    os.close(rfd)
    if hang:
        os.kill(pid, signal.SIGKILL)
    _, status = os.waitpid(pid, 0)
    steps = [json.loads(ln.decode()) for ln in buf.split(b'\n') if ln.strip()]
    while len(steps) < len(case['seq']):
        steps.append({'result': 'hang' if hang else 'crash', 'status': status, 'out_exists': False, 'out_size': 0,
                      'reader': None, 'secs': round(time.time() - t0, 2)})
    import shutil
    shutil.rmtree(cdir, ignore_errors=True)
    return {'result': 'seq', 'steps': steps}


def run_case(case, base, default_timeout):
    if case.get('seq'):
        return run_seq(case, base, default_timeout)
    cdir = base / re.sub(r'[^A-Za-z0-9_.-]', '_', str(case['id']))
    cdir.mkdir(parents=True, exist_ok=True)
    rfd, wfd = os.pipe()
    sys.stdout.flush()
    pid = os.fork()
    if pid == 0:
        rc = 0
        try:
            os.close(rfd)
            child(case, cdir, wfd)
        except BaseException:  # noqa
            traceback.print_exc()
            rc = 3
        finally:
            os._exit(rc)
    os.close(wfd)
    limit = float(case.get('timeout') or default_timeout)
    t0 = time.time()
    buf = b''
    hang = False
    while True:
        # the watchdog covers assemble() (until the first line arrives); the Reader check afterwards gets its own allowance
        left = (limit if b'\n' not in buf else limit + 60.0) - (time.time() - t0)
        if left <= 0:
            hang = True
            break
        r, _, _ = select.select([rfd], [], [], left)
        if not r:
            hang = True
            break
        chunk = os.read(rfd, 1 << 16)
        if not chunk:
            break
        buf += chunk
    os.close(rfd)
    if hang:
        os.kill(pid, signal.SIGKILL)
    _, status = os.waitpid(pid, 0)
    out = cdir / 'out.fjm'
    lines = buf.split(b'\n')
    if len(lines) >= 2 and lines[0]:
        obs = json.loads(lines[0].decode())
        second = json.loads(lines[1].decode()) if len(lines) >= 3 and lines[1] else {}
        obs['reader'] = second.get('reader')
        obs['dbg_load'] = second.get('dbg_load')
        if obs['reader'] is None and obs['out_exists']:
            try:
                Reader(out)
                obs['reader'] = 'accepts'
            except BaseException as e:  # noqa
                obs['reader'] = exc_name(e)
    elif hang:
        obs = {'result': 'hang', 'secs': round(time.time() - t0, 2), 'out_exists': out.exists(),
               'out_size': out.stat().st_size if out.exists() else 0, 'reader': None}
    else:
        obs = {'result': 'crash', 'status': status, 'secs': round(time.time() - t0, 2), 'out_exists': out.exists(),
               'out_size': out.stat().st_size if out.exists() else 0, 'reader': None}
    if obs.get('reader') is None and obs['out_exists'] and obs['result'] in ('hang', 'crash'):
        try:
            Reader(out)
            obs['reader'] = 'accepts'
        except BaseException as e:  # noqa
            obs['reader'] = exc_name(e)
    for f in list(cdir.iterdir()):
        f.unlink()
    cdir.rmdir()
    return obs


def main():
    payload = json.load(open(sys.argv[1]))
    base = Path(payload['dir']) / f'asmfail_{os.getpid()}'
    base.mkdir(parents=True, exist_ok=True)
    # warm the stl prefix cache once per width in the parent, so that "warm" cases restore it (the children of "cold"
    # cases clear it first): both code paths of _parse_files_into_parser are exercised
    warm_ws = sorted({c['w'] for c in payload['cases'] if c.get('warm') and c.get('stl')})
    for w in warm_ws:
        stl = flipjump.assembler.fj_parser  # noqa
        from flipjump.utils.functions import get_file_tuples
        probe = base / 'warm.fj'
        probe.write_text(';\n')
        tuples = get_file_tuples([str(probe)], no_stl=False)
        with open(os.devnull, 'w') as dn, contextlib.redirect_stdout(dn):
            fj_parser.parse_macro_tree(tuples, w, True)
        probe.unlink()
    res = [run_case(c, base, payload.get('timeout', 30.0)) for c in payload['cases']]
    try:
        base.rmdir()
    except OSError:
        pass
    with open(sys.argv[2], 'w') as f:
        json.dump(res, f)


if __name__ == '__main__':
    main()
