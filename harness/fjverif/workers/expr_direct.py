"""C12 source-tie worker: runs the REAL Expr.eval_new / Expr.exact_eval of the repository under test on given trees.

usage: python -m fjverif.workers.expr_direct in.json out.json
in : list of cases {"tree": T, "params": {name: T}, "labels": {name: "int as text"}}
     T = "int as text" | {"l": name} | {"o": operator key, "a": [T, ...]}
out: list of {"new": O, "exact": O, "staged": O}, same order, where
     new    = tree.eval_new(params)                         O = {"tree": T} | {"int": "text"} | {"lib": tag} | {"other": class}
     exact  = tree.exact_eval(labels)
     staged = tree.eval_new(params).exact_eval(labels)      ({"other": "skipped"} when eval_new raised)
     tag = diagnostic class of the FlipJumpExprException, by the literal text of its message:
           0 raised by an operator function (negative exponent), 1 unknown label, 2 bad math operation
"""
import json
import resource
import signal
import sys
from pathlib import Path


class Timeout(Exception):
    pass


def _alarm(signum, frame):
    raise Timeout()


def main():
    inp, outp = sys.argv[1], sys.argv[2]
    cases = json.loads(Path(inp).read_text())
    resource.setrlimit(resource.RLIMIT_AS, (4 << 30, 4 << 30))
    from flipjump.assembler.inner_classes.expr import Expr
    from flipjump.utils.exceptions import FlipJumpExprException
    signal.signal(signal.SIGALRM, _alarm)

    def build(t):
        if isinstance(t, str):
            return Expr(int(t))
        if 'l' in t:
            return Expr(t['l'])
        return Expr((t['o'], tuple(build(a) for a in t['a'])))

    def dump(e):
        if type(e) is not Expr:
            raise RuntimeError(f'unknown expression node {type(e)}')
        v = e.value
        if isinstance(v, bool):
            raise RuntimeError('bool inside an Expr')
        if isinstance(v, int):
            return str(v)
        if isinstance(v, str):
            return {'l': v}
        if isinstance(v, tuple) and len(v) == 2 and isinstance(v[0], str) and isinstance(v[1], tuple):
            return {'o': v[0], 'a': [dump(a) for a in v[1]]}
        raise RuntimeError(f'unknown Expr payload {v!r}')

    def observe(f, kind):
        signal.alarm(20)
        try:
            r = f()
            if kind == 'tree':
                return {'tree': dump(r)}, r
            if isinstance(r, bool) or not isinstance(r, int):
                return {'other': f'returned {type(r).__name__}'}, None
            return {'int': str(r)}, None
        except FlipJumpExprException as e:
            m = str(e)
            tags = [t for lit, t in (('negative exponent', 0), ("Can't evaluate label", 1), ('bad math operation', 2)) if lit in m]
            return ({'lib': tags[-1]} if tags else {'other': 'FlipJumpExprException: ' + m[:80]}), None
        except Timeout:
            return {'other': 'Timeout'}, None
        except BaseException as e:           # the observable IS the exception
            return {'other': type(e).__name__}, None
        finally:
            signal.alarm(0)

    out = []
    for c in cases:
        tree = build(c['tree'])
        params = {k: build(v) for k, v in c['params'].items()}
        labels = {k: int(v) for k, v in c['labels'].items()}
        new, res = observe(lambda: tree.eval_new(params), 'tree')
        exact, _ = observe(lambda: tree.exact_eval(labels), 'int')
        staged = observe(lambda: res.exact_eval(labels), 'int')[0] if res is not None else {'other': 'skipped'}
        out.append({'new': new, 'exact': exact, 'staged': staged})
    Path(outp).write_text(json.dumps(out))


if __name__ == '__main__':
    main()
