"""Run engine cases with a device that raises at its k-th call. argv: in.json out.json"""
import json
import os
import signal
import sys
import tempfile
from pathlib import Path

from fjverif.workers._load import load_native

NATIVE = load_native()

from flipjump.interpreter import fjm_run  # noqa: E402
from flipjump.interpreter.io_devices.FixedIO import FixedIO  # noqa: E402
from flipjump.utils.exceptions import IODeviceException, IOReadOnEOF, FlipJumpRuntimeException  # noqa: E402
from fjverif.workers.engine import write_fjm  # noqa: E402


class MyDeviceError(IODeviceException):
    pass


class FailDev(FixedIO):
    def __init__(self, data, fail_at, kind):
        super().__init__(data)
        self.fail_at = fail_at
        self.kind = kind
        self.calls = 0
        self.memview = None
        self.nbits = 0
        self.bits = 0
        self.failed = None
        self.raised = None
        self.signal_after = None
        self.signal_at_call = 0

    def attach_memory(self, m):
        self.memview = m

    def _maybe_fail(self, in_read):
        if self.signal_after is not None and self.calls == self.signal_at_call:
            # an asynchronous interrupt: SIGALRM (its handler raises KeyboardInterrupt) shortly after this call returned
            signal.setitimer(signal.ITIMER_REAL, self.signal_after)
        if self.calls == self.fail_at and self.failed is None:
            self.failed = 'read' if in_read else 'write'
            if self.kind == 'libio':
                self.raised = MyDeviceError('device failure (library IO error)')
            elif self.kind == 'eof_on_write':
                self.raised = IOReadOnEOF('EOF raised out of place') if not in_read else MyDeviceError('device failure')
            elif self.kind == 'foreign':
                self.raised = ValueError('foreign exception from the device')
            else:
                self.raised = KeyboardInterrupt()
            raise self.raised
        self.calls += 1

    def read_bit(self):
        self._maybe_fail(True)
        return super().read_bit()

    def write_bit(self, bit):
        self._maybe_fail(False)
        self.bits |= (1 if bit else 0) << self.nbits
        self.nbits += 1
        super().write_bit(bit)


def _alarm(signum, frame):
    raise KeyboardInterrupt()


def run_case(case, td):
    path = Path(td) / 'c.fjm'
    write_fjm(path, case)
    engine = case['engine']
    for k in ('FLIPJUMP_NO_NATIVE', 'FLIPJUMP_NO_FLAT', 'FLIPJUMP_MEASURE_SPECULATION'):
        os.environ.pop(k, None)
    kwargs = {}
    if engine == 'featured':
        kwargs['profile'] = True
    elif engine == 'fast':
        os.environ['FLIPJUMP_NO_NATIVE'] = '1'
    else:
        assert NATIVE is not None
        if case.get('no_flat'):
            os.environ['FLIPJUMP_NO_FLAT'] = '1'
    if case.get('last_ops') is not None:
        kwargs['last_ops_debugging_list_length'] = case['last_ops']
    dev = FailDev(bytes.fromhex(case.get('input', '')), case['fail_at'], case['kind'])
    res = {}
    signal.setitimer(signal.ITIMER_REAL, case.get('watchdog', 4.0))
    if case.get('signal_after') is not None:
        dev.signal_after = case['signal_after']
        dev.signal_at_call = case.get('signal_at_call', 0)
    try:
        st = fjm_run.run(path, io_device=dev, **kwargs)
        res['cause'] = int(st.termination_cause)
        res['ops'] = st.op_counter
        res['fault'] = st.memory_error_address
        res['last_ops'] = list(st.last_ops_addresses) if st.last_ops_addresses is not None else None
        res['outcome'] = 'stats'
    except BaseException as e:  # noqa
        if e is dev.raised:
            res['outcome'] = 'reraised'
        elif isinstance(e, FlipJumpRuntimeException) and e.__cause__ is dev.raised and dev.raised is not None:
            res['outcome'] = 'wrapped'
        else:
            res['outcome'] = 'other:' + type(e).__name__ + ':' + str(e)[:100]
    finally:
        signal.setitimer(signal.ITIMER_REAL, 0)
    res['failed'] = dev.failed
    nfull = dev.nbits // 8
    res['out'] = [dev.nbits, list(dev.bits.to_bytes(nfull + 1, 'little')[:nfull]), dev.bits >> (8 * nfull)]
    if case.get('read_mem') and dev.memview is not None:
        memo = {}
        for a in case['read_mem']:
            try:
                memo[str(a)] = dev.memview.read_word(a)
            except BaseException as e:  # noqa
                memo[str(a)] = 'exc:' + type(e).__name__
        res['mem'] = memo
    return res


def run_c_callable_case(case, td):
    """an interrupt signal while the device's write_bit is a C-implemented callable (a bounded deque's append: it runs no
    bytecode, so only the engine itself can notice the pending signal).  The run happens in a forked child that is
    killed after a hard limit: a run that never stops is the observation 'hang'."""
    import collections
    import select
    import time
    res = {'outcome': 'inconclusive', 'attempts': 0}
    for delay in (0.15, 0.4, 1.0):
        res['attempts'] += 1
        rfd, wfd = os.pipe()
        pid = os.fork()
        if pid == 0:
            os.close(rfd)
            out = {}
            try:
                path = Path(td) / 'cc.fjm'
                write_fjm(path, case)
                for k in ('FLIPJUMP_NO_NATIVE', 'FLIPJUMP_NO_FLAT', 'FLIPJUMP_MEASURE_SPECULATION'):
                    os.environ.pop(k, None)
                kwargs = {}
                if case['engine'] == 'featured':
                    kwargs['profile'] = True
                elif case['engine'] == 'fast':
                    os.environ['FLIPJUMP_NO_NATIVE'] = '1'
                elif case.get('no_flat'):
                    os.environ['FLIPJUMP_NO_FLAT'] = '1'
                if case.get('last_ops') is not None:
                    kwargs['last_ops_debugging_list_length'] = case['last_ops']
                dev = FixedIO(b'')
                dev.write_bit = collections.deque(maxlen=64).append
                signal.signal(signal.SIGALRM, _alarm)
                signal.setitimer(signal.ITIMER_REAL, delay)
                try:
                    st = fjm_run.run(path, io_device=dev, **kwargs)
                    out = {'outcome': 'stats', 'cause': int(st.termination_cause), 'ops': st.op_counter,
                           'last_ops_len': len(st.last_ops_addresses) if st.last_ops_addresses is not None else None}
                except BaseException as e:  # noqa
                    out = {'outcome': 'raised:' + type(e).__name__}
            except BaseException as e:  # noqa
                out = {'outcome': 'harness:' + type(e).__name__ + ':' + str(e)[:80]}
            try:
                os.write(wfd, json.dumps(out).encode())
            finally:
                os._exit(0)
        os.close(wfd)
        t0 = time.time()
        ready, _, _ = select.select([rfd], [], [], case.get('hard_timeout', 8.0) + delay)
        if not ready:
            os.kill(pid, signal.SIGKILL)
            os.waitpid(pid, 0)
            os.close(rfd)
            return {'outcome': 'hang', 'delay': delay, 'waited': round(time.time() - t0, 2), 'attempts': res['attempts']}
        data = b''
        while True:
            chunk = os.read(rfd, 65536)
            if not chunk:
                break
            data += chunk
        os.close(rfd)
        os.waitpid(pid, 0)
        try:
            out = json.loads(data.decode())
        except ValueError:
            out = {'outcome': 'child-died'}
        out['delay'] = delay
        out['attempts'] = res['attempts']
        if out['outcome'] == 'raised:KeyboardInterrupt' or (out['outcome'] == 'stats' and out.get('ops', 0) == 0):
            res = dict(out, outcome='inconclusive')      # the signal arrived before the run loop: try a later instant
            continue
        return out
    return res


def main():
    signal.signal(signal.SIGALRM, _alarm)
    cases = json.loads(Path(sys.argv[1]).read_text())
    out = []
    with tempfile.TemporaryDirectory(dir=os.getcwd()) as td:
        for c in cases:
            out.append(run_c_callable_case(c, td) if c.get('kind') == 'c_callable' else run_case(c, td))
    Path(sys.argv[2]).write_text(json.dumps(out))


if __name__ == '__main__':
    main()
