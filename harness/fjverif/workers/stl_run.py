"""Run stl harness blocks on the REAL engines.  argv: in.json out.json

The operands are written into the loaded program through the public device hook (IODevice.attach_memory ->
DeviceMemory.write_word) right before the run loop starts: variable words get digit*dw, word 1 (the jump word of
the first op `;code_start`) gets the block's entry address.  After the run EVERY word of every segment is read
back and compared with the initial image patched with the expected values (the frame equation), modulo the
declared scratch masks.

in : {"jobs": [{"fjm", "w", "engine": "fast"|"native"|"featured", "cases": [
         {"id", "patch": [[word, value]], "expect": [[word, value]], "scratch": [[lo, hi, mask]], "watchdog": s}]}]}
out: [[{"id", "cause", "ops", "out": [bytes], "out_bits", "diffs": [[word, got, want]], "ndiffs", "exc"?}]]

ADDED FOR C09 (backwards compatible): a case may carry "input": [bytes] (fed through FixedIO; default empty) and
"nomem": true (no memory comparison: runs that are specified to end with EOF); every result carries "consumed" =
the number of input BITS the program read.
"""
import json
import os
import signal
import sys
from pathlib import Path

from fjverif.workers._load import load_native

NATIVE = load_native()

from flipjump.fjm.fjm_reader import Reader  # noqa: E402
from flipjump.interpreter import fjm_run  # noqa: E402
from flipjump.interpreter.io_devices.FixedIO import FixedIO  # noqa: E402


class PatchDev(FixedIO):
    def __init__(self, patch, inp=b''):
        super().__init__(inp)
        self.total_input_bits = 8 * len(inp)
        self.patch = patch
        self.memview = None
        self.nbits = 0
        self.bits = 0

    def attach_memory(self, device_memory):
        self.memview = device_memory
        for a, v in self.patch:
            device_memory.write_word(a, v)

    def write_bit(self, bit):
        self.bits |= (1 if bit else 0) << self.nbits
        self.nbits += 1

    def consumed_bits(self):
        return self.total_input_bits - 8 * len(self.remaining_input) - self.bits_to_read_in_input_byte


def _alarm(signum, frame):
    raise KeyboardInterrupt()


def run_case(job, image, segs, case):
    for k in ('FLIPJUMP_NO_NATIVE', 'FLIPJUMP_NO_FLAT', 'FLIPJUMP_MEASURE_SPECULATION'):
        os.environ.pop(k, None)
    kwargs = {}
    if job['engine'] == 'featured':
        kwargs['profile'] = True
    elif job['engine'] == 'fast':
        os.environ['FLIPJUMP_NO_NATIVE'] = '1'
    else:
        assert NATIVE is not None, 'native engine requested without FJVERIF_FJCORE_SO'
    dev = PatchDev(case['patch'], bytes(case.get('input', [])))
    res = {'id': case.get('id')}
    signal.setitimer(signal.ITIMER_REAL, case.get('watchdog', 20.0))
    try:
        st = fjm_run.run(Path(job['fjm']), io_device=dev, **kwargs)
        res['cause'] = int(st.termination_cause)
        res['ops'] = st.op_counter
        res['fault'] = st.memory_error_address
    except KeyboardInterrupt:
        res['exc'] = 'watchdog'
    except BaseException as e:  # noqa
        res['exc'] = type(e).__name__ + ': ' + str(e)[:200]
    finally:
        signal.setitimer(signal.ITIMER_REAL, 0)
    nfull = dev.nbits // 8
    res['out'] = list(dev.bits.to_bytes(nfull + 1, 'little')[:nfull])
    res['out_bits'] = dev.nbits
    res['consumed'] = dev.consumed_bits()
    diffs = []
    ndiffs = 0
    if dev.memview is not None and 'exc' not in res and not case.get('nomem'):
        want = dict(case['expect'])
        scratch = case.get('scratch', [])
        rd = dev.memview.read_word
        for s, l in segs:
            for a in range(s, s + l):
                got = rd(a)
                exp = want.get(a, image.get(a, 0))
                if got != exp:
                    mask = 0
                    for lo, hi, mk in scratch:
                        if lo <= a < hi:
                            mask |= mk
                    if (got ^ exp) & ~mask:
                        ndiffs += 1
                        if len(diffs) < 12:
                            diffs.append([a, got, exp])
        res['read'] = {str(a): rd(a) for a in case.get('read', [])}
    res['diffs'] = diffs
    res['ndiffs'] = ndiffs
    return res


def main():
    signal.signal(signal.SIGALRM, _alarm)
    payload = json.loads(Path(sys.argv[1]).read_text())
    out = []
    for job in payload['jobs']:
        rd = Reader(Path(job['fjm']))
        image = dict(rd.memory)
        segs = [(s.segment_start, s.segment_length) for s in rd.memory_segments]
        out.append([run_case(job, image, segs, c) for c in job['cases']])
    Path(sys.argv[2]).write_text(json.dumps(out))


if __name__ == '__main__':
    main()
