"""C13 worker: run a sequence of assemble calls (a history followed by a probe, or a probe alone = fresh process) in
THIS process against the flipjump package found on PYTHONPATH, and report for each call

  * the result (bytes of the .fjm and .fjd files, or the exception),
  * what the model needs to replay the call (Model/AsmCache.v, module Replay): the file records as the code sees
    them, which files reached parser.parse with which namespace / recursion limit / outcome, restore / snapshot
    events with their key, and every modelled global after the call,
  * immutability of what the cache holds (deep structural hash of every cached Macro / op / Expr), identity of the
    containers handed out by a restore, and a digest of every module-level variable of the flipjump package.

The real functions are wrapped from outside (attributes of the imported modules); nothing in the repository changes.
usage: python -m fjverif.workers.asmhist in.json out.json
"""
import base64
import contextlib
import hashlib
import io
import json
import os
import sys
from pathlib import Path

sys.setrecursionlimit(sys.getrecursionlimit())  # no-op; documents that the limit is the interpreter default here


def b64(b):
    return base64.b64encode(b).decode()


def main():
    inp, outp = sys.argv[1], sys.argv[2]
    payload = json.loads(Path(inp).read_text())
    from flipjump.assembler import assembler, fj_parser
    from flipjump.assembler.inner_classes import ops as opsmod
    from flipjump.assembler.inner_classes.expr import Expr
    from flipjump.fjm.fjm_consts import FJMVersion
    from flipjump.fjm.fjm_writer import Writer
    import flipjump

    pkg_root = str(Path(flipjump.__file__).resolve().parent)
    trace = {'calls': [], 'restored': None, 'snapshotted': None, 'alias': [], 'parse_done': False, 'base': []}
    snap_calls = {}

    def keyj(k):
        try:
            return json.dumps([k[0], bool(k[1]), [list(e) for e in k[2]]])
        except Exception:  # a cache key of another shape: still report something comparable
            return json.dumps([0, False, [[repr(k)]]])

    # ---- wrappers ----
    orig_parse = fj_parser.FJParser.parse

    def parse_wrapper(self, tokens):
        rec = {'short': fj_parser.curr_file_short_name, 'ns_in': list(fj_parser.curr_namespace),
               'limit': sys.getrecursionlimit(), 'sha': hashlib.sha1(fj_parser.curr_text.encode()).hexdigest(),
               'errlen': len(fj_parser.all_errors)}
        trace['calls'].append(rec)
        try:
            r = orig_parse(self, tokens)
        except BaseException as e:
            rec['outcome'] = 'exn'
            rec['exn'] = type(e).__name__
            rec['ns_after'] = list(fj_parser.curr_namespace)
            rec['errs'] = len(fj_parser.all_errors) > rec['errlen']
            raise
        rec['outcome'] = 'ok'
        rec['ns_after'] = list(fj_parser.curr_namespace)
        rec['errs'] = len(fj_parser.all_errors) > rec['errlen']
        return r
    fj_parser.FJParser.parse = parse_wrapper

    orig_restore = fj_parser._restore_parser_from_cache

    def restore_wrapper(parser, cached):
        r = orig_restore(parser, cached)
        key = [k for k, v in fj_parser._stl_prefix_cache.items() if v is cached]
        trace['restored'] = keyj(key[0]) if key else '?'
        trace['base'] = list(snap_calls.get(trace['restored'], []))
        main = opsmod.INITIAL_MACRO_NAME
        try:
            if parser.consts is cached[0]:
                trace['alias'].append('consts dict shared with the cache')
            if parser.macros is cached[1]:
                trace['alias'].append('macros dict shared with the cache')
            if parser.macros[main] is cached[1][main]:
                trace['alias'].append('main Macro object shared with the cache')
            if parser.macros[main].ops is cached[2] or parser.macros[main].ops is cached[1][main].ops:
                trace['alias'].append('main op list shared with the cache')
        except Exception as e:  # a changed cache layout: report, do not crash
            trace['alias'].append(f'cannot inspect restored parser: {type(e).__name__}')
        return r
    fj_parser._restore_parser_from_cache = restore_wrapper

    orig_snapshot = fj_parser._snapshot_parser_to_cache

    def snapshot_wrapper(parser, cache_key):
        r = orig_snapshot(parser, cache_key)
        trace['snapshotted'] = keyj(cache_key)
        snap_calls[trace['snapshotted']] = trace['base'] + [c for c in trace['calls'] if c.get('outcome') == 'ok']
        return r
    fj_parser._snapshot_parser_to_cache = snapshot_wrapper

    orig_pmt = assembler.parse_macro_tree

    def pmt_wrapper(*a, **kw):
        r = orig_pmt(*a, **kw)
        trace['parse_done'] = True
        return r
    assembler.parse_macro_tree = pmt_wrapper

    # ---- deep structural hash of cached objects ----
    def feed(h, o, depth=0):
        if depth > 3000:
            h.update(b'<deep>')
            return
        if o is None or isinstance(o, (bool, int, str)):
            h.update(repr(o).encode())
            h.update(b';')
        elif isinstance(o, Expr):
            h.update(b'E(')
            feed(h, o.value, depth + 1)
            h.update(b')')
        elif isinstance(o, (list, tuple)):
            h.update(b'[' if isinstance(o, list) else b'(')
            for x in o:
                feed(h, x, depth + 1)
            h.update(b']')
        elif isinstance(o, dict):
            h.update(b'{')
            for k, v in o.items():          # insertion order is part of the structure
                feed(h, k, depth + 1)
                h.update(b':')
                feed(h, v, depth + 1)
            h.update(b'}')
        elif isinstance(o, opsmod.MacroName):
            feed(h, o.to_tuple(), depth + 1)
        elif isinstance(o, Path):
            h.update(str(o).encode())
        elif hasattr(o, '__dict__'):
            h.update(type(o).__name__.encode())
            h.update(b'<')
            for k in sorted(vars(o)):
                h.update(k.encode())
                h.update(b'=')
                feed(h, vars(o)[k], depth + 1)
            h.update(b'>')
        else:
            h.update(f'?{type(o).__name__}'.encode())

    def entry_hash(value):
        h = hashlib.sha1()
        try:
            consts, macros, main_ops = value
            main = opsmod.INITIAL_MACRO_NAME
            feed(h, consts)
            for name, m in macros.items():
                feed(h, name)
                if name == main:
                    # the live main macro keeps accumulating the top-level ops of the assembly that created the
                    # entry; restore never reads its op list (it uses the separate copy below)
                    feed(h, [m.params, m.local_params, m.namespace, m.code_position])
                else:
                    feed(h, m)
            feed(h, main_ops)
        except RecursionError:
            return 'recursion'
        except Exception as e:
            return f'layout:{type(e).__name__}'
        return h.hexdigest()

    def globals_digest():
        d = {}
        for name, mod in list(sys.modules.items()):
            if not (name == 'flipjump' or name.startswith('flipjump.')) or mod is None:
                continue
            for k, v in list(vars(mod).items()):
                if k.startswith('__') or callable(v) or isinstance(v, type(sys)):
                    continue
                if isinstance(v, (bool, int, str, bytes, float, type(None), list, dict, set, tuple, Path)):
                    if name == 'flipjump.assembler.fj_parser' and k == '_stl_prefix_cache':
                        d[f'{name}.{k}'] = str(len(v))
                        continue
                    try:
                        d[f'{name}.{k}'] = hashlib.sha1(repr(v).encode()).hexdigest()[:12]
                    except Exception:
                        d[f'{name}.{k}'] = 'unrepr'
        d['sys.recursionlimit'] = str(sys.getrecursionlimit())
        d['os.cwd'] = os.getcwd()
        d['os.environ'] = hashlib.sha1(repr(sorted(os.environ.items())).encode()).hexdigest()[:12]
        d['sys.path'] = hashlib.sha1(repr(sys.path).encode()).hexdigest()[:12]
        return d

    def file_record(short, path):
        p = Path(path)
        rec = {'short': short, 'path': str(p), 'abs': str(p.absolute())}
        try:
            res = p.resolve()
            rec['resolved'] = str(res)
            rec['in_stl'] = res.is_relative_to(fj_parser._STL_DIR)
        except OSError:
            rec['resolved'] = ''
            rec['in_stl'] = False
        rec['isfile'] = os.path.isfile(p)
        try:
            st = p.stat()
            rec['stat'] = [st.st_mtime_ns, st.st_size]
        except OSError:
            rec['stat'] = None
        try:
            txt = p.open('r', encoding='utf-8').read()
            rec['sha'] = hashlib.sha1(txt.encode()).hexdigest()
        except Exception as e:
            rec['sha'] = None
            rec['read_exn'] = type(e).__name__
        return rec

    hashes = {}
    results = []
    observe = payload.get('observe', True)
    check_hash = payload.get('hash_cache', True)
    g_before = globals_digest() if observe else {}
    changed_globals = set()
    for rq in payload['requests']:
        for path, content, times in rq.get('pre_write', []):
            Path(path).parent.mkdir(parents=True, exist_ok=True)
            if content.startswith('b64:'):
                Path(path).write_bytes(base64.b64decode(content[4:]))
            else:
                Path(path).write_text(content)
            if times:
                os.utime(path, ns=(times, times))
        for path in rq.get('pre_delete', []):
            with contextlib.suppress(FileNotFoundError):
                os.unlink(path)
        if rq.get('pre_limit'):
            sys.setrecursionlimit(rq['pre_limit'])
        if rq.get('chdir'):
            os.chdir(rq['chdir'])
        out_dir = Path(rq['out_dir'])
        out_dir.mkdir(parents=True, exist_ok=True)
        fjm, fjd = out_dir / 'out.fjm', out_dir / 'out.fjd'
        for x in (fjm, fjd):
            with contextlib.suppress(FileNotFoundError):
                x.unlink()
        files = [(s, Path(p)) for s, p in rq['files']]
        res = {'tag': rq.get('tag'), 'limit_before': sys.getrecursionlimit(),
               'files': [file_record(s, p) for s, p in rq['files']] if observe else []}
        trace.update({'calls': [], 'restored': None, 'snapshotted': None, 'alias': [], 'parse_done': False, 'base': []})
        buf = io.StringIO()
        try:
            with contextlib.redirect_stdout(buf):
                writer = Writer(fjm, rq['width'], FJMVersion(rq['version']), flags=rq.get('flags', 0))
                assembler.assemble(files, rq['width'], writer, warning_as_errors=rq['werror'],
                                   debugging_file_path=fjd if rq.get('dbg', True) else None,
                                   print_time=False, max_recursion_depth=rq['depth'])
            res['status'] = 'ok'
        except BaseException as e:   # noqa - the campaign wants to see everything, including SystemExit
            res['status'] = 'err'
            res['exc'] = type(e).__name__
            res['cause'] = type(e.__cause__).__name__ if e.__cause__ is not None else None
            res['msg'] = str(e)[:400]
        res['stdout_sha'] = hashlib.sha1(buf.getvalue().encode()).hexdigest()[:12]
        res['fjm'] = b64(fjm.read_bytes()) if fjm.exists() else None
        res['fjd'] = b64(fjd.read_bytes()) if fjd.exists() else None
        res['limit_after'] = sys.getrecursionlimit()
        if observe:
            res['calls'] = [{k: c.get(k) for k in ('short', 'ns_in', 'limit', 'sha', 'outcome', 'exn', 'ns_after', 'errs')}
                            for c in trace['calls']]
            res['base'] = [{k: c.get(k) for k in ('short', 'ns_in', 'limit', 'sha')} for c in trace['base']]
            res['restored'] = trace['restored']
            res['snapshotted'] = trace['snapshotted']
            res['alias'] = trace['alias']
            res['parse_done'] = trace['parse_done']
            res['after'] = {
                'keys': [keyj(k) for k in fj_parser._stl_prefix_cache],
                'ns': list(getattr(fj_parser, 'curr_namespace', [])),
                'err': bool(getattr(fj_parser, 'error_occurred', False)),
                'haserrs': bool(getattr(fj_parser, 'all_errors', '')),
                'file': getattr(fj_parser, 'curr_file_short_name', ''),
            }
            g_after = globals_digest()
            for k in set(g_before) | set(g_after):
                if g_before.get(k) != g_after.get(k):
                    changed_globals.add(k)
            g_before = g_after
        if check_hash:
            mutated = []
            for k, v in fj_parser._stl_prefix_cache.items():
                kj = keyj(k)
                hv = entry_hash(v)
                if kj in hashes and hashes[kj] != hv:
                    mutated.append(kj)
                hashes.setdefault(kj, hv)
            res['mutated'] = mutated
            res['n_hashed'] = len(hashes)
        results.append(res)
    Path(outp).write_text(json.dumps({'results': results, 'changed_globals': sorted(changed_globals),
                                      'pkg_root': pkg_root, 'stl_dir': str(fj_parser._STL_DIR)}))


if __name__ == '__main__':
    main()
