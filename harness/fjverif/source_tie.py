"""Shared wiring of a "source tie": facts regenerated from the current source (a fail-closed translator into the IR of
coq/Model/PyIR.v), a definitions file, a proof file and a property file that are rebuilt against them.

When the repository under test is the default one, the generated file lives in coq/Gen and the build is the shared, cached
`make` (every such run writes the same text).  For a scratch copy of the repository (seeded change) the generated file and
relocated copies of the files that import it are compiled in the scratch directory of the run (library names Priv_*), so
that the shared build is never touched and concurrent runs cannot see each other's facts."""
import re
import subprocess
from pathlib import Path

from . import framework as fw


def failing_item(out):
    """the file and, when possible, the theorem in which coqc stopped"""
    m = re.search(r'File "([^"]+)", line (\d+)', out)
    if not m:
        return 'coq build'
    f, line = m.group(1), int(m.group(2))
    path = Path(f) if f.startswith('/') else fw.COQ / f
    shown = path.name.replace('Priv_', '')
    name = None
    try:
        for i, l in enumerate(path.read_text().splitlines(), 1):
            if i > line:
                break
            mm = re.match(r'\s*(?:Theorem|Lemma|Example|Definition)\s+(\w+)', l)
            if mm:
                name = mm.group(1)
    except OSError:
        pass
    return f'{name} ({shown}:{line})' if name else f'{shown}:{line}'


def relocate(src):
    """the copy of a tie file that imports the regenerated modules from the scratch directory"""
    def line(m):
        return 'Require Import ' + ' '.join('Priv_' + x.split('.')[-1] for x in m.group(1).split()) + '.'
    out, n = re.subn(r'^From FJ Require Import ((?:(?:Gen|Tie)\.\w+\s*)+)\.[^\n]*regenerated[^\n]*$', line, src, flags=re.M)
    if n != 1:
        raise ValueError('tie file without its "regenerated" import line')
    return out


class SourceTie:
    def __init__(self, label, gen, facts, steps, tie, props, prereq):
        """label: 'Devices source tie'; gen: translator module (generate, GenError, stub); facts: 'Facts_Devices';
        steps/tie/props: paths under coq/; prereq: .vo targets of the static development the three files import"""
        self.label, self.gen, self.facts, self.steps, self.tie, self.props, self.prereq = label, gen, facts, steps, tie, props, prereq
        self.gen_path = fw.COQ / 'Gen' / (facts + '.v')

    def tie_lemmas(self):
        return len(re.findall(r'^(?:Theorem|Lemma)\s', (fw.COQ / self.tie).read_text(), re.M))

    def state(self, ctx):
        return getattr(ctx, 'srctie', {}).get(self.label)

    def steps_import(self, ctx):
        """the line that makes the step definitions available to a generated case file"""
        st = self.state(ctx)
        mod = Path(self.steps).stem
        return f'From FJ Require Import Tie.{mod}.\n' if st['shared'] else f'Require Import Priv_{mod}.\n'

    def prepare(self, ctx):
        """returns (property files, extra targets) to hand to fw.static_proofs"""
        if not hasattr(ctx, 'srctie'):
            ctx.srctie = {}
        st = ctx.srctie[self.label] = {'text': None, 'steps': False, 'shared': str(fw.REPO) == '/repo'}
        try:
            text = self.gen.generate(fw.REPO)
        except self.gen.GenError as e:
            if st['shared']:
                fw.write_if_changed(self.gen_path, self.gen.stub(str(e)))
            ctx.broken_tie(f'{self.label}: translator {self.gen.__name__.split(".")[-1]} failed closed', str(e))
            ctx.coverage['obligations'] += 1
            return [], []
        st['text'] = text
        if not st['shared']:
            self.prepare_private(ctx, st, text)
            return [], []
        fw.write_if_changed(self.gen_path, text)
        steps_vo = self.steps[:-2] + '.vo'
        ok, out = fw.coq_make([steps_vo], timeout=900)
        if not ok:
            ctx.broken_tie(f'{self.label}: {failing_item(out)} - the regenerated IR no longer fits the step definitions', out)
            ctx.coverage['obligations'] += 1
            return [], []
        st['steps'] = True
        ok, out = fw.coq_make([self.tie[:-2] + '.vo', self.props[:-2] + '.vo'], timeout=2400)
        ctx.coverage['obligations'] += self.tie_lemmas()
        if not ok:
            ctx.broken_tie(f'{self.label}: {failing_item(out)}', out)
            return [], [steps_vo]
        ctx.coverage['discharged'] += self.tie_lemmas()
        return [self.props], [self.tie[:-2] + '.vo']

    def prepare_private(self, ctx, st, text):
        d = ctx.scratch
        files = [d / f'Priv_{self.facts}.v']
        files[0].write_text(text)
        for src in (self.steps, self.tie, self.props):
            dst = d / ('Priv_' + Path(src).name)
            dst.write_text(relocate((fw.COQ / src).read_text()))
            files.append(dst)
        ok, out = fw.coq_make(self.prereq)
        lp = subprocess.run([str(fw.VERIF / 'lint.sh')] + [str(f) for f in files], stdout=subprocess.PIPE,
                            stderr=subprocess.STDOUT, text=True)
        ctx.coverage['obligations'] += self.tie_lemmas()
        proved = ok and lp.returncode == 0
        if not ok:
            ctx.broken_tie(f'{self.label}: the models the tie imports do not build', out)
        if lp.returncode != 0:
            ctx.broken_tie(f'{self.label}: lint', lp.stdout)
        for f in files if ok else []:
            rc, out = fw.coqc_file(f, timeout=2400)
            if rc != 0:
                what = ' - the regenerated IR no longer fits the step definitions' if f.name == 'Priv_' + Path(self.steps).name else ''
                ctx.broken_tie(f'{self.label}: {failing_item(out)}{what}', out)
                proved = False
                break
            if f.name == 'Priv_' + Path(self.steps).name:
                st['steps'] = True
            if f.name == 'Priv_' + Path(self.props).name:
                src = f.read_text()
                theorems = re.findall(r'^\s*(?:Theorem|Lemma|Corollary)\s+(\w+)', src, re.M)
                printed = re.findall(r'Print Assumptions\s+(\w+)', src)
                blocks = [b.strip() for b in re.split(r'(?=Closed under the global context|Axioms:|Section Variables:)', out) if b.strip()]
                ctx.coverage['obligations'] += len(theorems)
                ctx.coverage['discharged'] += len(theorems)
                for name, blk in zip(printed, blocks):
                    ctx.coverage['trusted_base'].append(f'Print Assumptions {name}: ' + re.sub(r'\s+', ' ', blk)[:600])
                ctx.coverage.setdefault('theorems', []).extend(theorems)
        if proved:
            ctx.coverage['discharged'] += self.tie_lemmas()

    def check_unchanged(self, ctx):
        """shared build: the facts the proofs and the evaluation used must still be the ones generated by THIS run"""
        st = self.state(ctx)
        if st and st['shared'] and st['text'] is not None:
            try:
                now = self.gen_path.read_text()
            except OSError:
                now = None
            if now != st['text']:
                ctx.broken_tie(f'{self.label}: coq/Gen/{self.facts}.v was rewritten by a concurrent run - run again', '')
