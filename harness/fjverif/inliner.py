"""Python mirror of coq/Spec/InlineSpec.v `inline` (C03): the capture-avoiding textual inliner, working on the
GENERATOR's program structure (macroGen.Program) with its OWN implementation of the language's name rules
(namespace resolution of dotted/relative names, aliasing of p / N.p inside namespace N) - it never looks at the
assembler under test.  Used to produce the hand-inlined, macro-free source text whose image must equal the image of
the macro program.

Structures
----------
expr (source form, macroGen):  int | ('n', spelled) | ('op', opstr, [expr...])        spelled may be '$'
expr (resolved form, = dump_tree JSON):  int | str | [opstr, [expr...]]
prim statement (resolved): {'t': 'FlipJump','flip','jump'} | {'t':'WordFlip','addr','value','ret'} | {'t':'Pad','align'}
                           | {'t':'Label','name'} | {'t':'Segment','start'} | {'t':'Reserve','size'}
path = tuple of steps (index_in_body, rep_index | None);  canonical fresh name (same string as Coq `fresh_canon`):
       '@' + '/'.join(str(k) + ('r%d' % j if rep) ...) + '@' + local
"""


class InlineStuck(Exception):
    """no inlining exists (the specification's None): unknown macro, nesting deeper than the fuel, a count that is
    not a constant, a non-name passed where a label is declared"""

    def __init__(self, reason):
        super().__init__(reason)
        self.reason = reason


# ---- names ---------------------------------------------------------------------------------------------------------

def ns_resolve(spelled, ns):
    """k leading dots strip k-1 levels of the current namespace `ns` (list, outermost first)"""
    if spelled == '$':
        return '$'
    rest = spelled.lstrip('.')
    dots = len(spelled) - len(rest)
    if dots == 0:
        return spelled
    if dots - 1 > len(ns):
        raise InlineStuck('more leading dots than namespace levels')
    return '.'.join(ns[:len(ns) - (dots - 1)] + [rest])


def resolve_expr(e, ns, consts=None):
    """source expression -> resolved expression (names replaced by the dotted names they stand for; a name that is a
    constant `X = value` defined earlier is replaced by its value)"""
    if isinstance(e, int):
        return e
    if e[0] == 'n':
        full = ns_resolve(e[1], ns)
        if consts and full in consts:
            return consts[full]
        return full
    return [e[1], [resolve_expr(a, ns, consts) for a in e[2]]]


def fresh_canon(path, local):
    return '@' + '/'.join(str(k) + ('' if j is None else f'r{j}') for k, j in path) + '@' + local


# ---- substitution and constant evaluation --------------------------------------------------------------------------

def subst(sg, e):
    """one pass, simultaneous: the replacement is NOT searched again"""
    if isinstance(e, int):
        return e
    if isinstance(e, str):
        return sg.get(e, e)
    return [e[0], [subst(sg, a) for a in e[1]]]


def _floordiv(a, b):
    return a // b


OPS = {
    '+': lambda a, b: a + b, '-': lambda a, b: a - b, '*': lambda a, b: a * b, '/': _floordiv,
    '%': lambda a, b: a % b, '<<': lambda a, b: a << b, '>>': lambda a, b: a >> b, '^': lambda a, b: a ^ b,
    '|': lambda a, b: a | b, '&': lambda a, b: a & b, '&&': lambda a, b: 1 if (a and b) else 0,
    '||': lambda a, b: 1 if (a or b) else 0, '#': lambda a: a.bit_length(), '~': lambda a: ~a,
    '?:': lambda a, b, c: b if a else c, '<': lambda a, b: int(a < b), '>': lambda a, b: int(a > b),
    '<=': lambda a, b: int(a <= b), '>=': lambda a, b: int(a >= b), '==': lambda a, b: int(a == b),
    '!=': lambda a, b: int(a != b),
}


def const_value(e):
    """value of a constant expression; None when a name is left or an operator is undefined on the operands"""
    if isinstance(e, int):
        return e
    if isinstance(e, str):
        return None
    vals = [const_value(a) for a in e[1]]
    if any(v is None for v in vals):
        return None
    op = e[0]
    try:
        if op == '**':
            return None if vals[1] < 0 else vals[0] ** vals[1]
        if op in ('<<', '>>') and vals[1] < 0:
            return None
        return OPS[op](*vals)
    except ZeroDivisionError:
        return None


# ---- the inliner ---------------------------------------------------------------------------------------------------

def bind_macro(m, args, path, fresh):
    base = {}
    for p, a in zip(m['params'], args):
        base[p] = a
    for l in m['locals']:
        base[l] = fresh(path, l)
    sg = dict(base)
    if m['ns']:
        nsname = '.'.join(m['ns'])
        for k, v in base.items():
            sg[f'{nsname}.{k}'] = v
    return sg


def inline_ops(prog, fuel, sg, path, ops, ns, fresh, out, budget, k0=0):
    """ops: list of source statements of one body, written inside namespace `ns`"""
    consts = getattr(prog, 'consts', None)

    def rx(e):
        return resolve_expr(e, ns, consts)

    for k, s in enumerate(ops, k0):
        t = s['t']
        if len(out) > budget[0]:
            raise InlineStuck('too large')
        if t == 'fj':
            f = 0 if s['f'] is None else rx(s['f'])
            j = '$' if s['j'] is None else rx(s['j'])
            out.append({'t': 'FlipJump', 'flip': subst(sg, f), 'jump': subst(sg, j)})
        elif t == 'wflip':
            r = '$' if s['r'] is None else rx(s['r'])
            out.append({'t': 'WordFlip', 'addr': subst(sg, rx(s['a'])),
                        'value': subst(sg, rx(s['v'])), 'ret': subst(sg, r)})
        elif t == 'pad':
            out.append({'t': 'Pad', 'align': subst(sg, rx(s['e']))})
        elif t == 'segment':
            out.append({'t': 'Segment', 'start': subst(sg, rx(s['e']))})
        elif t == 'reserve':
            out.append({'t': 'Reserve', 'size': subst(sg, rx(s['e']))})
        elif t == 'label':
            name = '.'.join(ns + [s['name']])          # a declared label lives in the current namespace
            if name in sg:
                v = sg[name]
                if not isinstance(v, str):
                    raise InlineStuck('a non-name is passed where a label is declared')
                name = v
            out.append({'t': 'Label', 'name': name})
        elif t == 'call':
            args = [subst(sg, rx(a)) for a in s['args']]
            inline_call(prog, fuel, (ns_resolve(s['name'], ns), len(args)), args, path + ((k, None),), fresh, out, budget)
        elif t == 'rep':
            n = const_value(subst(sg, rx(s['times'])))
            if n is None:
                raise InlineStuck('rep count is not a constant expression')
            args0 = [rx(a) for a in s['args']]
            for i in range(max(n, 0)):
                sgi = dict(sg)
                sgi[s['iter']] = i                      # the innermost binder wins
                args = [subst(sgi, a) for a in args0]
                inline_call(prog, fuel, (ns_resolve(s['name'], ns), len(args)), args, path + ((k, i),), fresh, out,
                            budget)
        else:
            raise ValueError(f'unknown statement {t}')


def inline_call(prog, fuel, mn, args, path, fresh, out, budget):
    if fuel <= 0:
        raise InlineStuck('nesting deeper than the fuel')
    m = prog.macros.get(mn)
    if m is None:
        raise InlineStuck(f'unknown macro {mn}')
    sg = bind_macro(m, args, path, fresh)
    inline_ops(prog, fuel - 1, sg, path, m['body'], m['ns'], fresh, out, budget)


def inline_program(prog, fuel, fresh=fresh_canon, budget=4000):
    """prog: macroGen.Program.  Returns the list of primitive statements (resolved form).
    The main macro is the list of all top-level statements in textual order, each written inside its own namespace;
    the body index of a statement counts them in that order."""
    out = []
    b = [budget]
    for k, (ns, s) in enumerate(prog.main):
        inline_ops(prog, fuel, {}, (), [s], ns, fresh, out, b, k0=k)
    return out


# ---- rendering the macro-free program as source text ---------------------------------------------------------------

def expr_text(e, names):
    if isinstance(e, int):
        return str(e) if e >= 0 else f'(0-{-e})'
    if isinstance(e, str):
        return names(e)
    op, args = e
    if len(args) == 1:
        return f'({op}{expr_text(args[0], names)})'
    if len(args) == 2:
        return f'({expr_text(args[0], names)} {op} {expr_text(args[1], names)})'
    return f'({expr_text(args[0], names)} ? {expr_text(args[1], names)} : {expr_text(args[2], names)})'


def render_flat(prims):
    """macro-free source text; every label name (dotted user name or generated name) is mapped, injectively, to a
    plain identifier"""
    table = {}

    def names(s):
        if s == '$':
            return '$'
        if s not in table:
            tail = ''.join(ch if ch.isalnum() else '_' for ch in s)[-24:]
            table[s] = f't{len(table)}_{tail}'
        return table[s]

    lines = []
    for s in prims:
        t = s['t']
        if t == 'FlipJump':
            lines.append(f'{expr_text(s["flip"], names)} ; {expr_text(s["jump"], names)}')
        elif t == 'WordFlip':
            lines.append(f'wflip {expr_text(s["addr"], names)}, {expr_text(s["value"], names)}, '
                         f'{expr_text(s["ret"], names)}')
        elif t == 'Pad':
            lines.append(f'pad {expr_text(s["align"], names)}')
        elif t == 'Segment':
            lines.append(f'segment {expr_text(s["start"], names)}')
        elif t == 'Reserve':
            lines.append(f'reserve {expr_text(s["size"], names)}')
        elif t == 'Label':
            lines.append(f'{names(s["name"])}:')
    return '\n'.join(lines) + '\n', table
