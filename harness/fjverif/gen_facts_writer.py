"""T-gen for the writer part of Model/Fjm.v: translate the CURRENT source of fjm_writer.Writer's data / segment methods
(add_data, add_segment with every helper it calls, add_simple_segment_with_data) into the Python-subset IR of
coq/Model/PyIR.v and write coq/Gen/Facts_Writer.v; coq/Tie/Writer_tie.v proves that PyIR.exec on these terms computes
Fjm.add_data / Fjm.add_segment for every Writer state and every (also negative / oversized) argument.

Same fail-closed translator as gen_facts_loader (class LoaderFn), extended by:
  W1  `self.<name>` of a Writer method is an attribute of the object (rule D1).  The attributes that hold lists (segments,
      data) are owned by the object: apart from `self.<f>.append(e)`, `self.<f> += e`, `self.<f>[k] = v` they may only be
      read through `len(..)`, `enumerate(..)`, a `for`, or `self.<f>[k]` - never passed on as a value (so that copying
      instead of sharing cannot be observed).
  W2  `self.version` holds an FJMVersion member; members are their integer values (rule L5) and `self.version.value` is the
      attribute itself.
  W3  `self.<method>(..)` calls the translated method of that name (a staticmethod has no self).
  W4  an f-string is EFormat of its formatted expressions (`hex(e)` is EHex e); its text is never observed.
  W5  `raise FlipJumpWriteFjmException(<message>)` is SRaiseExn (XLib 0) (the model has one class of library error).
  W6  `any(<generator>)` is EAny of the comprehension (the generator's elements are call-free comparisons).
  W7  `continue`, a bare `return`, tuples / displays of any length (ECons chains), `enumerate`.
  W8  write_to_file: `with open(self.<path>, 'wb') as f:` is P_file_open followed by the body, where `f` may only occur as
      `f.write(e)` = P_file_write e (the output stream of the interpreter is the file; closing it changes nothing).
  W9  `pack(<format>, a, b, ..)` / `pack(<format>, *xs)` with <format> a '<'-format constant of fjm_consts made of the codes
      B H L Q is EPack [sizes] args (standard sizes 1 2 4 8).  `x = {k: '<code>', ..}[e]` is `x = EDictGet [(k, size)..] e`: the
      variable then holds the SIZE of the code, and may only be used in `pack(f'<{n}{x}', *xs)` = EPackN n x xs.
  W10 `self._compress_data(b)` is the primitive P_compress_data (lzma is an oracle; the wrapper stays hand-tied)."""
import ast
from pathlib import Path

from .gen_facts_engpy import GenError, stub, BINOPS  # noqa: F401
from .gen_facts_loader import LoaderFn

PATH = 'flipjump/fjm/fjm_writer.py'
METHODS = ['add_data', 'add_segment', 'add_simple_segment_with_data', '_is_collision',
           '_validate_segment_addresses_not_overlapping', '_validate_segment_data_not_overlapping',
           '_validate_segment_not_overlapping', '_update_to_relative_jumps', 'get_segment_addresses_repr', 'write_to_file']
CODES = {'B': 1, 'H': 2, 'L': 4, 'Q': 8}
LIST_FIELDS = ('segments', 'data')


def coq_name(m):
    return 'w_' + m.lstrip('_')


def const_int(node):
    """the value of a module-level integer constant written with literals, + << and ord('<char>')"""
    if isinstance(node, ast.Constant) and isinstance(node.value, int) and node.value is not True and node.value is not False:
        return node.value
    if isinstance(node, ast.Call) and isinstance(node.func, ast.Name) and node.func.id == 'ord' and len(node.args) == 1 and \
            not node.keywords and isinstance(node.args[0], ast.Constant) and isinstance(node.args[0].value, str) and len(node.args[0].value) == 1:
        return ord(node.args[0].value)
    if isinstance(node, ast.BinOp) and isinstance(node.op, (ast.Add, ast.LShift)):
        a, b = const_int(node.left), const_int(node.right)
        if a is None or b is None or a < 0 or b < 0:
            return None
        return a + b if isinstance(node.op, ast.Add) else a << b
    return None


class WriterFn(LoaderFn):
    cls_name, path = 'Writer', PATH

    def __init__(self, *a):
        super().__init__(*a)
        self.fmt_vars, self.file_vars, self.fmt_uses, self.file_uses = set(), set(), 0, 0

    def pack(self, e):
        """W9"""
        if e.keywords or not e.args or 'pack' not in self.tr.imported['Writer'].get('struct', ()):
            self.err(e, 'pack call outside the subset')
        fmt, args = e.args[0], e.args[1:]
        if len(args) == 1 and isinstance(args[0], ast.Starred):
            a = self.expr(args[0].value)
        elif any(isinstance(x, ast.Starred) for x in args):
            self.err(e, 'mixed starred arguments')
        else:
            a = self.cons([self.expr(x) for x in args])
        if isinstance(fmt, ast.Name) and fmt.id in self.tr.formats and fmt.id not in self.vars:
            return f'EPack [{"; ".join(str(CODES[ch]) + "%nat" for ch in self.tr.formats[fmt.id][1:])}] ({a})'
        if isinstance(fmt, ast.JoinedStr) and len(fmt.values) == 3 and isinstance(fmt.values[0], ast.Constant) and \
                fmt.values[0].value == '<' and all(isinstance(v, ast.FormattedValue) and v.format_spec is None and v.conversion == -1
                                                   for v in fmt.values[1:]) and \
                isinstance(fmt.values[2].value, ast.Name) and fmt.values[2].value.id in self.fmt_vars:
            self.fmt_uses += 1
            return f'EPackN ({self.expr(fmt.values[1].value)}) (EVar {self.var(fmt.values[2].value.id)}) ({a})'
        self.err(e, 'pack format outside rule W9')

    def cons(self, items):
        out = 'ENil'
        for x in reversed(items):
            out = f'ECons ({x}) ({out})'
        return out

    def expr(self, e):
        if isinstance(e, ast.JoinedStr):      # W4
            parts = []
            for part in e.values:
                if isinstance(part, ast.Constant) and isinstance(part.value, str):
                    continue
                if not isinstance(part, ast.FormattedValue) or part.format_spec is not None or part.conversion != -1:
                    self.err(e, 'f-string part outside the subset')
                parts.append(self.expr(part.value))
            return f'EFormat ({self.cons(parts)})'
        if isinstance(e, (ast.Tuple, ast.List)) and isinstance(e.ctx, ast.Load) and len(e.elts) != 2:
            if any(isinstance(x, ast.Starred) for x in e.elts):
                self.err(e, 'starred element')
            return self.cons([self.expr(x) for x in e.elts])
        if isinstance(e, ast.Name) and e.id in self.tr.int_consts and e.id not in self.vars and isinstance(e.ctx, ast.Load):
            return f'EInt {self.tr.int_consts[e.id]}'      # an integer constant imported from fjm_consts (L5)
        if isinstance(e, ast.Attribute) and e.attr == 'value' and self.is_field(e.value) and e.value.attr == 'version':   # W2
            return self.expr(e.value)
        return super().expr(e)

    def call(self, e):
        f = e.func
        if isinstance(f, ast.Name) and f.id == 'pack' and 'pack' not in self.vars:
            return self.pack(e)
        if isinstance(f, ast.Attribute) and f.attr == 'write' and isinstance(f.value, ast.Name) and f.value.id in self.file_vars \
                and len(e.args) == 1 and not e.keywords:
            self.file_uses += 1
            return f'ECall1 P_file_write ({self.expr(e.args[0])})'
        if isinstance(f, ast.Attribute) and f.attr == '_compress_data' and self.ref(f.value) == ('obj', 'device') and \
                len(e.args) == 1 and not e.keywords and self.tr.has_compress:      # W10
            return f'ECall1 P_compress_data ({self.expr(e.args[0])})'
        if isinstance(f, ast.Name) and f.id not in self.vars and not e.keywords and len(e.args) == 1:
            if f.id == 'hex':
                return f'EHex ({self.expr(e.args[0])})'
            if f.id == 'any' and isinstance(e.args[0], ast.GeneratorExp):      # W6
                g = e.args[0]
                if any(isinstance(n, ast.Call) for n in ast.walk(g.elt)):
                    self.err(e, 'any() over elements that make calls')
                return f'EAny ({self.comprehension(g)})'
            if f.id == 'enumerate':
                return f'EEnumerate ({self.expr(e.args[0])})'
        if isinstance(f, ast.Attribute) and self.ref(f.value) == ('obj', 'device') and f.attr in self.tr.defs and not e.keywords:   # W3
            node = self.tr.defs[f.attr]
            arity = len(node.args.args) - (0 if self.tr.static[f.attr] else 1)
            if len(e.args) != arity or arity > 4 or any(isinstance(a, ast.Starred) for a in e.args):
                self.err(e, 'wrong number of arguments')
            return f'ECall{arity} F_{coq_name(f.attr)}' + ''.join(f' ({self.expr(a)})' for a in e.args)
        return super().call(e)

    def stmt(self, s, ind):
        if isinstance(s, ast.Continue):
            return 'SContinue'
        if isinstance(s, ast.Assign) and len(s.targets) == 1 and isinstance(s.targets[0], ast.Name) and \
                isinstance(s.value, ast.Subscript) and isinstance(s.value.value, ast.Dict):      # W9: the word-format table
            d = s.value.value
            ok = d.keys and all(isinstance(k, ast.Constant) and isinstance(k.value, int) and k.value >= 0 and k.value is not True
                                and isinstance(v, ast.Constant) and v.value in CODES for k, v in zip(d.keys, d.values))
            if not ok or self.store_count.get(s.targets[0].id) != 1:
                self.err(s, 'dict display outside rule W9')
            self.fmt_vars.add(s.targets[0].id)
            tab = '; '.join(f'({k.value}, {CODES[v.value]})' for k, v in zip(d.keys, d.values))
            return f'SAssign {self.var(s.targets[0].id)} (EDictGet [{tab}] ({self.expr(s.value.slice)}))'
        if isinstance(s, ast.With):      # W8
            it = s.items
            c = it[0].context_expr if len(it) == 1 else None
            if not (c is not None and isinstance(c, ast.Call) and isinstance(c.func, ast.Name) and c.func.id == 'open' and
                    'open' not in self.vars and len(c.args) == 2 and not c.keywords and self.is_field(c.args[0]) and
                    isinstance(c.args[1], ast.Constant) and c.args[1].value == 'wb' and
                    isinstance(it[0].optional_vars, ast.Name) and self.store_count.get(it[0].optional_vars.id) == 1):
                self.err(s, 'with statement outside rule W8')
            self.file_vars.add(it[0].optional_vars.id)
            body = self.block(s.body, ind)
            return f'SSeq (SExpr (ECall0 P_file_open))\n{" " * ind}({body})'
        if isinstance(s, ast.Return) and s.value is None:
            return 'SReturn (ENone)'
        if isinstance(s, ast.Assign) and len(s.targets) == 1 and isinstance(s.targets[0], ast.Subscript) and \
                self.is_field(s.targets[0].value) and not isinstance(s.targets[0].slice, ast.Slice):
            t = s.targets[0]
            return f'SFieldItemSet {self.field(t.value.attr)} ({self.expr(t.slice)}) ({self.expr(s.value)})'
        if isinstance(s, ast.Raise):
            x = s.exc
            if s.cause is None and isinstance(x, ast.Call) and isinstance(x.func, ast.Name) and \
                    x.func.id == 'FlipJumpWriteFjmException' and len(x.args) == 1 and not x.keywords and \
                    x.func.id in self.tr.imported['Writer'].get('flipjump.utils.exceptions', ()):
                return f'SRaiseExn (XLib 0) ({self.expr(x.args[0])})'
            self.err(s, 'raise outside the subset')
        if isinstance(s, ast.For):
            # LoaderFn forbids continue; here it is a statement of the subset (break stays outside)
            if s.orelse:
                self.err(s, 'for/else')
            for n in ast.walk(s):
                if isinstance(n, ast.Break):
                    self.err(n, 'break')
            it = self.expr(s.iter)
            pat = self.target(s.target)
            sub = ind + 2
            return f'SFor ({pat}) ({it})\n{" " * sub}({self.block(s.body, sub)})'
        return super().stmt(s, ind)

    def check_list_fields(self):
        """W1: how the list attributes may occur"""
        parents = {}
        for p in ast.walk(self.node):
            for c in ast.iter_child_nodes(p):
                parents[c] = p
        for n in ast.walk(self.node):
            if not (isinstance(n, ast.Attribute) and self.is_field(n) and n.attr in LIST_FIELDS):
                continue
            p = parents.get(n)
            ok = False
            if isinstance(p, ast.Attribute) and p.attr == 'append' and isinstance(parents.get(p), ast.Call) and parents[p].func is p:
                ok = True
            elif isinstance(p, ast.Subscript) and p.value is n and not isinstance(p.slice, ast.Slice):
                ok = True
            elif isinstance(p, ast.AugAssign) and p.target is n and isinstance(p.op, ast.Add):
                ok = True
            elif isinstance(p, ast.Call) and isinstance(p.func, ast.Name) and p.func.id in ('len', 'enumerate') and p.args == [n]:
                ok = True
            elif isinstance(p, ast.For) and p.iter is n:
                ok = True
            elif isinstance(p, ast.Starred) and isinstance(parents.get(p), ast.Call) and \
                    isinstance(parents[p].func, ast.Name) and parents[p].func.id == 'pack':
                ok = True
            if not ok:
                self.err(n, f'list attribute {n.attr} used as a value (rule W1)')
        # W8 / W9: the file handle and the format-size variable occur only in their rules
        for names, uses, what in ((self.file_vars, self.file_uses, 'file handle'), (self.fmt_vars, self.fmt_uses, 'format variable')):
            loads = sum(1 for n in ast.walk(self.node) if isinstance(n, ast.Name) and n.id in names and isinstance(n.ctx, ast.Load))
            if loads != uses:
                self.err(self.node, f'{what} used outside its rule')


class Translator:
    def __init__(self, repo):
        self.repo = Path(repo)
        self.fields = {'Writer': {}}
        self.short = {'Writer': 'writer'}
        tree = ast.parse((self.repo / PATH).read_text(), filename=PATH)
        imp = {}
        for n in tree.body:
            if isinstance(n, ast.ImportFrom) and n.level == 0:
                imp.setdefault(n.module, set()).update(a.name for a in n.names if a.asname is None)
        self.imported = {'Writer': imp}
        consts = ast.parse((self.repo / 'flipjump/fjm/fjm_consts.py').read_text())
        ver = [n for n in consts.body if isinstance(n, ast.ClassDef) and n.name == 'FJMVersion']
        if len(ver) != 1:
            raise GenError('fjm_consts.py: class FJMVersion not found')
        self.versions = {t.targets[0].id: t.value.value for t in ver[0].body if isinstance(t, ast.Assign) and
                         len(t.targets) == 1 and isinstance(t.targets[0], ast.Name) and isinstance(t.value, ast.Constant) and
                         isinstance(t.value.value, int)}
        self.threshold, self.memseg_fields = None, None
        self.formats = {}
        self.int_consts = {}
        for n in consts.body:
            if isinstance(n, ast.Assign) and len(n.targets) == 1 and isinstance(n.targets[0], ast.Name) and \
                    n.targets[0].id in imp.get('flipjump.fjm.fjm_consts', ()) and const_int(n.value) is not None:
                self.int_consts[n.targets[0].id] = const_int(n.value)
        for n in consts.body:
            if isinstance(n, ast.Assign) and len(n.targets) == 1 and isinstance(n.targets[0], ast.Name) and \
                    isinstance(n.value, ast.Constant) and isinstance(n.value.value, str) and n.value.value.startswith('<') and \
                    len(n.value.value) > 1 and all(ch in CODES for ch in n.value.value[1:]) and \
                    n.targets[0].id in imp.get('flipjump.fjm.fjm_consts', ()):
                self.formats[n.targets[0].id] = n.value.value
        wr = [n for n in tree.body if isinstance(n, ast.ClassDef) and n.name == 'Writer']
        if len(wr) != 1 or wr[0].decorator_list or wr[0].bases:
            raise GenError(f'{PATH}: expected exactly one undecorated class Writer without base classes')
        if any(isinstance(n, ast.FunctionDef) and n.name in ('__getattr__', '__getattribute__', '__setattr__') for n in wr[0].body):
            raise GenError(f'{PATH}: class Writer customises attribute access')
        self.defs, self.static = {}, {}
        for name in METHODS:
            hits = [n for n in wr[0].body if isinstance(n, ast.FunctionDef) and n.name == name]
            if len(hits) != 1:
                raise GenError(f'{PATH}: expected exactly one Writer.{name}')
            decos = [ast.unparse(d) for d in hits[0].decorator_list]
            if decos not in ([], ['staticmethod']):
                raise GenError(f'{PATH}:{hits[0].lineno}: Writer.{name} has decorators {decos}')
            self.defs[name] = hits[0]
            self.static[name] = decos == ['staticmethod']
        self.arity = {}
        self.has_compress = any(isinstance(n, ast.FunctionDef) and n.name == '_compress_data' and not n.decorator_list for n in wr[0].body)

    def signature(self, coq):
        raise GenError(f'unexpected call of {coq}')

    def generate(self):
        out, table = [], []
        for name in METHODS:
            node = self.defs[name]
            short = coq_name(name)
            fn = WriterFn(self, node, short, self.static[name])
            body = fn.block(node.body, 2)
            fn.check_list_fields()
            dropped = [d for d in fn.dropped if d[2] != 'docstring']
            if dropped:
                raise GenError(f'statements without IR in Writer.{name}: {dropped}')
            chunk = [f'Notation v_{short}_{n} := ({i}%positive) (only parsing).' for n, i in fn.vars.items()]
            chunk.append(f'(* {PATH}:{node.lineno}  def Writer.{name}{"  (staticmethod)" if self.static[name] else ""} *)')
            chunk.append(f'Definition src_{short} : stmt :=\n  {body}.')
            params = '; '.join(f'v_{short}_{n}' for n, role in fn.params if role is None)
            table.append(f'  | F_{short} => Some ([{params}], src_{short})')
            out.append('\n'.join(chunk))
        head = ['(* generated from the current source by harness/fjverif/gen_facts_writer.py - do not edit.',
                '   IR of coq/Model/PyIR.v; f_writer_<attribute> are attributes of the Writer object, v_<method>_<name> the locals. *)',
                'From FJ Require Import Lib.Base Model.PyIR.', 'Local Open Scope N_scope.', '']
        for n, i in self.fields['Writer'].items():
            head.append(f'Notation f_writer_{n} := ({i}%positive) (only parsing).')
        text = '\n'.join(head) + '\n\n' + '\n\n'.join(out) + '\n\n'
        text += 'Definition writer_program : program := fun f =>\n  match f with\n' + '\n'.join(table) + '\n  | _ => None\n  end.\n'
        return text


def generate(repo):
    try:
        return Translator(repo).generate()
    except (OSError, SyntaxError, KeyError) as e:
        raise GenError(f'source unreadable: {e!r}')


def write(repo=None):
    from . import framework as fw
    fw.write_if_changed(fw.COQ / 'Gen' / 'Facts_Writer.v', generate(repo or fw.REPO))
    return True


if __name__ == '__main__':
    import sys
    print(generate(sys.argv[1] if len(sys.argv) > 1 else '/repo'))
