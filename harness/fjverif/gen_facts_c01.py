"""T-gen for the engine models: constants of _fjcore.c, fjm_run.py, classes.py and fjm_consts.py that the Coq models
hard-code.  Fail closed: a constant that cannot be read in the expected shape is an error (GenError)."""
import ast
import re
from pathlib import Path


class GenError(Exception):
    pass


def c_defines(text):
    out = {}
    for m in re.finditer(r'^#define\s+([A-Z_0-9]+)\s+(.+?)\s*(?:/\*.*)?$', text, re.M):
        out[m.group(1)] = m.group(2).strip()
    return out


def c_int(expr, env):
    """evaluate the small constant expressions used by the #defines: integers with ull suffix, 1ull << K, NAME - 1, parentheses"""
    e = expr
    e = re.sub(r'\b(0x[0-9A-Fa-f]+|\d+)(?:ull|ULL|u|U|l|L)*\b', r'\1', e)
    for name, val in env.items():
        e = re.sub(rf'\b{name}\b', str(val), e)
    if not re.fullmatch(r'[0-9a-fA-Fx\s()<>+\-*]+', e):
        raise GenError(f'unrecognised constant expression: {expr!r}')
    return int(eval(e, {'__builtins__': {}}, {}))   # digits, hex, parentheses, << + - * only (checked above)


def generate(repo):
    repo = Path(repo)
    c = (repo / 'flipjump/interpreter/_fjcore.c').read_text()
    d = c_defines(c)
    need = ['PAGE_BITS', 'PAGE_WORDS', 'PAGE_MASK', 'SIGNAL_CHECK_MASK', 'FLAT_MAX_WORDS_DEFAULT', 'GARBAGE_SENTINEL',
            'FLAT_GARBAGE_MAGIC', 'TERM_LOOPING', 'TERM_EOF', 'TERM_NULL_IP', 'TERM_MEMORY_ERROR']
    env = {}
    for k in need:
        if k not in d:
            raise GenError(f'#define {k} not found in _fjcore.c')
        env[k] = c_int(d[k], env)
    # in_addr = 3 * width + ww + 1 must appear in each of the three C loops
    n_in = len(re.findall(r'const uint64_t in_addr = 3 \* width \+ ww \+ 1;', c))
    if n_in != 3:
        raise GenError(f'expected the in_addr definition in 3 C loops, found {n_in}')
    # TerminationCause members in order
    tree = ast.parse((repo / 'flipjump/utils/classes.py').read_text())
    causes = None
    for node in tree.body:
        if isinstance(node, ast.ClassDef) and node.name == 'TerminationCause':
            causes = [(t.targets[0].id, t.value.value) for t in node.body
                      if isinstance(t, ast.Assign) and isinstance(t.value, ast.Constant) and isinstance(t.value.value, int)]
    if not causes:
        raise GenError('TerminationCause enum not found')
    # python-side in_addr expressions
    run_src = (repo / 'flipjump/interpreter/fjm_run.py').read_text()
    n_py = len(re.findall(r'in_addr = 3 \* w \+ w\.bit_length\(\)', run_src))
    if n_py != 2:
        raise GenError(f'expected in_addr = 3 * w + w.bit_length() twice in fjm_run.py, found {n_py}')
    consts = (repo / 'flipjump/fjm/fjm_consts.py').read_text()
    m = re.search(r'^_reserved_dict_threshold = (\d+)$', consts, re.M)
    if not m:
        raise GenError('_reserved_dict_threshold not found')
    thr = int(m.group(1))
    fm = {k: re.search(rf"^{k} = '([^']+)'$", consts, re.M) for k in ('_header_base_format', '_header_extension_format', '_segment_format')}
    if not all(fm.values()):
        raise GenError('struct formats not found in fjm_consts.py')
    widths = re.search(r'SUPPORTED_MEMORY_WIDTHS: frozenset\[int\] = frozenset\(\{([0-9, ]+)\}\)', consts)
    if not widths:
        raise GenError('SUPPORTED_MEMORY_WIDTHS not found')
    ws = sorted(int(x) for x in widths.group(1).split(','))
    lines = ['(* generated from the current /repo by harness/fjverif/gen_facts_c01.py - do not edit *)',
             'From Coq Require Import NArith List String.', 'Import ListNotations.', 'Local Open Scope N_scope.']
    for k in need:
        lines.append(f'Definition gen_{k} : N := {env[k]}.')
    lines.append(f'Definition gen_in_addr_c_loops : N := {n_in}.')
    lines.append('Definition gen_termination_causes : list (string * N) := [' +
                 '; '.join(f'("{n}"%string, {v})' for n, v in causes) + '].')
    lines.append(f'Definition gen_reserved_dict_threshold : N := {thr}.')
    for k, mm in fm.items():
        lines.append(f'Definition gen{k} : string := "{mm.group(1)}"%string.')
    lines.append('Definition gen_supported_widths : list N := [' + '; '.join(map(str, ws)) + '].')
    return '\n'.join(lines) + '\n'


def stub(msg):
    return '(* translator failed closed: ' + msg.replace('*)', '* )') + ' *)\nDefinition gen_facts_unavailable := tt.\n'


def write(repo=None):
    from . import framework as fw
    text = generate(repo or fw.REPO)
    fw.write_if_changed(fw.COQ / 'Gen' / 'Facts_C01.v', text)
    return True


if __name__ == '__main__':
    write()
