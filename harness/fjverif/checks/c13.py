"""C13: assembly output is a pure function of its inputs.

1. T-gen: Gen/Facts_C13.v is rewritten from the source (cache key, snapshot/restore copies, per-call/per-file
   resets, every module-global written, the recursion-limit sites); Tie/C13_tie.v must compile against it.
2. Theorems: Properties/C13.v (history independence of the cache / global-state layer, guard limit_restored,
   refutation witness F13, the fixed shape, the variants).
3. Campaign: random histories of assemble calls in ONE process followed by a probe, compared byte-for-byte (.fjm and
   .fjd) with the probe in a FRESH process, and with a fresh process in another directory under another
   PYTHONHASHSEED; deep structural hash of everything the cache holds before/after each call; identity of the
   containers a restore hands out; digest of every module-level variable of the package.
4. T-corr: every history is replayed on the model inside Coq (Replay.check_history, vm_compute): which files reach
   parser.parse with which namespace and recursion limit, which key is snapshotted/restored, and the value of
   every modelled global after every call must be what the model computes.
"""
import base64
import hashlib
import json
import os
import shutil
from concurrent.futures import ThreadPoolExecutor
from pathlib import Path

from .. import framework as fw
from .. import gen_facts_c13

MODELLED_GLOBALS = {
    'flipjump.assembler.fj_parser._stl_prefix_cache', 'flipjump.assembler.fj_parser.all_errors',
    'flipjump.assembler.fj_parser.curr_file', 'flipjump.assembler.fj_parser.curr_file_short_name',
    'flipjump.assembler.fj_parser.curr_namespace', 'flipjump.assembler.fj_parser.curr_text',
    'flipjump.assembler.fj_parser.error_occurred', 'sys.recursionlimit',
}
HEADER = ('From FJ Require Import Lib.Base Model.AsmCache.\nFrom Coq Require Import String.\nImport Replay.\n'
          'Local Open Scope Z_scope.\nLocal Open Scope string_scope.\n')
DEFAULT_DEPTH = 900

# ---- programs -------------------------------------------------------------------------------------------------

HAND = {
    'ns_prog': ("ns a {\n  def m x @ l {\n    ;l\n  l:\n    x;\n  }\n  ns b {\n    def k {\n      ..m 128\n      ...top 2\n"
                "    }\n  }\n}\ndef top n {\n  rep(n, i) a.m i*64\n}\na.m 64\ntop 3\na.b.k\nloop:\n  ;loop\n", False),
    'wflip_prog': ("def put v @ back {\n  wflip back+w, v, back\n  pad 4\nback:\n  ;$\n}\n;start\nsegment 16*w\nstart:\n"
                   "put 0x5a\nput 0x5a\nput 3\nreserve 4*w\nend:\n;end\n", False),
    'tiny': (";0\n;0\n", False),
    'stl_loop': ("stl.startup\nstl.loop\n", True),
    'E_ns_syntax': ("ns foo {\n def x {\n ;;;\n }\n", False),
    'E_ns_syntax_stl': ("stl.startup\nns hex {\n ns deeper {\n def x {\n ;;;\n }\n", True),
    'E_lex': (";0\n`\n;0\n", False),
    'W_unused': ("def m a, b {\n ;a\n}\nm 0, 0\n", False),
    'W_unused_stl': ("stl.startup\ndef m a, b {\n ;a\n}\nm 0, 0\nstl.loop\n", True),
    'E_nomacro': ("nomacro 1\n", False),
    'E_nomacro_stl': ("stl.startup\nhex.nomacro 1\n", True),
    'E_twice': (";0\nx:\nx:\n;0\n", False),
    'E_rec': ("def r {\n r\n}\nr\n", False),
    'E_div0': (";1/0\n", False),
    'V_neg': (";0-1\n", False),
    'E_nofirst': ("segment 128\n;0\n", False),
    'E_const_label': ("w:\n;0\n", False),
    'deep150': ('def m a {\n;' + '+'.join(['a'] * 150) + '\n}\nm 1\n', False),
    'deepdef600': ('def m a {\n;' + '+'.join(['a'] * 600) + '\n}\n;0\n', False),
    'use_userlib': ("stl.startup\nuserlib.two\nuserlib.two\nstl.loop\n", True),
    # constants (for the consts container of the cache)
    'def_consts': ("stl.startup\nCAP = 34\nhw = w/2\nundefined_elsewhere = 7\nstl.loop\n", True),
    'def_consts_fail': ("stl.startup\nCAP = 34\nhw = w/2\nundefined_elsewhere = 7\nnomacro_at_all 1\n", True),
    'use_cap_label': ("def declare_cap > CAP {\n  CAP:\n}\nstl.startup\nwflip CAP, 1\nstl.loop\ndeclare_cap\n  ;0\n", True),
    'redef_cap': ("stl.startup\nCAP = 5\nhw = 9\n;CAP*w\nstl.loop\n", True),
    'undef_name': ("stl.startup\n;undefined_elsewhere*w\nstl.loop\n", True),
    'deep250': ('def m a {\n;' + '+'.join(['a'] * 250) + '\n}\nm 1\n', False),
    'E_nospace': (";1<<70\n", False),
    'E_notutf8': ('b64:' + base64.b64encode(b';0\n\xff\xfe;0\n').decode(), False),
}
CORPUS = [('print_tests/hello_world.fj', True), ('print_tests/hello_no-stl.fj', False), ('sanity_checks/simple.fj', True),
          ('sanity_checks/rep.fj', True), ('sanity_checks/mathvec.fj', True), ('sanity_checks/math_operators.fj', True),
          ('sanity_checks/testbit_with_nops.fj', True), ('sanity_checks/macro_hex_comp.fj', True),
          ('print_tests/ncat.fj', True), ('print_tests/print_as_digit.fj', True), ('print_tests/hexprint.fj', True),
          ('concept_checks/casting.fj', True)]
USERLIB = {
    1: "ns userlib {\n  def two {\n    ;\n    ;\n  }\n}\n",
    2: "ns userlib {\n  def two {\n    ;\n    ;\n    ;\n  }\n  def three {\n    .two\n  }\n}\n",
    3: "ns userlib {\n  def two {\n    wflip $+2*w, 5\n  }\n}\n",
}
CONSTS = ['def_consts', 'def_consts_fail', 'use_cap_label', 'redef_cap', 'undef_name']
FAILING_BASE = ['E_nospace', 'E_ns_syntax', 'E_ns_syntax_stl', 'E_lex', 'W_unused', 'W_unused_stl', 'E_nomacro', 'E_nomacro_stl', 'E_twice',
           'E_rec', 'E_div0', 'V_neg', 'E_nofirst', 'E_const_label', 'E_notutf8']
DEEP = ['deep150', 'deep250', 'deepdef600']
FAILING = FAILING_BASE + ['def_consts_fail'] + [k + '+stl' for k in FAILING_BASE if not HAND[k][1] and not HAND[k][0].startswith('b64:')]
DEEP_ALL = DEEP + [k + '+stl' for k in DEEP]
DEPTHS = [900, 900, 900, 900, 900, 60, 300, 2000, 5000]


# the SAME stl macros at DIFFERENT absolute addresses: snippets whose expansion contains label-relative ops without
# parameters (shared op objects), placed in programs whose layout (where the tables / variables / code are) varies
SNIPS = {
    'mul_clear': 'hex.mul.clear_carry',
    'mul10': 'hex.mul10 2, a',
    'mul': 'hex.mul 2, c, a, b',
    'add': 'hex.add 2, a, b',
    'sub': 'hex.sub 2, a, b',
    'cmp': 'hex.cmp 2, a, b, l1, l1, l1\n  l1:',
    'print_uint': 'hex.print_uint 2, a, 1, 1',
    'print_dec': 'hex.print_dec_uint 2, a',
    'input_hex': 'hex.input_hex a',
    'or': 'hex.or 2, a, b',
    'and': 'hex.and 2, a, b',
    'inc': 'hex.inc 2, a',
    'shl': 'hex.shl_hex 2, a',
    'bit_add': 'bit.add 4, x, y',
    'bit_inc': 'bit.inc 4, x',
    'bit_print': 'bit.print_dec_uint 4, x',
    'bit_cmp': 'bit.cmp 4, x, y, l2, l2, l2\n  l2:',
    'ptr_read': 'hex.read_hex 2, a, p',
    'push': 'hex.push 2, a\nhex.pop 2, b',
}
SNIP_ORDER = ['mul_clear', 'mul10', 'mul', 'add', 'sub', 'cmp', 'print_uint', 'print_dec', 'input_hex', 'or', 'inc', 'shl',
              'bit_add', 'bit_inc', 'bit_print', 'bit_cmp', 'and', 'ptr_read', 'push']
LAYOUT_VARS = 'a: hex.vec 2, 5\nb: hex.vec 2, 3\nc: hex.vec 2, 0\nx: bit.vec 4, 3\ny: bit.vec 4, 1\np: hex.vec 16, 0\n'
LAYOUTS = ['init_all', 'init_end', 'vars_first', 'seg', 'reserve']


def layout_program(progs, snips, layout, nvars=0, padn=0):
    """registers the program in progs and returns its name"""
    name = 'L_' + '+'.join(snips) + f'_{layout}_{nvars}_{padn}'
    if name in progs:
        return name
    body = '\n'.join(SNIPS[k] for k in snips)
    extra = ''.join(f'v{i}: hex.vec 3, {i}\n' for i in range(nvars))
    pad = f'pad {padn}\n' if padn else ''
    if layout == 'init_all':
        src = f'stl.startup_and_init_all\n{body}\nstl.loop\n{extra}{LAYOUT_VARS}'
    elif layout == 'init_end':
        src = f'stl.startup\n{body}\nstl.loop\n{extra}{LAYOUT_VARS}{pad}hex.init\n'
    elif layout == 'vars_first':
        src = f'stl.startup_and_init_all\n;code\n{extra}{LAYOUT_VARS}{pad}code:\n{body}\nstl.loop\n'
    elif layout == 'seg':
        src = f'stl.startup\n;code\nsegment {4096 + 64 * nvars}*w\ncode:\n{body}\nstl.loop\n{extra}{LAYOUT_VARS}hex.init\n'
    else:
        src = f'stl.startup\n{body}\nstl.loop\nreserve {nvars + 1}*2*w\n{extra}{LAYOUT_VARS}hex.init\n'
    progs[name] = (src, True)
    return name


def load_programs():
    progs = dict(HAND)
    for k in list(FAILING_BASE) + DEEP:
        src, stl = HAND[k]
        if not stl and not src.startswith('b64:'):
            progs[k + '+stl'] = ('stl.startup\n' + src, True)
    for rel, stl in CORPUS:
        p = fw.REPO / 'programs' / rel
        if p.is_file():
            progs['c_' + Path(rel).stem] = (p.read_text(), stl)
    return progs


# ---- abstract cases -------------------------------------------------------------------------------------------

def gen_step(rng, progs, pool):
    name = rng.choice(pool)
    src, stl = progs[name]
    st = {'prog': name, 'stl': stl, 'width': rng.choice([64, 64, 64, 32, 32, 16, 8]), 'werror': rng.random() < 0.6,
          'version': rng.choice([3, 3, 1, 1, 0, 2]), 'depth': rng.choice(DEPTHS), 'spelling': 'real', 'userlib': None,
          'extra': None}
    if name == 'E_rec':
        st['depth'] = rng.choice([20, 60, 900])
    if stl and rng.random() < 0.12:
        st['spelling'] = 'link'
    if stl and rng.random() < 0.12:
        st['stl_short'] = rng.choice(['lib', 'shift'])
    if name == 'use_userlib':
        st['userlib'] = rng.choice([1, 1, 2, 3])
    elif stl and rng.random() < 0.15:
        st['userlib'] = rng.choice([1, 2, 3])
    r = rng.random()
    if r < 0.03:
        st['extra'] = 'missing'
    elif r < 0.06:
        st['extra'] = 'dup_short'
    elif r < 0.08:
        st['extra'] = 'dup_path'
    elif r < 0.09:
        st['extra'] = 'empty'
    elif r < 0.11 and stl:
        st['extra'] = 'stl_twice'
    elif r < 0.16 and stl:
        st['extra'] = rng.choice(['dup_stl_short', 'dup_stl_short_last', 'dup_stl_path', 'user_is_stl'])
    return st


def gen_layout_step(rng, progs, must_have=None, width=64, werror=True):
    snips = rng.sample(SNIP_ORDER, rng.choice([1, 1, 2, 3]))
    if must_have and must_have not in snips:
        snips[0] = must_have
    layout = rng.choice(LAYOUTS if not set(snips) & {'ptr_read', 'push'} else ['init_all', 'vars_first'])
    name = layout_program(progs, snips, layout, rng.choice([0, 1, 2, 5, 9]), rng.choice([0, 0, 4, 16]))
    return step(name, progs, width=width, werror=werror, version=rng.choice([3, 1])), snips


def gen_case(rng, progs, idx):
    ok_pool = [k for k in progs if k not in FAILING and k not in DEEP_ALL and k != 'def_consts_fail']
    any_pool = ok_pool + ok_pool + FAILING + DEEP_ALL
    kind = rng.random()
    n = rng.choice([1, 2, 2, 3, 3, 4, 5, 6])
    steps = [gen_step(rng, progs, any_pool) for _ in range(n)]
    probe = gen_step(rng, progs, any_pool if rng.random() < 0.35 else ok_pool)
    # most calls of one process share a configuration (that is what makes the cache hit)
    main_w, main_e = rng.choice([64, 64, 32, 16]), rng.random() < 0.6
    for s in steps + [probe]:
        if rng.random() < 0.75:
            s['width'], s['werror'] = main_w, main_e
    if kind < 0.12:
        # directed at the recursion limit: an earlier call with another depth, then a probe whose PARSE recurses deeply
        steps[rng.randrange(n)]['depth'] = rng.choice([60, 60, 2000, 5000])
        probe = gen_step(rng, progs, DEEP_ALL)
        probe['depth'] = DEFAULT_DEPTH
    elif kind < 0.30:
        # directed at the cache: warm it with the probe's own configuration, then something different, then the probe
        if probe['stl']:
            warm = dict(probe)
            warm['prog'] = rng.choice([k for k in ok_pool if progs[k][1]])
            other = dict(warm)
            other['width'] = rng.choice([w for w in (64, 32, 16) if w != probe['width']])
            other['werror'] = not probe['werror']
            steps = [warm] + steps[:2] + [other]
    elif kind < 0.42:
        # directed at the parser globals: a failing input right before the probe
        steps.append(gen_step(rng, progs, FAILING))
    elif 0.50 <= kind < 0.62:
        # directed at shared op objects: the same stl macros at other absolute addresses (warm cache)
        w, we = rng.choice([64, 64, 32]), rng.random() < 0.7
        probe, snips = gen_layout_step(rng, progs, None, w, we)
        steps = [gen_layout_step(rng, progs, rng.choice(snips), w, we)[0] for _ in range(rng.choice([1, 1, 2]))]
    elif kind < 0.50:
        # directed at an edited file inside the stl directory
        probe = gen_step(rng, progs, ['use_userlib'])
        first = dict(probe)
        first['userlib'] = rng.choice([v for v in (1, 2, 3) if v != probe['userlib']])
        steps = [first] + steps[:2]
    for s in steps:
        s.pop('_', None)
    return {'id': idx, 'steps': steps + [probe]}


def step(prog, progs, **kw):
    st = {'prog': prog, 'stl': progs[prog][1], 'width': 64, 'werror': True, 'version': 3, 'depth': DEFAULT_DEPTH,
          'spelling': 'real', 'userlib': None, 'extra': None}
    st.update(kw)
    return st


def directed_cases(progs, first_id):
    """families that are always run (and therefore the first thing tried when a tie is broken)"""
    fams = []
    # (a) the consts container of the cache: the call that FILLS the cache defines constants; the probe (same key) uses
    #     the same identifiers as labels, redefines them, or leaves them undefined
    for w, we in ((64, True), (32, False)):
        for filler in ('def_consts', 'def_consts_fail'):
            for probe in ('use_cap_label', 'redef_cap', 'undef_name', 'c_hello_world'):
                fams.append(('consts', [step(filler, progs, width=w, werror=we), step(probe, progs, width=w, werror=we)]))
        fams.append(('consts', [step('c_hello_world', progs, width=w, werror=we), step('def_consts', progs, width=w, werror=we),
                                step('use_cap_label', progs, width=w, werror=we)]))
    # (b) a FAILING call with a non-default max_recursion_depth, then a probe whose parse recurses deeply (both directions)
    later_stage = ['E_nomacro', 'E_twice', 'E_rec', 'E_nofirst', 'E_nospace', 'E_nomacro+stl', 'E_twice+stl']
    parse_stage = ['E_ns_syntax', 'E_lex', 'W_unused', 'E_const_label', 'E_div0', 'E_notutf8']
    for f in later_stage + parse_stage:
        if f not in progs:
            continue
        for depth, probe in ((50, 'deep250'), (60, 'deep150'), (5000, 'deepdef600')) if f in later_stage else ((50, 'deep250'),):
            fams.append(('limit-after-failure', [step(f, progs, depth=depth), step(probe, progs)]))
    for depth, probe in ((50, 'deep250'), (5000, 'deepdef600')):
        fams.append(('limit-after-success', [step('tiny', progs, depth=depth), step(probe, progs)]))
    # (c) the same stl files under other short names (the .fjd label names carry the short names)
    for prog in ('c_hello_world', 'c_print_as_digit'):
        if prog in progs:
            fams.append(('short-names', [step(prog, progs), step(prog, progs, stl_short='lib')]))
            fams.append(('short-names', [step(prog, progs, stl_short='lib'), step(prog, progs)]))
            fams.append(('short-names', [step(prog, progs), step(prog, progs, stl_short='shift')]))
    # (e) probes whose expected result is a DIAGNOSTIC that depends on the stl file list (repeated stl short name / path),
    #     cold and after a warm cache of the same key
    for w, we in ((64, True), (32, False)):
        for extra in ('dup_stl_short', 'dup_stl_short_last', 'dup_stl_path', 'user_is_stl'):
            fams.append(('stl-list-diagnostic', [step('c_hello_world', progs, width=w, werror=we),
                                                 step('c_hello_world', progs, width=w, werror=we, extra=extra)]))
    fams.append(('stl-list-diagnostic', [step('c_hello_world', progs, stl_short='lib'),
                                         step('c_simple', progs, stl_short='lib', extra='dup_stl_short')]))
    # (f) the same stl macros at other absolute addresses, cache warm: (tables first -> tables last), (other number of
    #     variables before the code), (padded / in another segment)
    for k, sn in enumerate(SNIP_ORDER[:16]):
        other = SNIP_ORDER[(k + 5) % 16]
        w, we = ((64, True), (64, False), (32, True))[k % 3]
        a = layout_program(progs, [sn, other], 'init_all', 1, 0)
        b = layout_program(progs, [sn], 'init_end', 0, 0)
        fams.append(('address-shift', [step(a, progs, width=w, werror=we), step(b, progs, width=w, werror=we)]))
        c = layout_program(progs, [sn], 'vars_first', 1 + k % 4, 0)
        d = layout_program(progs, [other, sn], 'vars_first', 6 + k % 3, 4 * (k % 2))
        fams.append(('address-shift', [step(c, progs, width=w, werror=we), step(d, progs, width=w, werror=we)]))
        if k % 2 == 0:
            e = layout_program(progs, [sn], 'seg' if k % 4 == 0 else 'reserve', 2 + k % 5, 0)
            fams.append(('address-shift', [step(b, progs, width=w, werror=we), step(a, progs, width=w, werror=we),
                                           step(e, progs, width=w, werror=we)]))
    # (d) width / warning mode / edited stl file / namespace left open, each as a two- or three-call history
    fams.append(('width', [step('c_hello_world', progs, width=64), step('c_hello_world', progs, width=32)]))
    fams.append(('warning-mode', [step('W_unused_stl', progs, werror=False), step('W_unused_stl', progs, werror=True)]))
    fams.append(('main-ops', [step('c_hello_world', progs), step('c_simple', progs), step('c_hello_world', progs)]))
    fams.append(('namespace', [step('E_ns_syntax_stl', progs), step('c_hello_world', progs)]))
    fams.append(('edited-stl', [step('use_userlib', progs, userlib=1), step('use_userlib', progs, userlib=2)]))
    cases = []
    for k, (fam, steps) in enumerate(fams):
        if all(s['prog'] in progs for s in steps):
            cases.append({'id': first_id + k, 'steps': steps, 'family': fam})
    return cases


def stl_names(pkg):
    conf = json.loads((pkg / 'flipjump' / 'stl' / 'conf.json').read_text())
    return list(conf['all'])


def materialise(case, roots, side, progs):
    """abstract steps -> worker requests. roots: dict W (work dir of this side), STL, LINK, OUT"""
    names = roots['stl_names']
    reqs = []
    for i, st in enumerate(case['steps']):
        src = st.get('src') or progs[st['prog']][0]
        w = Path(roots['W'])
        user = w / f"{st['prog']}.fj"
        files = []
        pre = [[str(user), src, 0]]
        base = roots['LINK'] if st['spelling'] == 'link' else roots['STL']
        if st['stl']:
            if st.get('stl_short') == 'lib':
                files = [['lib_' + n.replace('/', '_'), f'{base}/{n}.fj'] for n in names]
            elif st.get('stl_short') == 'shift':     # the usual names, given to other files
                files = [[f's{k}', f'{base}/{n}.fj'] for k, n in zip(list(range(2, len(names) + 1)) + [1], names)]
            else:
                files = [[f's{k}', f'{base}/{n}.fj'] for k, n in enumerate(names, start=1)]
            if st['extra'] == 'stl_twice':
                files = files + [[f't{k}', f'{base}/{n}.fj'] for k, n in enumerate(names[:2], start=1)]
            if st['userlib']:
                ul = f"{roots['STL']}/zz_user_{case['id']}.fj"
                pre.append([ul, USERLIB[st['userlib']], 0])
                files.append(['u1', f"{base}/zz_user_{case['id']}.fj"])
        stl_files = list(files)
        if st['extra'] == 'dup_stl_short' and stl_files:
            files.append([stl_files[0][0], str(user)])          # the user file repeats the short name of the first stl file
        elif st['extra'] == 'dup_stl_short_last' and stl_files:
            files.append([stl_files[-1][0], str(user)])
        elif st['extra'] == 'user_is_stl' and stl_files:
            files.append(['f1', stl_files[0][1]])                # the "user file" is an stl file that is already listed
        else:
            files.append(['f1', str(user)])
        if st['extra'] == 'dup_stl_path' and stl_files:
            files.append(['f2', stl_files[len(stl_files) // 2][1]])   # after the user file: outside the cached prefix
        if st['extra'] == 'missing':
            files.append(['f2', str(w / 'does_not_exist.fj')])
        elif st['extra'] == 'dup_short':
            other = w / 'other.fj'
            pre.append([str(other), ';0\n', 0])
            files.append(['f1', str(other)])
        elif st['extra'] == 'dup_path':
            files.append(['f2', str(user)])
        elif st['extra'] == 'empty':
            files = []
        reqs.append({'files': files, 'width': st['width'], 'werror': st['werror'], 'version': st['version'],
                     'depth': st['depth'], 'out_dir': f"{roots['OUT']}/{side}{i}", 'tag': f'{side}{i}', 'pre_write': pre,
                     'dbg': True})
    return reqs


# ---- running ----------------------------------------------------------------------------------------------------

def view(res):
    """what the property compares"""
    return (res['status'], res.get('exc'), res.get('cause'), res.get('fjm'), res.get('fjd'))


def short_view(res):
    def h(b):
        return None if b is None else hashlib.sha1(base64.b64decode(b)).hexdigest()[:12] + f'/{len(base64.b64decode(b))}B'
    return {'status': res['status'], 'exc': res.get('exc'), 'cause': res.get('cause'), 'fjm': h(res.get('fjm')),
            'fjd': h(res.get('fjd')), 'msg': (res.get('msg') or '')[:160]}


class Env:
    def __init__(self, ctx):
        self.ctx = ctx
        self.pkg = ctx.scratch / 'pkg'
        shutil.copytree(fw.REPO / 'flipjump', self.pkg / 'flipjump',
                        ignore=shutil.ignore_patterns('__pycache__', '*.pyc'))
        self.link = ctx.scratch / 'stl_link'
        os.symlink(self.pkg / 'flipjump' / 'stl', self.link)
        self.names = stl_names(self.pkg)
        self.extra_env = {'PYTHONPATH': f'{self.pkg}:{fw.VERIF / "harness"}'}

    def roots(self, case_id, side):
        w = self.ctx.scratch / 'work' / f'c{case_id}' / ('B' if side == 'b' else 'A')
        w.mkdir(parents=True, exist_ok=True)
        return {'W': str(w), 'STL': str(self.pkg / 'flipjump' / 'stl'), 'LINK': str(self.link),
                'OUT': str(self.ctx.scratch / 'out' / f'c{case_id}'), 'stl_names': self.names}

    def run(self, requests, hashseed='0', observe=True):
        env = dict(self.extra_env)
        env['PYTHONHASHSEED'] = hashseed
        return fw.run_worker(self.ctx, 'asmhist', {'requests': requests, 'observe': observe, 'hash_cache': observe},
                             extra_env=env, timeout=600)


def run_case(env, case, progs):
    cid = case['id']
    ra = env.roots(cid, 'a')
    hist = env.run(materialise(case, ra, 'h', progs))
    probe_only = {'id': cid, 'steps': case['steps'][-1:]}
    fa = env.run(materialise(probe_only, ra, 'fa', progs), observe=False)
    rb = env.roots(cid, 'b')
    fb_reqs = materialise(probe_only, rb, 'fb', progs)
    fb_reqs[0]['chdir'] = rb['W']
    fb = env.run(fb_reqs, hashseed=str(1000 + cid), observe=False)
    out = {'hist': hist, 'fa': fa['results'][0], 'fb': fb['results'][0]}
    hp = hist['results'][-1]
    if view(hp) != view(out['fa']) and hp['limit_before'] != out['fa']['limit_before']:
        # triage: is the difference reproduced in a fresh process that merely starts with the leaked limit?
        rq = materialise(probe_only, ra, 'fc', progs)
        rq[0]['pre_limit'] = hp['limit_before']
        out['fc'] = env.run(rq, observe=False)['results'][0]
    return out


def still_differs(env, case, progs, fresh_view):
    ra = env.roots(case['id'], 'a')
    hist = env.run(materialise(case, ra, 'm', progs), observe=False)
    return view(hist['results'][-1]) != fresh_view


def minimise(env, case, progs, fresh_view, budget=8):
    steps = list(case['steps'])
    i = 0
    while i < len(steps) - 1 and budget > 0:
        trial = {'id': case['id'], 'steps': steps[:i] + steps[i + 1:]}
        budget -= 1
        try:
            if still_differs(env, trial, progs, fresh_view):
                steps = trial['steps']
                continue
        except RuntimeError:
            pass
        i += 1
    return {'id': case['id'], 'steps': steps}


# ---- Coq terms ----------------------------------------------------------------------------------------------------

class Terms:
    def __init__(self):
        self.defs = []
        self.names = {}
        self.cids = {}

    def name(self, prefix, term, typ):
        k = (prefix, term)
        if k not in self.names:
            n = f'{prefix}{len(self.names)}'
            self.names[k] = n
            self.defs.append(f'Definition {n} : {typ} := {term}.')
        return self.names[k]

    def cid(self, sha):
        if sha not in self.cids:
            self.cids[sha] = len(self.cids) + 1
        return self.cids[sha]


def cs(s):
    assert all(32 <= ord(c) < 127 for c in s), s
    return '"' + s.replace('"', '""') + '"'


def cl(xs):
    return '[' + '; '.join(xs) + ']'


def cb(b):
    return 'true' if b else 'false'


class OddShape(Exception):
    """an observed structure does not have the modelled shape (reported as a broken tie, never a crash)"""


def key_term(T, kj):
    try:
        k = json.loads(kj)
        w, e, files = k
        ents = []
        for ent in files:
            if len(ent) != 4:
                raise OddShape(f'a per-file entry of the cache key has {len(ent)} components, the model has 4 '
                               f'(short name, resolved path, mtime_ns, size): {ent}')
            sname, pth, m, z = ent
            ents.append(f'({cs(str(sname))}, {cs(str(pth))}, {int(m)}, {int(z)})')
        return T.name('k', f'({int(w)}, {cb(bool(e))}, {cl(ents)})', 'ckey')
    except OddShape:
        raise
    except Exception as ex:  # noqa
        raise OddShape(f'cache key of unexpected shape {kj[:200]}: {type(ex).__name__}: {ex}')


def step_class(res):
    if res['status'] == 'ok':
        return 0
    msg = res.get('msg') or ''
    if res.get('exc') == 'FlipJumpParsingException':
        if msg.startswith('The FlipJump parser got an empty files list'):
            return 1
        if msg.startswith('No such file'):
            return 2
        if msg.startswith('Short file name is repeated'):
            return 3
        if msg.startswith('.fj file path is repeated'):
            return 4
        if msg.startswith('Errors found in file'):
            return 5
        if msg.startswith('file ') and 'is not valid utf-8 text' in msg:
            return 8
    return 7 if res.get('parse_done') else 6


def history_term(T, hist):
    steps = []
    for res in hist['results']:
        cls = step_class(res)
        calls = {}
        for c in res['calls']:
            calls.setdefault(c['short'], c)
        # errors reported only by the final label/constant validation: mark the last parsed file
        final_errs = cls == 5 and res['calls'] and all(c['outcome'] == 'ok' and not c['errs'] for c in res['calls'])
        last_short = res['calls'][-1]['short'] if res['calls'] else None
        files = []
        for f in res['files']:
            c = calls.get(f['short'])
            if f['sha'] is None and f.get('read_exn') == 'UnicodeDecodeError':
                text = 'ReadNotUtf8'
            elif f['sha'] is None:
                text = f'(ReadRaises (Tok {cs(f["short"])} [] 0 false 0))'
            else:
                cid = T.cid(f['sha'])
                if final_errs and f['short'] == last_short:
                    cid = -cid
                need, errs, ns, exn = 0, False, [], False
                if c is not None:
                    ns = c.get('ns_after') or []
                    errs = bool(c.get('errs'))
                    if c['outcome'] == 'exn':
                        if c.get('exn') == 'RecursionError':
                            need = c['limit'] + 1
                        else:
                            exn = True
                text = f'(ReadOk (({cid})%Z, mkbeh {need} {cb(errs)} false {cl(cs(x) for x in ns)} {cb(exn)}))'
            stat = 'None' if f['stat'] is None else f'(Some ({int(f["stat"][0])}, {int(f["stat"][1])}))'
            term = (f'mkfile {cs(f["short"])} {cs(f["path"])} {cs(f["abs"])} {cs(f["resolved"])} {cb(f["in_stl"])} '
                    f'{cb(f["isfile"])} {stat} {text}')
            files.append(T.name('f', term, 'rfile'))
        rq = res['_rq']
        fail = res['status'] == 'err' and res.get('parse_done')
        rq_t = f'mkrq {cl(files)} {rq["width"]} {cb(rq["werror"])} {rq["depth"]} (mkbopts {cb(fail)} 0)'
        a = res['after']
        parsed = []
        if res['status'] == 'ok':
            for c in res['base'] + [c for c in res['calls'] if c['outcome'] == 'ok']:
                parsed.append(f'({cs(c["short"])}, {cl(cs(x) for x in c["ns_in"])}, {int(c["limit"])}, {T.cid(c["sha"])})')
        obs = (f'mkobs {cb(res["status"] == "ok")} {cls} {cl(key_term(T, k) for k in a["keys"])} '
               f'{cl(cs(x) for x in a["ns"])} {cb(a["err"])} {cb(a["haserrs"])} {res["limit_after"]} {cs(a["file"] or "")} '
               f'{cl(parsed)}')
        steps.append(f'({rq_t}, {obs})')
    return cl(steps)


# ---- the check -----------------------------------------------------------------------------------------------------

def classify_step(res):
    if res.get('restored'):
        c = 'hit'
    elif res.get('snapshotted'):
        c = 'miss+snapshot'
    elif any(f['in_stl'] for f in res['files'][:1]):
        c = 'miss(prefix failed)'
    else:
        c = 'no-prefix'
    return f'{c}/class{step_class(res)}'


_reported = set()


def report_difference(ctx, env, case, progs, out):
    hp = out['hist']['results'][-1]
    fa = out['fa']
    leaked = hp['limit_before'] != fa['limit_before']
    if leaked and 'fc' in out and view(out['fc']) == view(hp):
        sig = {'kind': 'recursion-limit-leak'}
        what = (f'probe {case["steps"][-1]["prog"]} (max_recursion_depth={case["steps"][-1]["depth"]}) after a history that '
                f'left sys.getrecursionlimit()={hp["limit_before"]}: {short_view(hp)["status"]}/{hp.get("cause")} in the '
                f'history process, {short_view(fa)["status"]} in a fresh process (limit {fa["limit_before"]}); a fresh process '
                f'started with the leaked limit reproduces the history result')
    else:
        sig = {'kind': 'history-dependence', 'probe': case['steps'][-1]['prog'], 'hist': hp['status'], 'fresh': fa['status'],
               'hist_exc': hp.get('exc'), 'fresh_exc': fa.get('exc')}
        what = (f'probe {case["steps"][-1]["prog"]} (w={case["steps"][-1]["width"]}, werror={case["steps"][-1]["werror"]}) gives '
                f'{short_view(hp)} after the history but {short_view(fa)} in a fresh process')
    sigkey = json.dumps(sig, sort_keys=True)
    if sigkey in _reported or len(_reported) >= 8:
        return                       # one minimised witness per signature
    _reported.add(sigkey)
    small = minimise(env, case, progs, view(fa))
    ctx.violation(sig, what, {'case': small, 'sources': {s['prog']: progs[s['prog']][0] for s in small['steps']},
                              'userlib_versions': USERLIB,
                              'observed_after_history': short_view(hp), 'required_fresh_process': short_view(fa),
                              'limit_in_force_at_probe': hp['limit_before'], 'how': './check C13 --replay <this file>'})


def _cpu():
    t = os.times()
    return t.user + t.system + t.children_user + t.children_system


def run(ctx):
    import time
    marks = [('start', time.time(), _cpu())]

    def mark(name):
        marks.append((name, time.time(), _cpu()))
        ctx.coverage['phase_seconds_wall_cpu'] = {b[0]: [round(b[1] - a[1], 1), round(b[2] - a[2], 1)]
                                                  for a, b in zip(marks, marks[1:])}
    ok, msg = gen_facts_c13.write(ctx)
    if not ok:
        ctx.broken_tie('T-gen gen_facts_c13 (fail-closed translator)', msg)
    built = fw.static_proofs(ctx, ['Properties/C13.v'], extra_targets=['Tie/C13_tie.vo'])
    tie_thms = len([l for l in (fw.COQ / 'Tie' / 'C13_tie.v').read_text().splitlines()
                    if l.startswith(('Lemma ', 'Theorem '))])
    ctx.coverage['obligations'] += tie_thms
    if built and ok:
        ctx.coverage['discharged'] += tie_thms

    mark('proofs')
    progs = load_programs()
    env = Env(ctx)
    n = int(os.environ.get('FJVERIF_C13_N', '0')) or ctx.n(90, 2000)
    cases = directed_cases(progs, 100000) + [gen_case(ctx.rng, progs, i) for i in range(n)]

    def job(case):
        try:
            return run_case(env, case, progs)
        except RuntimeError as e:
            return {'error': str(e)}
    with ThreadPoolExecutor(max_workers=fw.NCPU) as ex:
        outs = list(ex.map(job, cases))

    mark('workers')
    term_cases = []
    for case, out in zip(cases, outs):
        if 'error' in out:
            ctx.broken_tie('C13 worker', out['error'])
            continue
        hist = out['hist']
        rqs = materialise(case, env.roots(case['id'], 'a'), 'h', progs)
        for res, rq in zip(hist['results'], rqs):
            res['_rq'] = rq
        hp = hist['results'][-1]
        steps = hist['results']
        nontrivial = len(steps) > 1 and (any(r.get('restored') for r in steps) or any(r['status'] == 'err' for r in steps[:-1]))
        ctx.count(json.dumps(case['steps'], sort_keys=True), nontrivial)
        for r in steps[:-1]:
            ctx.hist('history_step_tags', classify_step(r))
        ctx.hist('probe_tags', classify_step(hp) + ('/limit-leaked' if hp['limit_before'] != out['fa']['limit_before'] else ''))
        ctx.hist('history_length', len(steps) - 1)
        ctx.hist('probe_program', case['steps'][-1]['prog'])
        ctx.hist('family', case.get('family', 'random'))
        for r in steps:
            if r['status'] == 'err':
                ctx.hist('error_kinds', f"{r.get('exc')}<-{r.get('cause')}")
        # (a) the property on the implementation: history vs fresh, fresh vs other directory / hash seed
        if view(hp) != view(out['fa']):
            report_difference(ctx, env, case, progs, out)
        if view(out['fa']) != view(out['fb']):
            ctx.violation({'kind': 'directory-or-hashseed-dependence', 'probe': case['steps'][-1]['prog']},
                          f'probe {case["steps"][-1]["prog"]}: {short_view(out["fa"])} in one directory with PYTHONHASHSEED=0, '
                          f'{short_view(out["fb"])} in another directory with another hash seed',
                          {'case': {'id': case['id'], 'steps': case['steps'][-1:]},
                           'sources': {case['steps'][-1]['prog']: progs[case['steps'][-1]['prog']][0]}})
        # (b) immutability of what the cache holds, freshness of restored containers
        for i, r in enumerate(steps):
            if r.get('mutated'):
                ctx.violation({'kind': 'cached-object-mutated'},
                              f'objects held by the stl parse cache changed during call {i} ({case["steps"][i]["prog"]})',
                              {'case': case, 'call': i, 'keys': r['mutated']})
            if r.get('alias'):
                ctx.violation({'kind': 'restore-shares-container', 'what': r['alias'][0]},
                              f'call {i} ({case["steps"][i]["prog"]}): {"; ".join(r["alias"])}', {'case': case, 'call': i})
        # (c) every module-global that changed is modelled
        extra = set(hist['changed_globals']) - MODELLED_GLOBALS
        if extra:
            ctx.broken_tie('unmodelled module-global state changed by assemble', ', '.join(sorted(extra)))
        for g in hist['changed_globals']:
            ctx.hist('globals_seen_changing', g)
        term_cases.append((case, out))
        if len(ctx.coverage['samples']) < 4:
            ctx.sample({'history': [{k: s[k] for k in ('prog', 'width', 'werror', 'depth', 'version', 'userlib', 'extra', 'spelling')}
                                    for s in case['steps'][:-1]],
                        'probe': {k: case['steps'][-1][k] for k in ('prog', 'width', 'werror', 'depth', 'version')},
                        'after_history': short_view(hp), 'fresh_process': short_view(out['fa']),
                        'other_dir_other_hashseed': short_view(out['fb'])})

    mark('compare')
    # (d) the model replays every history inside Coq (one file per shard, with only the definitions it uses)
    shard = 10
    groups = [term_cases[i:i + shard] for i in range(0, len(term_cases), shard)]

    def eval_group(ig):
        idx, grp = ig
        T = Terms()
        ts, kept, odd = [], [], []
        for case, out in grp:
            try:
                ts.append(history_term(T, out['hist']))
                kept.append((case, out))
            except Exception as ex:  # noqa - an observed structure of unexpected shape is a broken tie, not a crash
                odd.append(f'history {case["id"]}: {type(ex).__name__}: {ex}')
        grp = kept
        if not grp:
            return [], '', T, odd, grp
        path = ctx.scratch / f'c13_replay_{idx}.v'
        path.write_text(HEADER + '\n'.join(T.defs) + '\nDefinition cases := [\n' + ';\n'.join(ts) + '\n].\n'
                        'Eval vm_compute in (map check_history cases).\nEval vm_compute in (map spec_on_model cases).\n')
        rc, o = fw.coqc_file(path, 1200)
        bs = fw.parse_bools(o)
        if rc != 0 or len(bs) != 2 * len(grp):
            return [(None, None, t) for t in ts], o, T, odd, grp
        return [(bs[i], bs[len(grp) + i], ts[i]) for i in range(len(grp))], '', T, odd, grp
    with ThreadPoolExecutor(max_workers=fw.NCPU) as ex:
        evals = list(ex.map(eval_group, list(enumerate(groups))))
    n_model_bad = 0
    n_odd = 0
    for rows, err, T, odd, grp in evals:
        if odd:
            n_odd += len(odd)
            ctx.broken_tie('T-corr: an observed structure does not have the modelled shape (Model/AsmCache.v)', odd[0])
        if err:
            ctx.broken_tie('coq evaluation of the C13 replay', err)
            continue
        header = HEADER + '\n'.join(T.defs) + '\n'
        for (case, out), (okv, sp, t) in zip(grp, rows):
            hp = out['hist']['results'][-1]
            real_spec = view(hp) == view(out['fa'])
            if okv is False:
                n_model_bad += 1
                rc, idx = fw.coq_eval_term(ctx, f'c13_diag{case["id"]}', header, f'first_mismatch code_shape g0 ({t}) 0')
                detail = (f'history {case["id"]}: the model and the implementation disagree at call {idx[-40:]} '
                          f'({[s["prog"] for s in case["steps"]]}); spec on the implementation: {real_spec}')
                if real_spec:
                    ctx.broken_tie('T-corr Replay.check_history (Model/AsmCache.v vs fj_parser/assembler)', detail)
                # when the spec is violated the violation has been reported above with its input
            if okv and sp != (step_class(hp) == step_class_fresh(out['fa'], hp)):
                ctx.broken_tie('spec evaluated on the model vs on the implementation',
                               f'history {case["id"]}: model says history-free={sp}, implementation says {real_spec}')
    ctx.coverage['model_replay'] = {'histories': len(term_cases), 'disagreements': n_model_bad, 'unmodelled_shape': n_odd,
                                    'calls': sum(len(o['hist']['results']) for _, o in term_cases)}
    mark('coq_replay')
    boundary(ctx, env, progs)
    mark('boundary')
    ctx.coverage['rule'] = (
        'random histories of 1-7 assemble calls in one process (programs of the repo corpus and hand-written ones x widths '
        '8/16/32/64 x warning modes x fjm versions x max_recursion_depth 60/300/900/2000/5000 x 13 failing inputs of the '
        'classes lexing, syntax (namespace left open), warning, label/constant collision, undefined macro, duplicate label, '
        'recursion depth, ZeroDivisionError, no first op, missing file, repeated short name/path, empty list x a user file '
        'inside a copy of the stl directory, edited between calls x stl reached through a symlink) followed by a probe; the '
        'probe result (.fjm and .fjd bytes, exception class) is compared with a fresh process, and the fresh process with one '
        'in another directory under another PYTHONHASHSEED; distinct = distinct (history, probe); non-trivial = the history '
        'contains a cache hit or a failing call before the probe')
    ctx.assumptions += [
        '(resolved path, st_mtime_ns, st_size) identifies the content of a file inside the stl directory (section hypothesis '
        'content_identified); an stl file is always passed under one spelling (spelling_identified) - the symlinked spelling '
        'is covered by the campaign only',
        'lexing/parsing (sly), macro expansion, label resolution and the writers are arbitrary pure functions in the model; '
        'their purity on the real objects is supported by the deep-hash immutability check and the byte comparison, not proved',
        'assemble is called from the same Python stack depth in the history process and in the fresh process',
    ]


def step_class_fresh(fa, hp):
    """class of the fresh result, using the stage information of the history run when both failed the same way"""
    if fa['status'] == 'ok':
        return 0
    if (fa.get('exc'), fa.get('cause'), fa.get('msg', '')[:30]) == (hp.get('exc'), hp.get('cause'), hp.get('msg', '')[:30]):
        return step_class(hp)
    d = dict(fa)
    d['parse_done'] = hp.get('parse_done')
    return step_class(d)


def boundary(ctx, env, progs):
    """the stated assumption, shown at its boundary (informational): same path, same mtime_ns, same size, other content"""
    roots = env.roots(999999, 'a')
    ul = f"{roots['STL']}/zz_user_999999.fj"
    t = 1_700_000_000_000_000_000
    v1 = "ns userlib {\n  def two {\n    ;\n    ;\n  }\n}\n"
    v2 = "ns userlib {\n  def two {\n    ;\n    ;4\n }\n}\n"
    assert len(v1) == len(v2)
    files = [[f's{k}', f"{roots['STL']}/{n}.fj"] for k, n in enumerate(env.names, start=1)] + [['u1', ul]]
    user = f"{roots['W']}/use.fj"
    base = {'files': files + [['f1', user]], 'width': 64, 'werror': True, 'version': 3, 'depth': 900,
            'out_dir': roots['OUT'] + '/b', 'dbg': True}
    r1 = dict(base, pre_write=[[ul, v1, t], [user, progs['use_userlib'][0], 0]], tag='b1')
    r2 = dict(base, pre_write=[[ul, v2, t]], tag='b2')
    try:
        h = env.run([r1, r2], observe=False)['results']
        f = env.run([r2], observe=False)['results'][0]
        ctx.coverage['assumption_boundary'] = {
            'scenario': 'a file inside the stl directory rewritten with other content of the same size and its mtime_ns put back',
            'stale_result_served_from_cache': view(h[1]) != view(f)}
    except RuntimeError as e:
        ctx.coverage['assumption_boundary'] = {'error': str(e)[:200]}


def replay(ctx, path):
    blob = json.loads(Path(path).read_text())
    rp = blob['replay']
    if 'case' not in rp:
        print(f'[C13] this replay file names a broken theorem/tie, not an input: {rp.get("theorem_or_correspondence")}')
        print(rp.get('detail', '')[-1500:])
        return 1
    progs = load_programs()
    for k, v in rp.get('sources', {}).items():
        progs[k] = (v, progs.get(k, ('', any(s['prog'] == k and s['stl'] for s in rp['case']['steps'])))[1])
    env = Env(ctx)
    case = rp['case']
    out = run_case(env, case, progs)
    hp, fa, fb = out['hist']['results'][-1], out['fa'], out['fb']
    print(f'[C13] replay of {path}')
    for i, (s, r) in enumerate(zip(case['steps'], out['hist']['results'])):
        role = 'probe  ' if i == len(case['steps']) - 1 else f'call {i} '
        print(f'  {role} {s["prog"]} w={s["width"]} werror={s["werror"]} depth={s["depth"]} -> {r["status"]} '
              f'{r.get("exc") or ""} limit {r["limit_before"]}->{r["limit_after"]}')
    print(f'  required (fresh process): {short_view(fa)}')
    print(f'  observed (after history): {short_view(hp)}')
    print(f'  other directory / hash seed: {short_view(fb)}')
    bad = view(hp) != view(fa) or view(fa) != view(fb) or any(r.get('mutated') or r.get('alias') for r in out['hist']['results'])
    print('  -> ' + ('VIOLATION reproduced' if bad else 'no difference on this tree'))
    return 1 if bad else 0
