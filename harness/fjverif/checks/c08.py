"""C08: pointer, stack and call/return macros address exactly the pointed cell (theorems by kernel computation on images
assembled from the current source; machinery in fjverif/stl_ptr.py on top of fjverif/stl.py).

Families of harness blocks (every block = one generated theorem over the explicit-list domain written in its statement):
  deref    one pointer macro; the pointer ranges over every cell of a k-cell buffer placed across a 32-op boundary, the
           target cell over every byte (thorough) / 22 bytes covering all low and high nibbles (quick), the other cells hold
           a pattern, the source operand over every hex/byte value
  arith    ptr_inc/dec/add/sub/index, sp_inc/dec/add/sub: cell addresses + carry/borrow edge values, indices -k..k
  ptrpair  two dereferences through two pointers, every ordered pair of cell addresses
  stack    every balanced push/pop word (Dyck path) over {hex, byte, vector 3} up to the tier's length; abstract stack spec
  calls    call trees / shared sub-routines over stl.call, stl.call with stack parameters, stl.fcall; markers = abstract trace
  bit      the bit-namespace pointers at w in {16, 32, 64}
"""
import itertools

from .. import stl
from .. import stl_ptr as SP
from ..stl_ptr import LDom, PV, PBlock

K = 4                                   # cells per buffer
QBYTES = [0x00, 0x01, 0x12, 0x23, 0x34, 0x45, 0x56, 0x67, 0x78, 0x89, 0x9A, 0xAB, 0xBC, 0xCD, 0xDE, 0xEF, 0xFF,
          0x80, 0x7F, 0x0F, 0xF0, 0x10]


def pat(cb, k):
    if cb == 8:
        return sum(SP.PAT8[i] << (8 * i) for i in range(k))
    return sum(((0b1011 >> (i % 4)) & 1) << i for i in range(k))


def allv(cb, full):
    if cb == 1:
        return LDom.rng(0, 2)
    return LDom.rng(0, 256) if full else LDom.explicit(QBYTES)


def _id(s):
    return stl._ident(s)


def mk(name, variant, w, ns, code, pvars, spec_of, udom_of, kind, exits=0, temps=(), tail=(), markers=None, scratch_ops=(),
       title=None, extra_thm=()):
    vtag = '_'.join(f'{k}{v}' for k, v in variant.items() if k not in ('full',) and not isinstance(v, (list, dict)))
    if 'tag' in variant:
        vtag = str(variant['tag'])
    bid = _id(f'{name}_{vtag}' if vtag else name)
    return PBlock(bid=bid, title=title or (f'{name} {vtag}'.strip()), macro=name, calls=[], vars=[], exits=exits, spec='', dom=[],
                  temps=list(temps), params=dict(variant), kind=kind, w=w, ns=ns, code=list(code), tail=list(tail), pvars=list(pvars),
                  markers=markers, spec_of=spec_of, udom_of=udom_of, scratch_ops=list(scratch_ops), builder=(name, dict(variant)),
                  extra_thm=list(extra_thm))


# ---------------------------------------------------------------------------------------------------------
# operand variables and domains shared by the dereference blocks

def ptr_var(ns, w, name='p', rel=('@buf',)):
    return PV(name, 'hex', w // 4, rel=rel) if ns == 'hex' else PV(name, 'bit', w, rel=rel)


def buf_var(ns, k=K, name='buf'):
    return PV(name, 'byte' if ns == 'hex' else 'bit', k, straddle=True)


def cb_of(ns):
    return 8 if ns == 'hex' else 1


def target_products(before, after, cb, k, full, pdom):
    """for every target cell j: pointer over pdom, cell j over every value, the other cells keep the pattern"""
    P = pat(cb, k)
    return [before + [pdom] + after + [LDom.cells(cb, P, j, allv(cb, full))] for j in range(k)]


def load_block(name, call, w, variant, ns='hex', dst=('hex', 1), spec='ptr_load', md=16, inc=False, n=None, db=4, dvals=(0xA,),
               temps=()):
    """[dst; p; buf]"""
    cb = cb_of(ns)
    full = variant.get('full', False)
    kk = K
    pv = [PV('d', dst[0], dst[1]), ptr_var(ns, w), buf_var(ns)]

    def spec_of(A):
        if n is None:
            return (spec, [A['ww'], cb, md, A['@buf'], kk])
        return (spec, [A['ww'], cb, md, db, A['@buf'], kk, n])

    def udom_of(A):
        pdom = LDom.addrs(A['@buf'], A['dw'], kk if n is None else kk - n + 1)
        dmask = (1 << (SP.KIND_BITS[dst[0]] * dst[1])) - 1
        return target_products([LDom.explicit([v & dmask for v in dvals])], [], cb, kk, full, pdom)
    return mk(name, variant, w, ns, [call.format(d='@d', p='@p', **variant)], pv, spec_of, udom_of, 'deref', temps=temps)


def store_block(name, call, w, variant, ns='hex', src=('hex', 1), spec='ptr_store', md=16, n=None, db=4, has_src=True, temps=()):
    """[p; s; buf]  ([p; buf] without a source)"""
    cb = cb_of(ns)
    full = variant.get('full', False)
    kk = K
    pv = [ptr_var(ns, w)] + ([PV('s', src[0], src[1])] if has_src else []) + [buf_var(ns)]
    sbits = SP.KIND_BITS[src[0]] * src[1]

    def spec_of(A):
        if not has_src:
            return (spec, [A['ww'], cb, A['@buf'], kk])
        if spec in ('ptr_xor_store',):
            return (spec, [A['ww'], cb, A['@buf'], kk])
        if spec == 'ptr_xor_store_n':
            return (spec, [A['ww'], cb, db, A['@buf'], kk, n])
        if n is None:
            return (spec, [A['ww'], cb, md, A['@buf'], kk])
        return (spec, [A['ww'], cb, md, db, A['@buf'], kk, n])

    def udom_of(A):
        pdom = LDom.addrs(A['@buf'], A['dw'], kk if n is None else kk - n + 1)
        P = pat(cb, kk)
        inv = P ^ ((1 << (cb * kk)) - 1)
        if not has_src:
            return target_products([], [], cb, kk, full, pdom)
        if sbits <= 8:
            sall = LDom.rng(0, 1 << sbits) if (full or sbits <= 4) else LDom.explicit([v for v in QBYTES if v < (1 << sbits)])
        else:
            m = (1 << sbits) - 1
            sall = LDom.explicit(sorted({0, m, 0x5A3C96 & m, 0xA5C369 & m, 0x123456 & m, 0xFEDCBA & m, 1, 1 << (sbits - 1)}))
        sm = (1 << sbits) - 1
        few = LDom.explicit(sorted({0, sm, 0x6 & sm, 0x9B & sm} if full else {0x6 & sm, 0x9B & sm}))
        u = [[pdom, sall, LDom.explicit([P, inv, 0])]]
        u += target_products([], [few], cb, kk, full, pdom)
        return u
    return mk(name, variant, w, ns, [call.format(s='@s', p='@p', **variant)], pv, spec_of, udom_of, 'deref', temps=temps)


def signed_list(w, k, extra=()):
    return [v % (1 << w) for v in list(range(-k, k + 1)) + list(extra)]


def nth_load_block(name, call, w, variant, dst, md):
    kk = K
    tv = QBYTES if variant.get('full') else [0x00, 0x12, 0x6B, 0x80, 0xA5, 0xFF]
    pv = [PV('d', 'hex', dst), ptr_var('hex', w), PV('ix', 'hex', w // 4), buf_var('hex')]

    def spec_of(A):
        return ('ptr_load_nth', [A['ww'], 8, md, A['@buf'], kk])

    def udom_of(A):
        pdom = LDom.addrs(A['@buf'], A['dw'], kk)
        ix = LDom.explicit(signed_list(w, kk))
        P = pat(8, kk)
        u = [[LDom.one(0xA5 & ((1 << (4 * dst)) - 1)), pdom, ix, LDom.explicit([P, P ^ ((1 << (8 * kk)) - 1)])]]
        ends = LDom.explicit([A['@buf'], A['@buf'] + (kk - 1) * A['dw']])
        for j in range(kk):
            u.append([LDom.one(0), ends, ix, LDom.cells(8, P, j, LDom.explicit(tv))])
        return u
    return mk(name, variant, w, 'hex', [call.format(d='@d', p='@p', ix='@ix')], pv, spec_of, udom_of, 'deref')


def nth_store_block(name, call, w, variant, src, md):
    kk = K
    pv = [ptr_var('hex', w), PV('ix', 'hex', w // 4), PV('s', 'hex', src), buf_var('hex')]

    def spec_of(A):
        return ('ptr_store_nth', [A['ww'], 8, md, A['@buf'], kk])

    def udom_of(A):
        pdom = LDom.addrs(A['@buf'], A['dw'], kk)
        ix = LDom.explicit(signed_list(w, kk))
        P = pat(8, kk)
        sall = LDom.rng(0, 16) if src == 1 else LDom.explicit(QBYTES if variant.get('full') else QBYTES[::3])
        ends = LDom.explicit([A['@buf'], A['@buf'] + (kk - 1) * A['dw']])
        u = [[pdom, ix, LDom.explicit([0x6, 0x9B & ((1 << (4 * src)) - 1)]), LDom.explicit([P, P ^ ((1 << (8 * kk)) - 1)])],
             [ends, ix, sall, LDom.explicit([P])]]
        return u
    return mk(name, variant, w, 'hex', [call.format(s='@s', p='@p', ix='@ix')], pv, spec_of, udom_of, 'deref')


def flip_block(name, call, w, variant, ns, spec):
    """[p; buf]  p over bit addresses (ptr_flip) or cell addresses (ptr_flip_dbit)"""
    cb = cb_of(ns)
    kk = K
    pv = [ptr_var(ns, w), buf_var(ns)]

    def spec_of(A):
        return (spec, [A['ww'], cb, A['@buf'], kk])

    def udom_of(A):
        P = pat(cb, kk)
        bvals = LDom.explicit([P, P ^ ((1 << (cb * kk)) - 1), 0])
        if spec == 'ptr_flip_bit':
            pd = LDom.explicit([A['@buf'] + i * A['dw'] + A['dbit'] + j for i in range(kk) for j in range(cb)])
        else:
            pd = LDom.addrs(A['@buf'], A['dw'], kk)
        return [[pd, bvals]]
    return mk(name, variant, w, ns, [call.format(p='@p')], pv, spec_of, udom_of, 'deref')


def wflip_block(name, call, w, variant, ns, off_w):
    """[p; buf] wflip of the constant c*dw through the pointer; buffer of byte cells in both namespaces"""
    kk = K
    c = variant['c']
    pv = [ptr_var(ns, w), PV('buf', 'byte', kk, straddle=True)]

    def spec_of(A):
        return ('ptr_wflip_cell', [A['ww'], 8, A['w'] if off_w else 0, A['@buf'], kk, c])

    def udom_of(A):
        P = pat(8, kk)
        base = A['@buf'] + (A['w'] if off_w else 0)
        return [[LDom.addrs(base, A['dw'], kk), LDom.explicit([P, P ^ ((1 << (8 * kk)) - 1), 0])]] + \
            ([] if not variant.get('full') else target_products([], [], 8, kk, True, LDom.addrs(base, A['dw'], kk)))
    return mk(name, variant, w, ns, [call.format(p='@p', c=c)], pv, spec_of, udom_of, 'deref')


def jump_block(name, call, w, variant, ns):
    kk = K
    pv = [ptr_var(ns, w, rel=('@x1',))]

    def spec_of(A):
        return ('ptr_jump_to', [A['@x1'], A['@x2'] - A['@x1'], kk])

    def udom_of(A):
        return [[LDom.addrs(A['@x1'], A['@x2'] - A['@x1'], kk)]]
    return mk(name, variant, w, ns, [call.format(p='@p')], pv, spec_of, udom_of, 'deref', exits=kk)


def setptr_block(name, call, w, variant, ns):
    """internal set_*_pointer macros: nothing but the global pointer cells changes, and they end up consistent"""
    pv = [ptr_var(ns, w, rel=('@buf',)), buf_var(ns)]

    def spec_of(A):
        return ('calls_keep', [])

    def udom_of(A):
        edges = [0, A['dw'], (1 << w) - A['dw'], 0x5A5A5A5A5A5A5A5A & ((1 << w) - 1), (1 << w) - 1]
        return [[LDom.addrs(A['@buf'], A['dw'], K), LDom.one(pat(cb_of(ns), K))], [LDom.explicit(edges), LDom.one(0)]]
    return mk(name, variant, w, ns, [call.format(p='@p')], pv, spec_of, udom_of, 'deref')


def arith_edges(A, w):
    dw = A['dw']
    m = (1 << w)
    ww = A['ww']
    vals = [0, dw, m - dw, m - 2 * dw, (1 << (ww + 5)) - dw, (1 << (ww + 9)) - dw, (1 << (w - 4)) - dw, (1 << (w - 1)),
            (0xA5A5A5A5A5A5A5A5 & (m - 1)) & ~(dw - 1), 7, m - 1]
    out = []
    for v in vals:
        if v not in out:
            out.append(v)
    return out


def arith_block(name, call, w, variant, ns, spec, on_sp=False, temps=()):
    c = variant.get('c')
    if on_sp:
        pv = [PV('sp', 'hex', w // 4, label='hex.pointers.sp', rel=('hex.pointers.stack',))]
    else:
        pv = [ptr_var(ns, w), buf_var(ns)]

    def spec_of(A):
        s = (spec, [A['ww']] + ([c] if c is not None else [1]))
        return s if on_sp else ('seq', [([0], s)])

    def udom_of(A):
        if on_sp:
            st = A['hex.pointers.stack']
            return [[LDom.explicit([st + i * A['dw'] for i in range(0, 6)] + arith_edges(A, w)[:6])]]
        return [[LDom.addrs(A['@buf'], A['dw'], K), LDom.one(pat(cb_of(ns), K))], [LDom.explicit(arith_edges(A, w)), LDom.one(0)]]
    b = mk(name, variant, w, ns, [call.format(p='@p', c=c)], pv, spec_of, udom_of, 'arith', temps=temps)
    if spec == 'ptr_sub_c' and c == 0:
        # REGRESSION PROBE of finding F27 (fixed in the repo): hex.sub_constant n, dst, 0 did not assemble (negative shift count), so
        # hex.ptr_sub p, 0 / hex.sp_sub 0 / stl.call f, 0 did not either, while the add twins are no-ops.  The instances are ordinary
        # theorem blocks; should the assembly fail with this error again it is reported under this signature, not as a broken tie.
        b.asm_defect = ({'kind': 'stl-asm', 'macro': 'hex.sub_constant', 'defect': 'zero-constant'}, 'negative shift count')
    return b


def index_block(name, w, variant):
    pv = [PV('d', 'hex', w // 4), ptr_var('hex', w), PV('ix', 'hex', w // 4), buf_var('hex')]

    def spec_of(A):
        return ('seq', [([0, 1, 2], ('ptr_index_of', [A['ww']]))])

    def udom_of(A):
        m = 1 << w
        ix = signed_list(w, K, extra=(255, -256, (m >> 1) - 1, -(m >> 1), 1 << (w - A['ww'] - 2)))
        return [[LDom.one(0x5A5A5A5A5A5A5A5A & (m - 1)), LDom.addrs(A['@buf'], A['dw'], K), LDom.explicit(ix), LDom.one(pat(8, K))],
                [LDom.one(0), LDom.explicit(arith_edges(A, w)), LDom.explicit(signed_list(w, 2, extra=(1 << (w - 1),))), LDom.one(0)]]
    return mk(name, variant, w, 'hex', ['hex.ptr_index @d, @p, @ix'], pv, spec_of, udom_of, 'arith')


def getsp_block(name, w, variant):
    pv = [PV('d', 'hex', w // 4), PV('sp', 'hex', w // 4, label='hex.pointers.sp', rel=('hex.pointers.stack',))]

    def spec_of(A):
        return ('ptr_get', [])

    def udom_of(A):
        st = A['hex.pointers.stack']
        return [[LDom.explicit([0, (1 << w) - 1]), LDom.explicit([st + i * A['dw'] for i in range(0, 4)] + arith_edges(A, w)[:5])]]
    return mk(name, variant, w, 'hex', ['stl.get_sp @d'], pv, spec_of, udom_of, 'arith')


# ---------------------------------------------------------------------------------------------------------
# ordered pairs of dereferences through two pointers

PAIRS = {
    # name: (code lines, variables, [(positions, spec name, extra args builder)])
    'read_byte;write_byte': (['hex.read_byte @d, @p', 'hex.write_byte @q, @d'], 'dpqB',
                             [([0, 1, 3], 'ptr_load', 256), ([2, 0, 3], 'ptr_store', 256)]),
    'write_byte;read_byte': (['hex.write_byte @p, @s', 'hex.read_byte @d, @q'], 'spdqB',
                             [([1, 0, 4], 'ptr_store', 256), ([2, 3, 4], 'ptr_load', 256)]),
    'write_hex;read_hex': (['hex.write_hex @p, @h', 'hex.read_hex @e, @q'], 'hpeqB',
                           [([1, 0, 4], 'ptr_store', 16), ([2, 3, 4], 'ptr_load', 16)]),
    'xor_byte_to_ptr;xor_byte_from_ptr': (['hex.xor_byte_to_ptr @p, @s', 'hex.xor_byte_from_ptr @d, @q'], 'spdqB',
                                          [([1, 0, 4], 'ptr_xor_store', None), ([2, 3, 4], 'ptr_xor_load', 256)]),
    'ptr_flip_dbit;read_hex': (['hex.ptr_flip_dbit @p', 'hex.read_hex @e, @q'], 'peqB',
                               [([0, 3], 'ptr_flip_dbit', None), ([1, 2, 3], 'ptr_load', 16)]),
    'ptr_flip_dbit;xor_hex_to_ptr': (['hex.ptr_flip_dbit @p', 'hex.xor_hex_to_ptr @q, @h'], 'pqhB',
                                     [([0, 3], 'ptr_flip_dbit', None), ([1, 2, 3], 'ptr_xor_store', None)]),
    'read_hex;ptr_flip_dbit': (['hex.read_hex @e, @p', 'hex.ptr_flip_dbit @q'], 'epqB',
                               [([0, 1, 3], 'ptr_load', 16), ([2, 3], 'ptr_flip_dbit', None)]),
}


def pair_block(name, w, variant):
    code, vs, parts = PAIRS[name]
    decl = {'d': PV('d', 'hex', 2), 's': PV('s', 'hex', 2), 'h': PV('h', 'hex', 1), 'e': PV('e', 'hex', 1),
            'p': ptr_var('hex', w, 'p'), 'q': ptr_var('hex', w, 'q'), 'B': buf_var('hex')}
    pv = [decl[c] for c in vs]

    def spec_of(A):
        out = []
        for idx, sn, md in parts:
            args = [A['ww'], 8] + ([md] if md is not None else []) + [A['@buf'], K]
            out.append((idx, (sn, args)))
        return ('seq', out)

    def udom_of(A):
        P = pat(8, K)
        pd = LDom.addrs(A['@buf'], A['dw'], K)
        d = {'d': LDom.explicit([0xA5]), 's': LDom.explicit([0x00, 0x6B, 0xFF]), 'h': LDom.explicit([0x0, 0x6, 0xF]),
             'e': LDom.explicit([0x9]), 'p': pd, 'q': pd, 'B': LDom.explicit([P, P ^ ((1 << (8 * K)) - 1)])}
        return [[d[c] for c in vs]]
    return mk('pair ' + name, variant, w, 'hex', code, pv, spec_of, udom_of, 'ptrpair', title=f'{name}  (two pointers, all address pairs)')


# ---------------------------------------------------------------------------------------------------------
# the stack: balanced push/pop words

def dyck_shapes(m):
    """all balanced sequences of m pushes ('(') and m pops (')')"""
    out = []

    def rec(s, op, cl):
        if len(s) == 2 * m:
            out.append(s)
            return
        if op < m:
            rec(s + '(', op + 1, cl)
        if cl < op:
            rec(s + ')', op, cl + 1)
    rec('', 0, 0)
    return out


KINDS = {'h': ('Hex', 'hex', 1, 1), 'b': ('Byte', 'hex', 2, 1), 'v': (('Vec', 3), 'hex', 3, 2)}   # coq kind, var kind, digits, cells


def stack_words(m):
    """(shape, kinds of the pushes) for every Dyck shape of m pairs and every kind assignment"""
    return [(s, ''.join(ks)) for s in dyck_shapes(m) for ks in itertools.product('hbv', repeat=m)]


def stack_block(w, variant, ns='hex'):
    shape, kinds = variant['shape'], variant['kinds']
    m = len(kinds)
    full = variant.get('full', False)
    code, ops, pv = [], [], []
    stk = []
    depth = maxdepth = 0
    pi = 0
    npop = 0
    for ch in shape:
        if ch == '(':
            k = kinds[pi]
            ck, vk, dg, cells = KINDS[k]
            code.append({'h': 'hex.push_hex @s%d', 'b': 'hex.push_byte @s%d', 'v': 'hex.push 3, @s%d'}[k] % pi)
            ops.append(('Push', ck, f'{pi}%nat'))
            stk.append(k)
            depth += cells
            maxdepth = max(maxdepth, depth)
            pi += 1
        else:
            k = stk.pop()
            ck, vk, dg, cells = KINDS[k]
            code.append({'h': 'hex.pop_hex @d%d', 'b': 'hex.pop_byte @d%d', 'v': 'hex.pop 3, @d%d'}[k] % npop)
            ops.append(('Pop', ck, f'{m + npop}%nat'))
            depth -= cells
            npop += 1
    # variables: sources in push order, destinations in pop order, sp, the stack cells
    popk = []
    stk = []
    pi = 0
    for ch in shape:
        if ch == '(':
            stk.append(kinds[pi])
            pi += 1
        else:
            popk.append(stk.pop())
    pv = [PV(f's{i}', 'hex', KINDS[k][2]) for i, k in enumerate(kinds)] + [PV(f'd{i}', 'hex', KINDS[k][2]) for i, k in enumerate(popk)]
    pv.append(PV('sp', 'hex', w // 4, label='hex.pointers.sp', rel=('hex.pointers.stack',)))
    pv.append(PV('stk', 'byte', maxdepth, label='hex.pointers.stack', op_off=1))
    fixed = [0x6, 0x9, 0x3, 0xC]
    fixedb = [0xB7, 0x4E, 0xD2, 0x81]
    fixedv = [0x5C3, 0xA69, 0x17E, 0xE08]

    def spec_of(A):
        return ('stack_word', [ops])

    def udom_of(A):
        st = A['hex.pointers.stack']
        garb = sum((0xE7 ^ (0x11 * i)) << (8 * i) for i in range(maxdepth))
        tailp = [LDom.one(st), LDom.explicit([0, garb])]
        dsts = [LDom.one({'h': 0xA, 'b': 0x5A, 'v': 0xA5A}[k]) for k in popk]
        u = []
        for j in range(m):
            srcs = []
            for i, k in enumerate(kinds):
                if i == j:
                    srcs.append({'h': LDom.rng(0, 16), 'b': LDom.rng(0, 256) if full else LDom.explicit(QBYTES),
                                 'v': LDom.rng(0, 4096) if (full and m == 1) else
                                 LDom.explicit([0, 0xFFF, 0x5A3, 0xA5C, 0x123, 0xFED, 0x800, 0x001, 0x0F0, 0xF0F])}[k])
                else:
                    srcs.append(LDom.one({'h': fixed, 'b': fixedb, 'v': fixedv}[k][i % 4]))
            u.append(srcs + dsts + tailp)
        return u
    if 'cap' in variant:
        assert maxdepth <= variant['cap'], (shape, kinds, maxdepth)     # the documentation leaves overflow undefined ("@Assumes: stack has room")
    ctag = f'cap{variant["cap"]}_' if 'cap' in variant else ''
    return mk('stack', dict(variant, tag=f'{ctag}{shape.replace("(", "U").replace(")", "D")}_{kinds}'), w, ns, code, pv, spec_of, udom_of,
              'stack', scratch_ops=[('hex.pointers.stack', 1, maxdepth, 'byte')],
              title='stack word ' + ' ; '.join(c.replace('@', '') for c in code))


# ---------------------------------------------------------------------------------------------------------
# call trees

def forests(n):
    """all ordered forests with n nodes, as nested lists"""
    if n == 0:
        return [[]]
    out = []
    for first in range(1, n + 1):
        for sub in forests(first - 1):
            for rest in forests(n - first):
                out.append([sub] + rest)
    return out


def tree_program(forest, convs):
    """forest of distinct sub-routine instances -> (main body, function bodies, conventions); each node prints a marker on entry
    and on exit.  convs: string over 'c' (stl.call), 'f' (stl.fcall), 'p' (stl.call with 2 stack parameters)"""
    fs, conv = [], []
    counter = [0]

    def node(children):
        i = len(fs)
        fs.append(None)
        conv.append(convs[i % len(convs)])
        body = [('Mark', 0x61 + i)]
        for ch in children:
            body.append(node(ch))
        body.append(('Mark', 0x41 + i))
        fs[i] = body
        counter[0] += 1
        return _call_item(conv[i], i)
    main = [('Mark', 0x30)]
    for t in forest:
        main.append(node(t))
        main.append(('Mark', 0x2E))
    return main, fs, conv


def _call_item(cv, i):
    return {'c': ('Call', i), 'f': ('FCall', i), 'p': ('CallP', i, 2)}[cv]


SHARED = {
    # hand-written programs with SHARED sub-routines (the same function entered from several call sites)
    'twice': ([('Mark', 0x30), ('Call', 0), ('Mark', 0x31), ('Call', 0), ('Mark', 0x32)], [[('Mark', 0x61)]], 'c'),
    'ftwice': ([('Mark', 0x30), ('FCall', 0), ('Mark', 0x31), ('FCall', 0), ('Mark', 0x32)], [[('Mark', 0x61)]], 'f'),
    'diamond': ([('Call', 0), ('Mark', 0x2E), ('Call', 1), ('Mark', 0x2E)],
                [[('Mark', 0x61), ('Call', 2), ('Mark', 0x41)], [('Mark', 0x62), ('Call', 2), ('Call', 2), ('Mark', 0x42)], [('Mark', 0x63)]], 'ccc'),
    'chain5': ([('Call', 0), ('Mark', 0x2E)],
               [[('Mark', 0x61), ('Call', 1), ('Mark', 0x41)], [('Mark', 0x62), ('FCall', 2), ('Mark', 0x42)],
                [('Mark', 0x63), ('Call', 3), ('Mark', 0x43)], [('Mark', 0x64), ('CallP', 4, 2), ('Mark', 0x44)], [('Mark', 0x65)]], 'ccfcp'),
    'mixed': ([('FCall', 0), ('Call', 1), ('FCall', 0), ('Mark', 0x2E)],
              [[('Mark', 0x61), ('Call', 1), ('Mark', 0x41)], [('Mark', 0x62)]], 'fc'),
    'params': ([('CallP', 0, 2), ('Mark', 0x2E), ('CallP', 0, 2), ('Mark', 0x2E)], [[('Mark', 0x61), ('Call', 1)], [('Mark', 0x62)]], 'pc'),
    # nestings whose maximal stack depth is exactly 5 / 4 cells (return addresses and pushed parameters): run with a stack of capacity 5
    'deep5': ([('Call', 0), ('Mark', 0x2E)],
              [[('Mark', 0x61), ('Call', 1), ('Mark', 0x41)], [('Mark', 0x62), ('Call', 2), ('Mark', 0x42)],
               [('Mark', 0x63), ('Call', 3), ('Mark', 0x43)], [('Mark', 0x64), ('Call', 4), ('Mark', 0x44)], [('Mark', 0x65)]], 'ccccc'),
    'deep4': ([('Call', 0), ('Mark', 0x2E), ('Call', 3), ('Mark', 0x2E)],
              [[('Mark', 0x61), ('Call', 1), ('Mark', 0x41)], [('Mark', 0x62), ('Call', 2), ('Mark', 0x42)],
               [('Mark', 0x63), ('Call', 3), ('Mark', 0x43)], [('Mark', 0x64)]], 'cccc'),
    'deep3p2': ([('Call', 0), ('Mark', 0x2E)],
                [[('Mark', 0x61), ('FCall', 1), ('Mark', 0x41)], [('Mark', 0x62), ('Call', 2), ('Mark', 0x42)],
                 [('Mark', 0x63), ('CallP', 3, 2), ('Mark', 0x43)], [('Mark', 0x64)]], 'cfcp'),
    # stl.call f, 0 = call + hex.sp_sub 0: did not assemble before the fix of hex.sub_constant (F27); regression probe
    'params0': ([('CallP', 0, 0), ('Mark', 0x2E), ('CallP', 0, 3), ('Mark', 0x2E)], [[('Mark', 0x61)]], 'p'),
}


def calls_block(w, variant, ns='hex'):
    if 'shared' in variant:
        main, fs, conv = SHARED[variant['shared']]
        tag = (f'cap{variant["cap"]}_' if 'cap' in variant else '') + variant['shared']
    else:
        forest = forests(variant['n'])[variant['i']]
        main, fs, conv = tree_program(forest, variant['conv'])
        tag = f'n{variant["n"]}_{variant["i"]}_{variant["conv"]}'
    conv = list(conv)

    def emit(body, lines):
        for it in body:
            if it[0] == 'Mark':
                lines.append(f'stl.output_char {it[1]}')
            elif it[0] == 'Call':
                lines.append(f'stl.call @f{it[1]}')
            elif it[0] == 'FCall':
                lines.append(f'stl.fcall @f{it[1]}, @r{it[1]}')
            else:
                lines += [('hex.push_hex @a', 'hex.push_byte @a')[j % 2] for j in range(it[2])] + [f'stl.call @f{it[1]}, {it[2]}']
    code = []
    emit(main, code)
    tail = []
    for i, body in enumerate(fs):
        tail.append(f'@f{i}:')
        ls = []
        emit(body, ls)
        tail += ['    ' + x for x in ls]
        tail.append('    stl.fret @r%d' % i if conv[i] == 'f' else '    stl.return')
    for i, cv in enumerate(conv):
        if cv == 'f':
            tail.append(f'@r{i}: bit.bit')
    trace = SP.call_trace(16, fs, main)
    depth = variant.get('cap', 8)       # stack cells treated as operand + scratch: never beyond the declared capacity
    pv = [PV('a', 'hex', 2), PV('sp', 'hex', w // 4, label='hex.pointers.sp', rel=('hex.pointers.stack',)),
          PV('stk', 'byte', depth, label='hex.pointers.stack', op_off=1)]

    def item_coq(it):
        if it[0] == 'Mark':
            return ('Mark', it[1])
        if it[0] == 'CallP':
            return ('CallP', f'{it[1]}%nat', it[2])
        return (it[0], f'{it[1]}%nat')
    fs_coq = SP.coq_arg([[item_coq(it) for it in body] for body in fs])
    main_coq = SP.coq_arg([item_coq(it) for it in main])

    def spec_of(A):
        return ('calls_keep', [])

    def udom_of(A):
        st = A['hex.pointers.stack']
        garb = sum((0xE7 ^ (0x11 * i)) << (8 * i) for i in range(depth))
        return [[LDom.explicit([0x00, 0xB7]), LDom.one(st), LDom.explicit([0, garb])]]

    def trace_thm(b, tn):
        return (f'(* the marker sequence of exit 0 is the trace of the abstract call tree *)\n'
                f'Example {tn}_trace : map snd (b_exits b{b.k}) = [call_trace 16 {fs_coq} {main_coq}].\n'
                f'Proof. vm_compute. reflexivity. Qed.')
    b = mk('calls', dict(variant, tag=tag), w, ns, code, pv, spec_of, udom_of, 'calls', tail=tail, markers=[trace],
           scratch_ops=[('hex.pointers.stack', 1, depth, 'byte')], extra_thm=[trace_thm],
           title=f'call tree {tag}: main = {main_coq}; functions = {fs_coq} (conventions {"".join(conv)})')
    if any(it[0] == 'CallP' and it[2] == 0 for body in [main] + list(fs) for it in body):
        b.asm_defect = ({'kind': 'stl-asm', 'macro': 'hex.sub_constant', 'defect': 'zero-constant'}, 'negative shift count')
    return b


# ---------------------------------------------------------------------------------------------------------
# the table

RP, WP, XF, XT, BP, PA, ST, PL, BT = ('hex/pointers/read_pointers.fj', 'hex/pointers/write_pointers.fj', 'hex/pointers/xor_from_pointer.fj',
                                      'hex/pointers/xor_to_pointer.fj', 'hex/pointers/basic_pointers.fj',
                                      'hex/pointers/pointer_arithmetics.fj', 'hex/pointers/stack.fj', 'ptrlib.fj', 'bit/pointers.fj')
TABLE = []
BUILDERS = {}


def E(name, file, sig, make, variants, ns='hex', spec_name=None, note=None, qw=(64,)):
    """make(w, variant) -> PBlock ; variants(tier, w) -> [variant dict].
    qw: the widths the quick tier builds this entry at; a seed-chosen 15% of the entries get the other widths too"""
    BUILDERS[name] = lambda w, _m=make, **variant: _m(w, variant)

    def build(ctx, w):
        if ctx.tier == 'quick' and w not in qw and w != 16:
            if not hasattr(ctx, 'c08_extra'):
                names = sorted(e['name'] for e in TABLE if e.get('qw'))
                ctx.c08_extra = set(ctx.rng.sample(names, max(1, round(0.15 * len(names)))))
            if name not in ctx.c08_extra:
                return []
        out = []
        for v in variants(ctx.tier, w):
            b = make(w, dict(v))
            b.builder = (name, dict(v))       # replays rebuild the block through BUILDERS[name]
            out.append(b)
        return out
    TABLE.append(dict(name=name, ns=ns, file=file, sig=sig, build=build, spec_name=spec_name, note=note, qw=qw))


def V1(tier, w):
    return [{'full': tier == 'thorough'}]


def V0(tier, w):
    return [{}]


def VN(*ns):
    return lambda tier, w: [{'n': n, 'full': False} for n in (ns if tier == 'thorough' else ns[:1])]


def VC(quick, thorough):
    return lambda tier, w: [{'c': c} for c in (thorough if tier == 'thorough' else quick)]


def L(name, call, **kw):
    return lambda w, v: load_block(name, call, w, v, **kw)


def S(name, call, **kw):
    return lambda w, v: store_block(name, call, w, v, **kw)


# ---- read_pointers.fj
E('hex.read_hex', RP, 'def read_hex dst, ptr', L('hex.read_hex', 'hex.read_hex {d}, {p}', md=16), V1, spec_name='ptr_load (md 16)')
E('hex.read_byte', RP, 'def read_byte dst, ptr', L('hex.read_byte', 'hex.read_byte {d}, {p}', dst=('hex', 2), md=256, dvals=(0xA5,)), V1,
  spec_name='ptr_load (md 256)')
E('hex.read_hex_and_inc', RP, 'def read_hex_and_inc dst, ptr',
  L('hex.read_hex_and_inc', 'hex.read_hex_and_inc {d}, {p}', spec='ptr_load_inc', md=16), V1, spec_name='ptr_load_inc')
E('hex.read_byte_and_inc', RP, 'def read_byte_and_inc dst, ptr',
  L('hex.read_byte_and_inc', 'hex.read_byte_and_inc {d}, {p}', dst=('hex', 2), spec='ptr_load_inc', md=256, dvals=(0xA5,)), V1,
  spec_name='ptr_load_inc')
E('hex.read_hex/n', RP, 'def read_hex n, dst, ptr',
  lambda w, v: load_block('hex.read_hex/n', 'hex.read_hex {n}, {d}, {p}', w, v, dst=('hex', v['n']), spec='ptr_load_n', md=16, n=v['n'],
                          db=4, dvals=(0xA5A,)), VN(2, 3), spec_name='ptr_load_n (md 16, db 4)')
E('hex.read_byte/n', RP, 'def read_byte n, dst, ptr',
  lambda w, v: load_block('hex.read_byte/n', 'hex.read_byte {n}, {d}, {p}', w, v, dst=('hex', 2 * v['n']), spec='ptr_load_n', md=256,
                          n=v['n'], db=8, dvals=(0xA5A5A5,)), VN(2, 3), spec_name='ptr_load_n (md 256, db 8)')
E('hex.read_nth_hex', RP, 'def read_nth_hex dst, ptr, index',
  lambda w, v: nth_load_block('hex.read_nth_hex', 'hex.read_nth_hex {d}, {p}, {ix}', w, v, 1, 16), V1, spec_name='ptr_load_nth')
E('hex.read_nth_byte', RP, 'def read_nth_byte dst, ptr, index',
  lambda w, v: nth_load_block('hex.read_nth_byte', 'hex.read_nth_byte {d}, {p}, {ix}', w, v, 2, 256), V1, spec_name='ptr_load_nth')
# ---- write_pointers.fj
E('hex.write_hex', WP, 'def write_hex ptr, src', S('hex.write_hex', 'hex.write_hex {p}, {s}', md=16), V1, spec_name='ptr_store (md 16)')
E('hex.write_byte', WP, 'def write_byte ptr, src', S('hex.write_byte', 'hex.write_byte {p}, {s}', src=('hex', 2), md=256), V1,
  spec_name='ptr_store (md 256)')
E('hex.zero_ptr', WP, 'def zero_ptr ptr', S('hex.zero_ptr', 'hex.zero_ptr {p}', spec='ptr_zero', has_src=False), V1, spec_name='ptr_zero')
E('hex.write_hex_and_inc', WP, 'def write_hex_and_inc ptr, src',
  S('hex.write_hex_and_inc', 'hex.write_hex_and_inc {p}, {s}', spec='ptr_store_inc', md=16), V1, spec_name='ptr_store_inc')
E('hex.write_byte_and_inc', WP, 'def write_byte_and_inc ptr, src',
  S('hex.write_byte_and_inc', 'hex.write_byte_and_inc {p}, {s}', src=('hex', 2), spec='ptr_store_inc', md=256), V1, spec_name='ptr_store_inc')
E('hex.write_hex/n', WP, 'def write_hex n, ptr, src',
  lambda w, v: store_block('hex.write_hex/n', 'hex.write_hex {n}, {p}, {s}', w, v, src=('hex', v['n']), spec='ptr_store_n', md=16,
                           n=v['n'], db=4), VN(2, 3), spec_name='ptr_store_n (md 16, db 4)')
E('hex.write_byte/n', WP, 'def write_byte n, ptr, src',
  lambda w, v: store_block('hex.write_byte/n', 'hex.write_byte {n}, {p}, {s}', w, v, src=('hex', 2 * v['n']), spec='ptr_store_n', md=256,
                           n=v['n'], db=8), VN(2, 3), spec_name='ptr_store_n (md 256, db 8)')
E('hex.write_nth_hex', WP, 'def write_nth_hex ptr, index, src',
  lambda w, v: nth_store_block('hex.write_nth_hex', 'hex.write_nth_hex {p}, {ix}, {s}', w, v, 1, 16), V1, spec_name='ptr_store_nth')
E('hex.write_nth_byte', WP, 'def write_nth_byte ptr, index, src',
  lambda w, v: nth_store_block('hex.write_nth_byte', 'hex.write_nth_byte {p}, {ix}, {s}', w, v, 2, 256), V1, spec_name='ptr_store_nth')
# ---- xor_from_pointer.fj
E('hex.xor_hex_from_ptr', XF, 'def xor_hex_from_ptr dst, ptr',
  L('hex.xor_hex_from_ptr', 'hex.xor_hex_from_ptr {d}, {p}', spec='ptr_xor_load', md=16, dvals=(0x0, 0x6, 0xF)), V1, spec_name='ptr_xor_load')
E('hex.xor_byte_from_ptr', XF, 'def xor_byte_from_ptr dst, ptr',
  L('hex.xor_byte_from_ptr', 'hex.xor_byte_from_ptr {d}, {p}', dst=('hex', 2), spec='ptr_xor_load', md=256, dvals=(0x00, 0x6B, 0xFF)), V1,
  spec_name='ptr_xor_load')
# ---- xor_to_pointer.fj
E('hex.ptr_flip', XT, 'def ptr_flip ptr', lambda w, v: flip_block('hex.ptr_flip', 'hex.ptr_flip {p}', w, v, 'hex', 'ptr_flip_bit'), V0,
  spec_name='ptr_flip_bit')
E('hex.ptr_flip_dbit', XT, 'def ptr_flip_dbit ptr',
  lambda w, v: flip_block('hex.ptr_flip_dbit', 'hex.ptr_flip_dbit {p}', w, v, 'hex', 'ptr_flip_dbit'), V0, spec_name='ptr_flip_dbit')
E('hex.xor_hex_to_ptr', XT, 'def xor_hex_to_ptr ptr, hex', S('hex.xor_hex_to_ptr', 'hex.xor_hex_to_ptr {p}, {s}', spec='ptr_xor_store'), V1,
  spec_name='ptr_xor_store')
E('hex.xor_byte_to_ptr', XT, 'def xor_byte_to_ptr ptr, hex',
  S('hex.xor_byte_to_ptr', 'hex.xor_byte_to_ptr {p}, {s}', src=('hex', 2), spec='ptr_xor_store'), V1, spec_name='ptr_xor_store')
E('hex.xor_hex_to_ptr/n', XT, 'def xor_hex_to_ptr n, ptr, hex',
  lambda w, v: store_block('hex.xor_hex_to_ptr/n', 'hex.xor_hex_to_ptr {n}, {p}, {s}', w, v, src=('hex', v['n']), spec='ptr_xor_store_n',
                           n=v['n'], db=4), VN(2, 3), spec_name='ptr_xor_store_n (db 4)')
E('hex.xor_byte_to_ptr/n', XT, 'def xor_byte_to_ptr n, ptr, hex',
  lambda w, v: store_block('hex.xor_byte_to_ptr/n', 'hex.xor_byte_to_ptr {n}, {p}, {s}', w, v, src=('hex', 2 * v['n']),
                           spec='ptr_xor_store_n', n=v['n'], db=8), VN(2, 3), spec_name='ptr_xor_store_n (db 8)')
E('hex.ptr_wflip', XT, 'def ptr_wflip ptr, value',
  lambda w, v: wflip_block('hex.ptr_wflip', 'hex.ptr_wflip {p}, {c}*dw', w, v, 'hex', True), VC([0x6B], [0x00, 0x01, 0x6B, 0x80, 0xFF]),
  spec_name='ptr_wflip_cell (off w)')
E('hex.ptr_wflip_2nd_word', XT, 'def ptr_wflip_2nd_word ptr, value',
  lambda w, v: wflip_block('hex.ptr_wflip_2nd_word', 'hex.ptr_wflip_2nd_word {p}, {c}*dw', w, v, 'hex', False),
  VC([0x94], [0x00, 0x94, 0xFF]), spec_name='ptr_wflip_cell (off 0)')
# ---- basic_pointers.fj
E('hex.ptr_jump', BP, 'def ptr_jump ptr', lambda w, v: jump_block('hex.ptr_jump', 'hex.ptr_jump {p}', w, v, 'hex'), V0, spec_name='ptr_jump_to')
E('hex.pointers.set_flip_pointer', BP, 'def set_flip_pointer ptr',
  lambda w, v: setptr_block('hex.pointers.set_flip_pointer', 'hex.pointers.set_flip_pointer {p}', w, v, 'hex'), V0,
  spec_name='calls_keep + consistency', note='internal: only the global pointer cells change and they end up consistent')
E('hex.pointers.set_jump_pointer', BP, 'def set_jump_pointer ptr',
  lambda w, v: setptr_block('hex.pointers.set_jump_pointer', 'hex.pointers.set_jump_pointer {p}', w, v, 'hex'), V0,
  spec_name='calls_keep + consistency')
E('hex.pointers.set_flip_and_jump_pointers', BP, 'def set_flip_and_jump_pointers ptr',
  lambda w, v: setptr_block('hex.pointers.set_flip_and_jump_pointers', 'hex.pointers.set_flip_and_jump_pointers {p}', w, v, 'hex'), V0,
  spec_name='calls_keep + consistency')
# ---- pointer_arithmetics.fj
E('hex.ptr_inc', PA, 'def ptr_inc ptr', lambda w, v: arith_block('hex.ptr_inc', 'hex.ptr_inc {p}', w, v, 'hex', 'ptr_add_c'), V0,
  spec_name='ptr_add_c 1')
E('hex.ptr_dec', PA, 'def ptr_dec ptr', lambda w, v: arith_block('hex.ptr_dec', 'hex.ptr_dec {p}', w, v, 'hex', 'ptr_sub_c'), V0,
  spec_name='ptr_sub_c 1')
E('hex.ptr_add', PA, 'def ptr_add ptr, value', lambda w, v: arith_block('hex.ptr_add', 'hex.ptr_add {p}, {c}', w, v, 'hex', 'ptr_add_c'),
  VC([3], [0, 1, 3, 16, 255, 1000]), spec_name='ptr_add_c')
E('hex.ptr_sub', PA, 'def ptr_sub ptr, value', lambda w, v: arith_block('hex.ptr_sub', 'hex.ptr_sub {p}, {c}', w, v, 'hex', 'ptr_sub_c'),
  VC([0, 3], [0, 1, 3, 16, 255, 1000]), spec_name='ptr_sub_c')
E('hex.ptr_index', PA, 'def ptr_index dst, ptr, index', lambda w, v: index_block('hex.ptr_index', w, v), V0, spec_name='ptr_index_of')
# ---- stack.fj
E('hex.sp_inc', ST, 'def sp_inc', lambda w, v: arith_block('hex.sp_inc', 'hex.sp_inc', w, v, 'hex', 'ptr_add_c', on_sp=True), V0,
  spec_name='ptr_add_c 1 on sp')
E('hex.sp_dec', ST, 'def sp_dec', lambda w, v: arith_block('hex.sp_dec', 'hex.sp_dec', w, v, 'hex', 'ptr_sub_c', on_sp=True), V0,
  spec_name='ptr_sub_c 1 on sp')
E('hex.sp_add', ST, 'def sp_add value', lambda w, v: arith_block('hex.sp_add', 'hex.sp_add {c}', w, v, 'hex', 'ptr_add_c', on_sp=True),
  VC([2], [0, 2, 17]), spec_name='ptr_add_c on sp')
E('hex.sp_sub', ST, 'def sp_sub value', lambda w, v: arith_block('hex.sp_sub', 'hex.sp_sub {c}', w, v, 'hex', 'ptr_sub_c', on_sp=True),
  VC([0, 2], [0, 2, 17]), spec_name='ptr_sub_c on sp')
E('stl.get_sp', PL, 'def get_sp dst', lambda w, v: getsp_block('stl.get_sp', w, v), V0, spec_name='ptr_get')


def stack_variants(tier, w):
    """quick: every word of length <= 4 (w=64: length 2 only + the all-kinds length-4 nestings), two longer seed-independent ones;
    thorough: every word of length <= 6, and for length 8 every shape with a covering set of kind assignments"""
    out = []
    if tier == 'quick':
        for s, ks in stack_words(1):
            out.append({'shape': s, 'kinds': ks, 'full': False})
        if w == 32:
            for s, ks in stack_words(2):
                if ks in ('hb', 'bv', 'vh'):
                    out.append({'shape': s, 'kinds': ks, 'full': False})
            out.append({'shape': '(()())', 'kinds': 'bhv', 'full': False})
            out.append({'shape': '(()(()))', 'kinds': 'hbhb', 'full': False})
        return out
    for m in (1, 2, 3):
        for s, ks in stack_words(m):
            if w == 32 or m <= 2:
                out.append({'shape': s, 'kinds': ks, 'full': m <= 2})
    cover = ['hhhh', 'bbbb', 'hbvh', 'bvhb', 'vhbv', 'hvbb']
    for i, s in enumerate(dyck_shapes(4)):
        for ks in (cover if w == 32 else cover[2 + i % 3:3 + i % 3]):
            out.append({'shape': s, 'kinds': ks, 'full': False})
    return out


E('stack push/pop words', ST, 'def push_hex hex', lambda w, v: stack_block(w, v), stack_variants, spec_name='stack_word', qw=(32, 64),
  note='hex.push_hex / pop_hex / push_byte / pop_byte / push n / pop n: balanced words, abstract LIFO stack, sp restored')
for _nm, _sig in (('hex.pop_hex', 'def pop_hex hex'), ('hex.push_byte', 'def push_byte byte'), ('hex.pop_byte', 'def pop_byte byte'),
                  ('hex.push', 'def push n, hex'), ('hex.pop', 'def pop n, hex')):
    TABLE.append(dict(name=_nm, ns='hex', file=ST, sig=_sig, build=lambda ctx, w: [], spec_name='stack_word',
                      note='covered by the blocks of "stack push/pop words"'))


def calls_variants(tier, w):
    if tier == 'quick':
        if w == 64:
            return [{'shared': 'twice'}, {'n': 2, 'i': 1, 'conv': 'cf'}]
        return [{'shared': k} for k in ('twice', 'ftwice', 'diamond', 'chain5', 'params0')] + \
               [{'n': 1, 'i': 0, 'conv': 'p'}, {'n': 2, 'i': 0, 'conv': 'fc'}, {'n': 2, 'i': 1, 'conv': 'cf'}]
    out = [{'shared': k} for k in SHARED]
    for n in (1, 2, 3):
        for i, _ in enumerate(forests(n)):
            for cv in ['c', 'f', 'p', 'cf', 'fc', 'pc', 'cp', 'fp']:
                if len(cv) > n:
                    continue
                if w == 64 and n == 3 and cv not in ('cf', 'pc'):
                    continue
                out.append({'n': n, 'i': i, 'conv': cv})
    if w == 32:
        for i, _ in enumerate(forests(4)):
            out.append({'n': 4, 'i': i, 'conv': ['cfp', 'fcc', 'pfc'][i % 3]})
    return out


E('calls', PL, 'def call address @ return_label', lambda w, v: calls_block(w, v), calls_variants, spec_name='calls_keep + call_trace', qw=(32, 64),
  note='stl.call / stl.call with stack parameters / stl.return / stl.fcall / stl.fret, hex.push_ret_address / pop_ret_address')
for _nm, _file, _sig in (('stl.call/params', PL, 'def call address, params_stack_length @ return_label'), ('stl.return', PL, 'def return'),
                         ('stl.fcall', PL, 'def fcall label, ret_reg @ ret'), ('stl.fret', PL, 'def fret ret_reg'),
                         ('hex.push_ret_address', ST, 'def push_ret_address return_address'),
                         ('hex.pop_ret_address', ST, 'def pop_ret_address return_address')):
    TABLE.append(dict(name=_nm, ns='hex', file=_file, sig=_sig, build=lambda ctx, w: [], spec_name='call_trace',
                      note='covered by the blocks of "calls"'))

# ---- the stack filled up to EXACTLY its declared capacity (image group with `stl.startup_and_init_all 5`: stack_init 5)
CAP = 5
NEST = lambda m: '(' * m + ')' * m   # noqa: E731


def cap_stack_variants(tier, w):
    """maximal depth in cells = CAP (hexes, bytes, vectors: a vector of 3 hexes takes 2 cells) and CAP-1; overflow (CAP+1) is left out:
    the documentation leaves it undefined (stack.fj / ptrlib.fj: "@Assumes: stack has room (caller-side responsibility)")"""
    if tier == 'quick':
        ws = {32: [(NEST(5), 'hhhhh'), (NEST(3), 'vvh'), (NEST(4), 'bbbb')], 64: [(NEST(5), 'bbbbb')]}[w]
    else:
        ws = [(NEST(5), 'hhhhh'), (NEST(5), 'bbbbb'), (NEST(5), 'bhbhb'), (NEST(3), 'vvh'), (NEST(3), 'hvv'), (NEST(3), 'vbv'),
              ('((((()()))))', 'hbhbhb'), (NEST(4), 'hhhh'), (NEST(4), 'bbbb'), (NEST(2), 'vv'), (NEST(3), 'vhb')]
    return [{'shape': sh, 'kinds': ks, 'full': False, 'cap': CAP} for sh, ks in ws]


def cap_calls_variants(tier, w):
    names = ['deep5', 'deep4', 'deep3p2'] if (tier == 'thorough' or w == 32) else ['deep5']
    return [{'shared': k, 'cap': CAP} for k in names]


E('stack at capacity', BP, 'def stack_init n @ stack_error_handler > sp, stack', lambda w, v: stack_block(w, v, 'hexcap'), cap_stack_variants,
  ns='hexcap', spec_name='stack_word', qw=(32, 64),
  note=f'stack declared with capacity {CAP}: balanced words whose maximal depth is exactly {CAP} and {CAP - 1} cells')
E('calls at capacity', PL, 'def stack_init n', lambda w, v: calls_block(w, v, 'hexcap'), cap_calls_variants, ns='hexcap',
  spec_name='calls_keep + call_trace', qw=(32, 64),
  note=f'stack declared with capacity {CAP}: call nestings (return addresses + pushed parameters) of depth exactly {CAP} and {CAP - 1}')

# ---- ordered pairs
for _p in PAIRS:
    E('pair ' + _p, RP, 'def read_hex dst, ptr', lambda w, v, _p=_p: pair_block(_p, w, v),
      (lambda _p: lambda tier, w: [{}] if (tier == 'thorough' or _p in ('read_byte;write_byte', 'xor_byte_to_ptr;xor_byte_from_ptr',
                                                                        'ptr_flip_dbit;xor_hex_to_ptr')) else [])(_p),
      spec_name='seq_spec', note='composition: second dereference starts from the pointer-cell state the first left')

# ---- bit/pointers.fj
T_BITINC = [('carry', 1)]
E('bit.ptr_jump', BT, 'def ptr_jump ptr', lambda w, v: jump_block('bit.ptr_jump', 'bit.ptr_jump {p}', w, v, 'bit'), V0, ns='bit',
  spec_name='ptr_jump_to')
E('bit.ptr_flip', BT, 'def ptr_flip ptr', lambda w, v: flip_block('bit.ptr_flip', 'bit.ptr_flip {p}', w, v, 'bit', 'ptr_flip_bit'), V0,
  ns='bit', spec_name='ptr_flip_bit')
E('bit.ptr_flip_dbit', BT, 'def ptr_flip_dbit ptr',
  lambda w, v: flip_block('bit.ptr_flip_dbit', 'bit.ptr_flip_dbit {p}', w, v, 'bit', 'ptr_flip_dbit'), V0, ns='bit', spec_name='ptr_flip_dbit')
E('bit.xor_to_ptr', BT, 'def xor_to_ptr ptr, bit',
  S('bit.xor_to_ptr', 'bit.xor_to_ptr {p}, {s}', ns='bit', src=('bit', 1), spec='ptr_xor_store'), V1, ns='bit', spec_name='ptr_xor_store')
E('bit.ptr_wflip', BT, 'def ptr_wflip ptr, value',
  lambda w, v: wflip_block('bit.ptr_wflip', 'bit.ptr_wflip {p}, {c}*dw', w, v, 'bit', True), VC([0x6B], [0x01, 0x6B, 0xFF]), ns='bit',
  spec_name='ptr_wflip_cell (off w)')
E('bit.ptr_wflip_2nd_word', BT, 'def ptr_wflip_2nd_word ptr, value',
  lambda w, v: wflip_block('bit.ptr_wflip_2nd_word', 'bit.ptr_wflip_2nd_word {p}, {c}*dw', w, v, 'bit', False), VC([0x94], [0x01, 0x94]),
  ns='bit', spec_name='ptr_wflip_cell (off 0)')
E('bit.xor_from_ptr', BT, 'def xor_from_ptr dst, ptr',
  L('bit.xor_from_ptr', 'bit.xor_from_ptr {d}, {p}', ns='bit', dst=('bit', 1), spec='ptr_xor_load', md=2, dvals=(0, 1)), V1, ns='bit',
  spec_name='ptr_xor_load')
E('bit.exact_xor_from_ptr', BT, 'def exact_xor_from_ptr dst, ptr',
  L('bit.exact_xor_from_ptr', 'bit.exact_xor_from_ptr {d}+dbit, {p}', ns='bit', dst=('bit', 1), spec='ptr_xor_load', md=2, dvals=(0, 1)),
  V1, ns='bit', spec_name='ptr_xor_load')
E('bit.ptr_inc', BT, 'def ptr_inc ptr', lambda w, v: arith_block('bit.ptr_inc', 'bit.ptr_inc {p}', w, v, 'bit', 'ptr_add_c', temps=T_BITINC),
  V0, ns='bit', spec_name='ptr_add_c 1')
E('bit.ptr_dec', BT, 'def ptr_dec ptr', lambda w, v: arith_block('bit.ptr_dec', 'bit.ptr_dec {p}', w, v, 'bit', 'ptr_sub_c', temps=T_BITINC),
  V0, ns='bit', spec_name='ptr_sub_c 1')
E('bit.pointers.set_flip_pointer', BT, 'def set_flip_pointer ptr',
  lambda w, v: setptr_block('bit.pointers.set_flip_pointer', 'bit.pointers.set_flip_pointer {p}', w, v, 'bit'), V0, ns='bit',
  spec_name='calls_keep + consistency')
E('bit.pointers.set_jump_pointer', BT, 'def set_jump_pointer ptr',
  lambda w, v: setptr_block('bit.pointers.set_jump_pointer', 'bit.pointers.set_jump_pointer {p}', w, v, 'bit'), V0, ns='bit',
  spec_name='calls_keep + consistency')


CFG = SP.Config(prop='C08', table=TABLE,
                widths={'hex': {'quick': [64, 32], 'thorough': [64, 32]}, 'bit': {'quick': [64, 16], 'thorough': [64, 32, 16]},
                        'hexcap': {'quick': [64, 32], 'thorough': [64, 32]}},
                startup={'hex': 'stl.startup_and_init_all', 'bit': 'stl.startup c08_code\nbit.pointers.ptr_init\nc08_code:',
                         'hexcap': f'stl.startup_and_init_all {CAP}'},
                builders=BUILDERS)


def run(ctx):
    SP.run_property(ctx, CFG)


def replay(ctx, path):
    return SP.replay(ctx, CFG, path)
