"""C09: library input / print / cast / buffer macros are exact inverses of the byte encoding (theorems by kernel
computation on images assembled from the current source, over operand values x input strings; see fjverif/stl_io.py)."""
from .. import stl_io
from .. import stl_io_specs as IO

CFG = stl_io.Config(prop='C09', table=IO.C09, widths={'quick': [64], 'thorough': [64, 32]}, startup='stl.startup_and_init_all')


def run(ctx):
    stl_io.run_property(ctx, CFG)


def replay(ctx, path):
    return stl_io.replay(ctx, CFG, path)
