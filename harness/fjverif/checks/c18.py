"""C18: a device failure or interrupt stops the run at a consistent point (fault enumeration per program)."""
import re

from .. import enginecamp as ec
from .. import framework as fw
from .. import imagegen as ig
from . import c07

HEADER = ('From FJ Require Import Lib.Base Spec.MachineSpec Model.RunCase Model.Faults Model.FaultCase.\n'
          'Local Open Scope N_scope.\n')
HEADER_ENG = HEADER.replace('Model.FaultCase.', 'Model.FaultCase Model.FaultCaseEng.')
KINDS = ('libio', 'eof_on_write', 'foreign', 'kbd')
EXPECT = {'libio': 'reraised', 'eof_on_write': 'reraised', 'foreign': 'wrapped', 'kbd': 'stats'}


def io_programs(ctx, n, so):
    """generated programs that make at least one device call; returns [(case, n_calls)]"""
    rng = ctx.rng
    out = []
    tries = 0
    while len(out) < n and tries < 40:
        tries += 1
        batch = []
        for _ in range(4 * n):
            if rng.random() < 0.6:
                w, segs, tags = ig.gen_image(rng, w=rng.choice([8, 16, 32, 64]))
            else:
                w, segs, tags = ig.chain_program(rng, rng.choice([16, 32, 64]), rng.choice([4, 8, 16]))
            inp = bytes(rng.randrange(256) for _ in range(rng.choice([0, 1, 2])))
            batch.append({'w': w, 'segs': segs, 'input': inp.hex(), 'version': 1, 'engine': 'fast', 'watchdog': 2.0,
                          'tags': tags, 'read_mem': c07.mem_addresses(segs)})
        res = ec.run_engines(ctx, batch, so)
        for c, r in zip(batch, res):
            if 'exc' in r or r.get('cause') == 6:
                continue
            consumed = 8 * len(bytes.fromhex(c['input'])) - (8 * r['in_left'][0] + r['in_left'][1])
            eof_call = 1 if r.get('cause') == 1 else 0
            calls = r['out'][0] + consumed + eof_call
            if calls >= 1 and len(out) < n:
                out.append((c, calls))
    return out


def coq_fcase(case, res):
    r = {'cause': res.get('cause', 0), 'ops': res.get('ops', 0) or 0, 'fault': res.get('fault'), 'out': res['out'],
         'last_ops': res.get('last_ops'), 'mem': res.get('mem')}
    if res.get('failed'):
        r['cause'] = 0          # not compared when the device failed (cause 6 would read as a watchdog expiry)
    stats = res.get('outcome') == 'stats'
    c2 = dict(case)
    if not stats:
        c2['last_ops'] = None
    term = ec.coq_case(c2, r, fuel=case['max_ops'] + 2)
    failed = 'true' if res.get('failed') else 'false'
    in_read = 'true' if res.get('failed') == 'read' else 'false'
    return f'mkfcase ({term}) {case["fail_at"]} {failed} {in_read} {"true" if stats and res.get("failed") else "false"}'


def coq_fcase_eng(case, res):
    """the same case for the ENGINE fault models (Model/FaultCaseEng.v): + the knobs that select the native loop"""
    return (f'mkfcase_eng ({coq_fcase(case, res)}) {"true" if case.get("no_flat") else "false"} '
            f'{case.get("last_ops") or 0}')


HEADER_SIG = ('From FJ Require Import Lib.Base Spec.MachineSpec Model.RunCase Model.SignalCase.\n'
              'Local Open Scope N_scope.\n')


def signal_family(ctx, so, n):
    """asynchronous interrupts: never-halting programs; a real signal (SIGALRM, handler raises KeyboardInterrupt) is armed
    from inside one of the first device calls and arrives a fraction of a millisecond later, while the engine runs.
    Judged by Model/SignalCase.v (theorem C18_signal_verdict_sound): everything observed must be the machine's state
    after exactly the reported number of ops."""
    rng = ctx.rng
    cases = []
    for _ in range(n):
        w, segs, tags, n_out = ig.cycle_program(rng, rng.choice([16, 32, 64, 64]))
        for eng in ('featured', 'fast', 'native', 'native'):
            native = eng == 'native'
            cases.append({'w': w, 'segs': segs, 'input': '', 'version': 1, 'engine': eng, 'watchdog': 4.0,
                          'tags': tags + ['signal'], 'read_mem': c07.mem_addresses(segs), 'fail_at': -1, 'kind': 'kbd',
                          'last_ops': rng.choice([3, 5, 100, None]), 'no_flat': native and rng.random() < 0.4,
                          'signal_after': rng.uniform(0.0002, 0.0008) if native else rng.uniform(0.0005, 0.004),
                          'signal_at_call': rng.randrange(n_out)})
    chunks = [cases[i::fw.NCPU] for i in range(fw.NCPU)]
    chunks = [c for c in chunks if c]
    outs = fw.run_workers_parallel(ctx, 'faults', chunks, extra_env={'FJVERIF_FJCORE_SO': str(so)})
    pairs = []
    for ch, o in zip(chunks, outs):
        pairs += list(zip(ch, o))
    terms, idx = [], []
    for i, (c, r) in enumerate(pairs):
        ctx.count(('signal', c['w'], c['segs'], c['engine'], c['last_ops'], c['no_flat'], round(c['signal_after'], 6)), True)
        if r.get('outcome') != 'stats' or r.get('cause') != 6:
            ctx.hist('signal_verdict', f"{c['engine']}:wrong-outcome")
            ctx.violation({'kind': 'wrong-outcome', 'engine': c['engine'], 'device_exc': 'signal', 'got': str(r.get('outcome', '')).split(':')[0]},
                          f"an interrupt signal during a run under the {c['engine']} engine: outcome {r.get('outcome')} cause={r.get('cause')}, "
                          f"required a keyboard-interrupt termination", {'case': c, 'observed': r})
            continue
        ctx.hist('signal_ops_log2', f"{c['engine']}:{max(r.get('ops') or 0, 1).bit_length()}")
        if (r.get('ops') or 0) > (3 << 20):
            ctx.hist('signal_verdict', f"{c['engine']}:not-evaluated(too many ops)")
            continue
        r2 = dict(r, cause=0)
        terms.append(ec.coq_case(c, r2, fuel=0))
        idx.append(i)
    oks = fw.coq_eval_shards(ctx, 'c18sig', HEADER_SIG, terms, 'fun c => check_signal_case c =? 0', shard=4)
    for k, ok, term in zip(idx, oks, terms):
        c, r = pairs[k]
        v = 0 if ok else None
        if ok is False:
            rc, txt = fw.coq_eval_term(ctx, f'c18sig_v{k}', HEADER_SIG, f'check_signal_case ({term})')
            m = re.search(r'=\s*(\d+)', txt)
            v = int(m.group(1)) if rc == 0 and m else 2
        name = {0: 'consistent', 1: 'mid-op', 2: 'inconsistent', 3: 'machine-halts-earlier'}.get(v, 'not-evaluated')
        ctx.hist('signal_verdict', f"{c['engine']}:{name}")
        if v in (None, 0):
            continue
        kind = 'async-interrupt-mid-op' if v == 1 else 'async-interrupt-inconsistent'
        ctx.violation({'kind': kind, 'engine': c['engine']},
                      f"interrupt signal during a run ({c['engine']} engine, w={c['w']}): reported ops={r.get('ops')} "
                      f"last_ops={r.get('last_ops')} but the memory/output/last-ops read back are "
                      f"{'those of a stop INSIDE the next op (some of its effects are visible)' if v == 1 else 'not a state of the machine at that op count'}",
                      {'case': c, 'observed': r})
    return len(pairs)


def c_callable_family(ctx, so, n):
    """an interrupt while the device's write_bit is a C-implemented callable and the program writes on every lap of its
    cycle: no callback ever runs bytecode, so only the engine's own signal polling can stop the run.  Each run is a
    forked child with a hard limit; a run that does not stop is a violation."""
    rng = ctx.rng
    cases = []
    for _ in range(n):
        w, segs, tags, _n_out = ig.cycle_program(rng, rng.choice([16, 32, 64]), io_in_cycle=True)
        for eng in ('featured', 'fast', 'native', 'native'):
            native = eng == 'native'
            cases.append({'w': w, 'segs': segs, 'input': '', 'version': 1, 'engine': eng, 'kind': 'c_callable',
                          'tags': tags + ['signal', 'c-callable-device'], 'last_ops': rng.choice([3, 100, None]),
                          'no_flat': native and rng.random() < 0.4, 'hard_timeout': 8.0})
    chunks = [[c] for c in cases]
    outs = fw.run_workers_parallel(ctx, 'faults', chunks, extra_env={'FJVERIF_FJCORE_SO': str(so)})
    for (c,), (r,) in zip(chunks, outs):
        ctx.count(('c-callable', c['w'], c['segs'], c['engine'], c['last_ops'], c['no_flat']), True)
        oc = str(r.get('outcome'))
        ctx.hist('c_callable_signal', f"{c['engine']}:{oc.split(':')[0] if oc != 'stats' else 'stopped'}")
        if oc == 'stats' and r.get('cause') == 6 and (c['last_ops'] is None or r.get('last_ops_len')):
            continue
        if oc == 'inconclusive':
            continue
        kind = 'interrupt-lost' if oc == 'hang' else 'wrong-outcome'
        ctx.violation({'kind': kind, 'engine': c['engine'], 'device_exc': 'signal-c-callable'},
                      f"an interrupt signal during a run whose device callbacks are C-implemented ({c['engine']} engine, w={c['w']}): "
                      f"{'the run did not stop within ' + str(r.get('waited')) + ' s' if oc == 'hang' else 'observed ' + str(r)}; "
                      f"required a keyboard-interrupt termination with its statistics", {'case': c, 'observed': r})
    return len(cases)


def run(ctx):
    fw.static_proofs(ctx, ['Properties/C18.v', 'Properties/C18_engines.v'])
    so = fw.build_fjcore(ctx)
    n_sig = signal_family(ctx, so, ctx.n(6, 60))
    n_sig += c_callable_family(ctx, so, ctx.n(2, 12))
    progs = io_programs(ctx, ctx.n(60, 1500), so)
    cases = []
    for c, calls in progs:
        ks = list(range(calls)) if calls <= 10 else sorted(set(list(range(6)) + [calls - 1, calls - 2] + [ctx.rng.randrange(calls) for _ in range(3)]))
        ctx.hist('io_calls_per_program', min(calls, 20))
        for k in ks:
            for kind in KINDS:
                for eng in ('featured', 'fast', 'native'):
                    d = dict(c, engine=eng, fail_at=k, kind=kind, last_ops=ctx.rng.choice([None, 3, 100]))
                    d['no_flat'] = eng == 'native' and ctx.rng.random() < 0.3
                    cases.append(d)
    # the failure-free op count bounds the fuel
    base_res = ec.run_engines(ctx, [dict(c, engine='fast') for c, _ in progs], so)
    max_ops = {id(c): r.get('ops', 0) for (c, _), r in zip(progs, base_res)}
    for d in cases:
        d['max_ops'] = max(max_ops.values()) if not max_ops else 0
    opsmap = {}
    for (c, _), r in zip(progs, base_res):
        opsmap[(c['w'], str(c['segs']), c['input'])] = r.get('ops', 0)
    for d in cases:
        d['max_ops'] = opsmap[(d['w'], str(d['segs']), d['input'])]
    n = len(cases)
    chunks = [cases[i::fw.NCPU * 2] for i in range(fw.NCPU * 2)]
    outs = fw.run_workers_parallel(ctx, 'faults', chunks, extra_env={'FJVERIF_FJCORE_SO': str(so)})
    pairs = []
    for ch, o in zip(chunks, outs):
        pairs += list(zip(ch, o))
    terms, idx = [], []
    for i, (c, r) in enumerate(pairs):
        ctx.count((c['w'], c['segs'], c['input'], c['engine'], c['fail_at'], c['kind'], c['last_ops'], c['no_flat']), True)
        ctx.hist('outcome', f"{c['kind']}:{r.get('outcome', '?').split(':')[0]}")
        ctx.hist('failing_call', r.get('failed'))
        # 1. the ladder, evaluated on the real behaviour
        if r.get('failed'):
            exp = EXPECT[c['kind']]
            if r.get('outcome', '').split(':')[0] != exp or (exp == 'stats' and r.get('cause') != 6):
                ctx.violation({'kind': 'wrong-outcome', 'engine': c['engine'], 'device_exc': c['kind'], 'got': r.get('outcome', '').split(':')[0]},
                              f"device raised {c['kind']} at call {c['fail_at']} under the {c['engine']} engine: outcome {r.get('outcome')} "
                              f"cause={r.get('cause')}, required {exp}", {'case': c, 'observed': r})
                continue
        elif r.get('outcome') != 'stats':
            ctx.violation({'kind': 'exception-without-device-failure', 'engine': c['engine']},
                          f"run raised {r.get('outcome')} although the device never failed", {'case': c, 'observed': r})
            continue
        terms.append(coq_fcase(c, r))
        idx.append(i)
    oks = fw.coq_eval_shards(ctx, 'c18', HEADER, terms, 'check_fault_case', shard=300)
    for k, ok in zip(idx, oks):
        if ok is False:
            c, r = pairs[k]
            rc, model = fw.coq_eval_term(ctx, f'c18_diag{k}', HEADER,
                                         f'let r := frun_case ({coq_fcase(c, r)}) in (fst (fst r), ops (snd (fst r)), '
                                         f'rev (firstn 5 (hist (snd (fst r)))), N.of_nat (length (outp (snd (fst r)))))')
            sig = {'kind': 'stop-state-differs', 'engine': c['engine'], 'device_exc': c['kind']}
            if c['engine'] == 'native' and c['kind'] == 'kbd' and r.get('last_ops') == [] and c.get('last_ops'):
                sig = {'kind': 'native-empty-last-ops-on-interrupt', 'engine': 'native'}
            ctx.violation(sig, f"device raised {c['kind']} at call {c['fail_at']} ({c['engine']} engine): observed ops={r.get('ops')} "
                          f"last_ops={r.get('last_ops')} out={r['out']}; the machine stopped at call {c['fail_at']} gives {model[-300:]}",
                          {'case': c, 'observed': r, 'machine_definition': model})
    # 3. the engine-level fault models (EngPyFaults.v / EngNativeFaults.v, proved to refine Faults.v in
    #    Properties/C18_engines.v) on the same cases: ties the transcriptions of the exception paths to the real engines
    oks_eng = fw.coq_eval_shards(ctx, 'c18eng', HEADER_ENG, [coq_fcase_eng(*pairs[k]) for k in idx],
                                 'check_fault_case_eng', shard=300)
    for k, ok, ok_eng in zip(idx, oks, oks_eng):
        c, r = pairs[k]
        ctx.hist('engine_fault_model', f"{c['engine']}:{'agrees' if ok_eng else 'differs' if ok_eng is False else 'not-evaluated'}")
        if ok_eng is False and ok and len(ctx.broken) < 3:
            # the machine-level statement holds on the observed behaviour, the engine transcription does not reproduce it
            rc, model = fw.coq_eval_term(ctx, f'c18eng_diag{k}', HEADER_ENG, f'fault_diag_eng ({coq_fcase_eng(c, r)})')
            ctx.broken_tie(f"engine fault model ({c['engine']} engine, Model/Eng{'Native' if c['engine'] == 'native' else 'Py'}Faults.v)",
                           f"device raised {c['kind']} at call {c['fail_at']} ({c['engine']} engine, last_ops={c['last_ops']}, "
                           f"no_flat={c['no_flat']}): observed failed={r.get('failed')} ops={r.get('ops')} last_ops={r.get('last_ops')} "
                           f"out={r['out']}; the engine model gives (failed, in_read, ops, output bits, last ops) = {model[-300:]}; "
                           f"case: {c}")
    for c, r in pairs[:3]:
        ctx.sample({'case': {k: c[k] for k in ('w', 'segs', 'input', 'engine', 'fail_at', 'kind', 'last_ops')}, 'observed': r})
    ctx.level = 'proof'
    ctx.coverage['exhaustive'] = False
    ctx.coverage['rule'] = ('fault enumeration: for each generated IO program, every device call index k (all k when the run makes <= 10 '
                            'calls, else first 6, last 2 and 3 random) x {library IO error, IOReadOnEOF raised by write_bit, foreign '
                            'ValueError, KeyboardInterrupt} x {featured, fast, native}; observables: outcome class (re-raised same '
                            'object / wrapped with __cause__ / KeyboardInterrupt statistics), device-side output record, op count and '
                            'last-ops list when statistics are returned, memory read back through DeviceMemory after the stop; '
                            'compared with Model/Faults.v evaluated in Coq, and with the engine fault model of the case\'s engine '
                            '(Model/EngPyFaults.v featured/fast loop, Model/EngNativeFaults.v flat/paged/ring loop incl. '
                            'last_run_op_count and last_run_last_ops) evaluated in Coq on the same case')
    ctx.coverage['rule'] += (f'; asynchronous interrupts: {n_sig} runs of never-halting programs (aligned and unaligned cycles, '
                             'near and far scratch) x 3 engines with a real signal arriving 0.2-4 ms after a device call; '
                             'the reported op count, output, last-ops list and memory are compared with the machine after '
                             'exactly that many ops (Model/SignalCase.v, C18_signal_verdict_sound)')
    ctx.assumptions += ['asynchronous signal delivery is sampled at random instants, not enumerated (the instant a signal lands is '
                        'a runtime behaviour the model cannot exhibit); every sampled stop is judged by the machine definition']
