"""C11: the native engine is memory-safe for every image, input and knob.
Dynamic part: sanitizer build of the current _fjcore.c driven with adversarial geometry."""
import json
import subprocess
import time
from concurrent.futures import ThreadPoolExecutor

from .. import framework as fw
from .. import imagegen as ig
from . import c07

U64 = (1 << 64) - 1


def valid_image_case(rng):
    w, segs, tags = ig.gen_image(rng, w=rng.choice([8, 16, 32, 64, 64]), geometry=rng.choice(['plain', 'sparse']))
    table, pool = [], []
    for s, l, data in segs:
        table.append((s, l, len(pool), len(data)))
        pool += data
    return w, table, pool, tags


def adversarial_case(rng):
    w = rng.choice([8, 16, 32, 64, 64, 64])
    ww = w.bit_length() - 1
    dw = 2 * w
    # a small valid code segment at 0
    n = rng.choice([2, 4, 6, 8])
    pool = []
    for i in range(n // 2):
        pool += [rng.choice([0, dw, dw + 1, rng.randrange(1 << min(w, 20)), (rng.getrandbits(64)) & ((1 << w) - 1)]),
                 rng.choice([(i + 1) * dw % (n * w), 0, i * dw, rng.getrandbits(64) & ((1 << w) - 1)])]
    table = [(0, n, 0, n)]
    kind = rng.choice(['huge_len', 'end_2_64', 'many', 'overlap', 'zero_len', 'dlen_gt_len', 'far', 'odd', 'unsorted_many'])
    if kind == 'huge_len':
        table.append((rng.choice([n, 1 << 20, 1 << 40]), rng.choice([1 << 40, 1 << 62, (1 << 63) - 2, 1 << 33]), 0, rng.choice([0, 2])))
    elif kind == 'end_2_64':
        ln = rng.choice([2, 4, 1 << 20, 1 << 63])
        table.append(((1 << 64) - ln - rng.choice([0, 0, 2, -2]), ln, 0, rng.choice([0, 2])))
    elif kind in ('many', 'unsorted_many'):
        cnt = rng.choice([20, 300, 3000])
        starts = [n + 4 * i * rng.choice([1, 1, 1, 1 << 12]) for i in range(cnt)]
        if kind == 'unsorted_many':
            rng.shuffle(starts)
        table += [(s, 2, 0, 0) for s in starts]
    elif kind == 'overlap':
        table += [(0, n + 2, 0, 2), (2, 2, 0, 2), (n - 2, 1 << 15, 0, 0)]
    elif kind == 'zero_len':
        table += [(n, 0, 0, 0), (1 << 30, 0, 0, 0)]
    elif kind == 'dlen_gt_len':
        pool += [rng.randrange(1 << min(w, 30)) for _ in range(8)]
        table.append((rng.choice([n, 1 << 14, (1 << 14) - 2, 1 << 23]), 2, n, 8))
    elif kind == 'far':
        table += [(rng.choice([1 << 14, (1 << 14) - 2, 1 << 23, (1 << 23) - 2, 1 << 40, 1 << 57, (1 << 58) - 2]), rng.choice([2, 4, 1 << 14]), 0, 2)]
    elif kind == 'odd':
        table += [(n + 1, 3, 0, 0), (rng.randrange(1 << 30) | 1, 5, 0, 2)]
    return w, table, pool, [kind]


def device_script(rng, table):
    script = {}
    for call in range(rng.choice([0, 1, 3])):
        ops = []
        for _ in range(rng.choice([1, 2, 5])):
            s, l = rng.choice(table)[:2]
            a = rng.choice([s, s + max(l, 1) - 1, s + l, (s + l + 1) & U64, rng.getrandbits(64), U64, U64 - 1, (1 << 63),
                            (1 << 14) - 1, 1 << 14, (1 << 23) - 1, 1 << 23, rng.randrange(1 << 16)])
            k = rng.choice(['r', 'w', 'rb', 'wb'])
            ops.append([k, a] if k in ('r', 'rb') else [k, a, rng.getrandbits(64)])
        script[str(call)] = ops
    return script


def api_case(rng):
    calls = [['new', [rng.choice([8, 16, 32, 64])], {'flat_max_words': rng.choice([0, 1, 2, 3, 1 << 14, 1 << 23])}]]
    for _ in range(rng.choice([3, 8, 20, 60])):
        r = rng.random()
        a = rng.choice([0, 1, 2, 6, (1 << 14) - 1, 1 << 14, (1 << 23) - 1, 1 << 23, 1 << 40, U64, U64 - 1, 1 << 63,
                        rng.getrandbits(64), rng.randrange(1 << 18)])
        if r < 0.25:
            calls.append(['add_segment', a if rng.random() < 0.5 else rng.choice([0, 0, 2, 1 << 14]),
                          rng.choice([0, 2, 4, 7, 1 << 14, 1 << 20, 1 << 40, 1 << 63, U64, U64 - 1, (U64 - a + 1) & U64, (U64 - a) & U64])])
        elif r < 0.45:
            calls.append(['set_word', a, rng.getrandbits(64)])
        elif r < 0.6:
            calls.append(['get_word', a])
        elif r < 0.75:
            calls.append(['set_words', a, [rng.getrandbits(64) for _ in range(rng.choice([0, 1, 2, 5, 40]))]])
        elif r < 0.9:
            calls.append(['run', rng.choice(['', '00', 'ff31']), {'last_ops_length': rng.choice([0, 0, 1, 3, 100]),
                                                                 'start_ip': rng.choice([0, 0, 0, 128, 7, rng.getrandbits(64), U64])}])
        elif r < 0.95:
            calls.append(['init', [rng.choice([8, 16, 32, 64])], {'flat_max_words': rng.choice([0, 2, 1 << 14])}])
        else:
            calls.append(['get', rng.choice(['storage_mode', 'allocated_bytes', 'last_run_op_count', 'speculation_stats'])])
    return {'kind': 'api', 'calls': calls}


def api_case_directed(rng):
    """direct-API sequences aimed at the index arithmetic the model decides: overflow tests, the flat-span test of
    set_words after the storage decision, slot-table growth, capacity doubling, bad list elements, re-__init__"""
    w = rng.choice([8, 16, 32, 64])
    fm = rng.choice([0, 1, 2, 3, 5, 1 << 14, (1 << 14) + 1, 1 << 23])
    calls = [['new', [w], {'flat_max_words': fm}]]
    kind = rng.choice(['span', 'overflow', 'pages', 'segments', 'baditems', 'reinit', 'ring', 'hybrid', 'hugering', 'devraise'])
    n = rng.choice([2, 4, 6, 8, 40])
    words = [rng.choice([0, 2 * w, 2 * w + 1, rng.randrange(8 * w), rng.getrandbits(w)]) for _ in range(n)]
    if kind == 'span':
        calls += [['add_segment', 0, n], ['set_words', 0, words], ['run', rng.choice(['', 'a5']), {'last_ops_length': 0, 'start_ip': 0}]]
        for _ in range(rng.choice([2, 6])):
            a = rng.choice([0, 1, n - 1, n, n + 1, fm, max(fm, 1) - 1, U64, U64 - 1, rng.randrange(2 * n + 2)])
            calls.append(['set_words', a, [rng.getrandbits(64) for _ in range(rng.choice([0, 1, 2, n]))]])
            calls.append(['get_word', rng.choice([a, n, n - 1, (a + 1) & U64])])
    elif kind == 'overflow':
        for _ in range(rng.choice([3, 8])):
            a = rng.choice([U64, U64 - 1, U64 - 7, 1 << 63, (1 << 63) + 5, 0, 4])
            ln = rng.choice([0, 1, 2, 7, 8, (U64 - a + 1) & U64, (U64 - a) & U64, U64, 1 << 63])
            calls.append(['add_segment', a, ln])
            calls.append(['set_words', a, [rng.getrandbits(64) for _ in range(rng.choice([0, 1, 2, 8]))]])
        calls.append(['run', '', {'last_ops_length': rng.choice([0, 2]), 'start_ip': rng.choice([0, U64 - 63, U64 - w, U64])}])
    elif kind == 'pages':
        calls.append(['add_segment', 0, n])
        cnt = rng.choice([10, 40, 70, 140])
        for i in range(cnt):
            pg = rng.choice([i, i * 16, i * 17 + 3, rng.getrandbits(50), (1 << 50) - 1 - i])
            calls.append([rng.choice(['set_word', 'set_word', 'get_word']), ((pg << 14) | rng.randrange(1 << 14)) & U64] )
            if calls[-1][0] == 'set_word':
                calls[-1].append(rng.getrandbits(64))
        calls.append(['run', '', {'last_ops_length': 0, 'start_ip': 0}])
        calls.append(['get_word', rng.getrandbits(64)])
    elif kind == 'segments':
        for i in range(rng.choice([7, 9, 17, 33, 70])):
            calls.append(['add_segment', rng.choice([4 * i, rng.randrange(1 << 16), 0]), rng.choice([0, 2, 4, 1 << 14])])
        calls += [['set_words', 0, words], ['run', '', {'last_ops_length': 0, 'start_ip': 0}], ['get_word', 3], ['set_word', 5, 7]]
    elif kind == 'baditems':
        calls += [['add_segment', 0, n + 8]]
        for _ in range(3):
            vals = [rng.getrandbits(64) for _ in range(rng.choice([0, 1, 3]))] + [rng.choice(['neg', 'big', 'huge', 'str', 'none', 'float'])] + [1, 2]
            calls.append(['set_words', rng.choice([0, 2, 1 << 14, U64 - 1]), vals])
            calls.append(['get_word', rng.choice([0, 2, 3])])
            if rng.random() < 0.4:
                calls.append(['run', '', {'last_ops_length': 0, 'start_ip': 0}])
    elif kind == 'reinit':
        calls += [['add_segment', 0, n], ['set_words', 0, words], ['run', '', {'last_ops_length': 0, 'start_ip': 0}],
                  ['init', [rng.choice([8, 16, 32, 64])], {'flat_max_words': rng.choice([0, 2, 1 << 14])}], ['get_word', 0],
                  ['run', '', {'last_ops_length': 0, 'start_ip': 0}], ['add_segment', 0, 2], ['set_word', 1, 1],
                  ['run', '', {'last_ops_length': 3, 'start_ip': 0}], ['set_words', 1, [1, 2, 3]]]
    elif kind == 'ring':
        calls += [['add_segment', 0, n], ['set_words', 0, words]]
        for _ in range(3):
            calls.append(['run', rng.choice(['', 'ff']), {'last_ops_length': rng.choice([1, 2, 3, 7, -1, 100]), 'start_ip': rng.choice([0, 0, 2 * w, 4 * w, 1])}])
    elif kind == 'hugering':
        # a ring whose byte size wraps or cannot be allocated: the engine must refuse (MemoryError), not run with a tiny ring
        prog = rng.choice([IO_PROGRAM(w), LOOP_PROGRAM(w), words + [0] * (8 - min(n, 8))])
        calls += [['add_segment', 0, len(prog)], ['set_words', 0, prog]]
        for _ in range(rng.choice([1, 2, 3])):
            calls.append(['run', rng.choice(['', 'ff']), {'last_ops_length': rng.choice(HUGE_RINGS), 'start_ip': 0}])
            calls.append(['last_ops_probe'])
        calls.append(['run', '', {'last_ops_length': rng.choice([0, 2]), 'start_ip': 0}] if prog != LOOP_PROGRAM(w) else ['get_word', 0])
    elif kind == 'devraise':
        # a device failure (or Ctrl+C) stops a run that keeps a last-ops ring: the kept list is read back, several times
        calls += [['add_segment', 0, 8], ['set_words', 0, IO_PROGRAM(w)]]
        for _ in range(rng.choice([1, 2, 3])):
            io = {rng.choice(['read', 'write']): 'raise', 'at': rng.choice([0, 0, 1]), 'exc': rng.choice(DEVICE_EXCEPTIONS)}
            calls.append(['run', rng.choice(['', '01', 'ff']), {'last_ops_length': rng.choice([1, 2, 3, 8, 100]), 'start_ip': rng.choice([0, 0, 2 * w]), 'io': io}])
            calls.append(['last_ops_probe'])
            if rng.random() < 0.5:
                calls.append(['set_words', 0, IO_PROGRAM(w)])
                calls.append(['run', 'ff', {'last_ops_length': rng.choice([0, 3]), 'start_ip': 0}])
                calls.append(['last_ops_probe'])
    else:  # hybrid: a window smaller than the segments, far segments
        far = rng.choice([1 << 14, (1 << 14) - 1, 1 << 23, 1 << 40, (1 << 58) - 2])
        calls += [['add_segment', 0, n], ['add_segment', far, rng.choice([2, 4, 1 << 14])], ['set_words', 0, words],
                  ['set_words', far, [rng.getrandbits(w) for _ in range(2)]],
                  ['run', '', {'last_ops_length': rng.choice([0, 0, 4]), 'start_ip': rng.choice([0, (far << (w.bit_length() - 1)) & U64])}],
                  ['get_word', far], ['set_word', far + 1, 5], ['set_words', far, [1]]]
    env = {}
    r = rng.random()
    if r < 0.12:
        env['no_flat'] = True
    elif r < 0.3:
        env['measure'] = True
    elif r < 0.4:
        env['flat_max_env'] = rng.choice([1, 2, 4, 1 << 14, 1 << 20])
    return {'kind': 'api', 'tags': ['directed', kind], 'env': env, 'calls': calls}


IO_PROGRAM = lambda w: [5 * w, 2 * w, 5 * w + 1, 4 * w, 2 * w, 4 * w, 0, 0]   # op0 -> op1 (input) -> op2 (output, halts by looping)
LOOP_PROGRAM = lambda w: [10 * w, 4 * w, 0, 0, 10 * w + 1, 6 * w, 10 * w + 2, 4 * w, 0, 0, 0, 0]   # ops at 4w <-> 6w flipping word 10, for ever
HUGE_RINGS = [1 << 61, (1 << 61) + 1, (1 << 61) - 1, 1 << 62, (1 << 63) - 1, U64 // 8, U64 // 8 + 2, 1 << 60, (1 << 61) + 3, 3 << 61]
DEVICE_EXCEPTIONS = ['OSError', 'BrokenIOUsed', 'KeyboardInterrupt', 'RuntimeError']


def ring_file_case(rng):
    """through fjm_run.run: (a) a last-ops length whose ring cannot be allocated (the byte size wraps from 2^61 on) - the run
    must be refused with an exception; (b) a device that fails while a last-ops ring is kept - the engine's kept list stays owned"""
    w = rng.choice([8, 16, 32, 64])
    huge = rng.random() < 0.5
    prog = rng.choice([IO_PROGRAM(w), LOOP_PROGRAM(w)]) if huge else IO_PROGRAM(w)
    c = dict(kind='file', w=w, segs=[(0, len(prog), 0, len(prog))], words=prog, version=rng.choice([0, 1]),
             input=rng.choice(['', '01', 'ff']), script={}, no_flat=rng.random() < 0.3, measure=False)
    if huge:
        c.update(last_ops=rng.choice(HUGE_RINGS), tags=['hugering'], expect='refused')
    else:
        c.update(last_ops=rng.choice([1, 2, 3, 8, 100]), tags=['devraise'],
                 dev_fail={'on': rng.choice(['read', 'write']), 'at': rng.choice([0, 0, 1]), 'exc': rng.choice(DEVICE_EXCEPTIONS)})
    return c


def oom_case(rng):
    """allocation-failure family (plain build, RLIMIT_AS clamped around single calls): a page allocation is refused in the
    middle of a call, then the SAME Memory keeps being used - the refused page is read (must look never-touched), written
    again, read back; at the end everything is read back and the object is freed"""
    w = rng.choice([8, 16, 32, 64])
    prog = IO_PROGRAM(w)
    calls = [['new', [w], {'flat_max_words': rng.choice([0, 0, 4, 1 << 14])}], ['add_segment', 0, len(prog)], ['set_words', 0, prog]]
    if rng.random() < 0.4:
        calls.append(['run', 'ff', {'last_ops_length': rng.choice([0, 3]), 'start_ip': 0}])     # flat storage decided: pokes go beyond the window
    touched = []
    pages = rng.sample(range(1, 4000), rng.choice([2, 4, 8, 40]))
    for pg in pages:
        a = ((pg << 14) | rng.randrange(1 << 14)) & U64
        v = rng.getrandbits(64)
        how = rng.choice(['set_word', 'set_word', 'get_word', 'set_words'])
        inner = ['set_word', a, v] if how == 'set_word' else ['get_word', a] if how == 'get_word' else ['set_words', a, [v, 1, 2][:1 + (a & 1)]]
        calls += [['oom', inner], ['get_word', a], ['set_word', a, v], ['get_word', a]]
        touched.append(a)
        if rng.random() < 0.15:
            calls.append(['oom', ['add_segment', pg << 14, 4]])
        if rng.random() < 0.1:
            calls.append(['oom', ['run', '', {'last_ops_length': rng.choice([0, 2]), 'start_ip': rng.choice([0, (pg << 14) << (w.bit_length() - 1) & U64])}]])
    calls += [['get_word', a] for a in touched]
    return {'kind': 'api', 'tags': ['oom'], 'calls': calls}


def oom_file_case(rng):
    """the same through fjm_run.run: a device writes fresh pages from inside write_bit while no memory can be had, writes the
    refused word again, and reads everything back at its next call"""
    w = rng.choice([16, 32, 64])
    prog = [2 * w, 4 * w, 0, 0, 2 * w + 1, 6 * w, 3 * w, 6 * w]          # ip 0: output 0 -> ip 4w: output 1 -> ip 6w: loop
    pokes = [['ow', ((pg << 14) | rng.randrange(1 << 14)), rng.getrandbits(w)] for pg in rng.sample(range(1, 3000), rng.choice([3, 10, 30]))]
    return dict(kind='file', w=w, segs=[(0, len(prog), 0, len(prog))], words=prog, version=rng.choice([0, 1]), input='',
                script={'0': pokes, '1': [['ocheck']]}, no_flat=rng.random() < 0.3, measure=False, last_ops=rng.choice([None, 3]),
                tags=['oomdev'], expect='oom')


def refprobe_case(rng):
    """reference-count probe: run() and set_words() on their normal and error paths"""
    w = rng.choice([8, 16, 32, 64])
    calls = [['new', [w], {'flat_max_words': rng.choice([0, 0, 4])}], ['add_segment', 0, 8], ['set_words', 0, IO_PROGRAM(w)]]
    io = rng.choice([None, {'read': 'raise'}, {'read': 'nonbool'}, {'read': 'badtruth'}, {'read': 'eof'}, {'write': 'raise'},
                     {'read': 'raise', 'at': 1}, {'write': 'raise', 'at': 1}])
    exc = rng.choice(DEVICE_EXCEPTIONS)
    if io and 'raise' in io.values():
        io = dict(io, exc=exc)
    for _ in range(rng.choice([1, 2])):
        kw = {'last_ops_length': rng.choice([0, 0, 3, 3, 50]), 'start_ip': 0}
        if io:
            kw['io'] = io
        calls.append(['run', rng.choice(['', '01', 'ff']), kw])
        calls.append(['last_ops_probe'])
        calls.append(['set_words', rng.choice([0, 0, 9, U64]), rng.choice([[1, 2], [1, 'neg', 2], ['big'], [3, 'str'], ['none', 1], [], [1, 2, 3, 'huge']])])
        calls.append(['set_words', 0, IO_PROGRAM(w)])
    return {'kind': 'api', 'tags': ['refprobe', json.dumps(io, sort_keys=True)], 'calls': calls}


# ---- the model tie: the same call sequences evaluated by Model/NativeSafeCase.v inside Coq ----------------------

EXC_CODE = {'ValueError': 1, 'MemoryError': 2, 'OverflowError': 3, 'TypeError': 4}
TIE_MAX_OPS = 5000
TIE_HEADER = 'From FJ Require Import Lib.Base Model.NativeSafe Model.NativeSafeCase.\nLocal Open Scope N_scope.\n'


def _n(x):
    """N literal; hexadecimal for large values (parsed about twice as fast by coqc)"""
    x = int(x)
    return str(x) if x < 65536 else hex(x)


def _nl(xs):
    return '[' + ';'.join(_n(x) for x in xs) + ']'


def _item(x):
    if isinstance(x, int) and not isinstance(x, bool):
        return f'ItInt {_n(x)}' if 0 <= x < (1 << 64) else 'ItOverflow'
    return 'ItOverflow' if x in ('neg', 'big', 'huge') else 'ItNotInt'


def _spec(io, side):
    """the misbehaviour of read_bit / write_bit from its k-th call on, as an option (N * cbres)"""
    how = io.get(side)
    if not how:
        return 'None'
    res = {'raise': 'CbRaise', 'eof': 'CbEOF', 'nonbool': '(CbBool true)', 'badtruth': 'CbBadTruth'}[how]
    return f'(Some ({io.get("at", 0)}, {res}))'


def _bits(hexs):
    return '[' + ';'.join('true' if (b >> i) & 1 else 'false' for b in bytes.fromhex(hexs) for i in range(8)) + ']'


def tie_terms(case, res):
    """[(coq call term, coq observation term, call index)] for the prefix of the case the model can be compared on"""
    terms = []
    for ci, (call, r, ob) in enumerate(zip(case['calls'], res['results'], res.get('obs', []))):
        name, args = call[0], call[1:]
        oom = name == 'oom'
        if oom:
            name, args = args[0][0], args[0][1:]
        if ob is None or ob[1] == 9:
            break
        vals = []
        if isinstance(r, str) and r.startswith('exc:'):
            cls = EXC_CODE.get(r[4:], 5)
            if r[4:] == 'KeyboardInterrupt' and not (name == 'run' and (args[1].get('io') or {}).get('exc') == 'KeyboardInterrupt'):
                break                                  # the watchdog fired: nothing to compare from here on
        else:
            cls = 0
        if name in ('new', 'init'):
            t = f'TInit {args[0][0]} {_n(args[1].get("flat_max_words", 0))}'
        elif name == 'add_segment':
            t = f'TAdd {_n(args[0])} {_n(args[1])}'
        elif name == 'set_word':
            t = f'TSetWord {_n(args[0])} {_n(args[1])}'
        elif name == 'get_word':
            t = f'TGetWord {_n(args[0])}'
            vals = [r] if cls == 0 else []
        elif name == 'set_words':
            t = f'TSetWords {_n(args[0])} [' + ';'.join(_item(x) for x in args[1]) + ']'
        elif name == 'run':
            if oom:
                break                                  # Python's own allocations inside the callbacks may fail too: dynamic only
            io = args[1].get('io') or {}
            if cls == 0:
                if r[1] > TIE_MAX_OPS:
                    break
                vals = [r[0], r[1], 0 if r[2] is None else r[2] + 1] + list(r[3])
            t = f'TRun {_bits(args[0])} {_spec(io, "read")} {_spec(io, "write")} ({args[1].get("last_ops_length", 0)})%Z {_n(args[1].get("start_ip", 0))}'
        elif name == 'last_ops_probe':
            t = 'TLastOps'
            vals = r[1] if cls == 0 and r[1] is not None else []
        elif name == 'get':
            t = 'TGet'
        else:
            break
        terms.append((f'TOom ({t})' if oom else t, f'mkObs {cls} {_n(ob[0])} {ob[1]} {_nl(vals)}', ci))
    return terms


def case_term(case, terms):
    env = case.get('env', {})
    ev = f'mkEnv {"true" if env.get("no_flat") else "false"} {env.get("flat_max_env", 0)} false {"true" if env.get("measure") else "false"}'
    return f'({ev}, [' + ';\n '.join(f'({t}, {o})' for t, o, _ in terms) + '])'


def model_tie(ctx, api):
    """api: list of (case, result).  Evaluates the model on every sequence; returns the number of compared calls."""
    entries = [(c, r, tie_terms(c, r)) for c, r in api]
    entries = [e for e in entries if e[2]]
    oks = fw.coq_eval_shards(ctx, 'c11tie', TIE_HEADER, [case_term(c, t) for c, _, t in entries], 'check_case', shard=60)
    ncalls = 0
    bad = []
    for (c, r, terms), ok in zip(entries, oks):
        ncalls += len(terms)
        ctx.hist('tie', 'agree' if ok else 'not-evaluated' if ok is None else 'DISAGREE')
        for (t, o, _), res_ in zip(terms, r['results']):
            ctx.hist('tie_call', t.split(' ')[0] + ':' + (res_ if isinstance(res_, str) else 'ok'))
        if ok is False:
            bad.append((c, r, terms))
    for c, r, terms in bad[:3]:
        # isolate the first call on which model and implementation differ
        pre = fw.coq_eval_shards(ctx, 'c11tie_iso', TIE_HEADER, [case_term(c, terms[:k + 1]) for k in range(len(terms))], 'check_case', shard=80)
        k = next((i for i, ok in enumerate(pre) if not ok), len(terms) - 1)
        ci = terms[k][2]
        ctx.broken_tie('C11 model tie (Model/NativeSafeCase.check_case)',
                       'the index model of _fjcore.c and the sanitizer build disagree (no sanitizer report) at call '
                       f'{ci} = {json.dumps(c["calls"][ci])[:300]}: implementation result {json.dumps(r["results"][ci])[:200]} '
                       f'observables {r["obs"][ci]}; calls so far: {json.dumps(c["calls"][:ci + 1])[:1500]}')
    return ncalls



def gen_cases(ctx, n):
    rng = ctx.rng
    cases = []
    for _ in range(n):
        r = rng.random()
        if r < 0.3:
            cases.append(api_case(rng))
            continue
        w, table, pool, tags = valid_image_case(rng) if r < 0.6 else adversarial_case(rng)
        k = c07.knobs(rng, w)
        if rng.random() < 0.1:
            k['flat_max_words'] = rng.choice([1 << 50, 1 << 62, U64])      # allocation must fail cleanly, not wrap
        # the flat window really gets allocated and filled: keep it small (<= 2^24 words) or impossibly large
        limit = k.get('flat_max_words') or (1 << 23)
        window = max([min(s + l, limit) for s, l, _, _ in table if s < limit and s + l <= U64] or [0])
        if (1 << 24) < window < (1 << 44) and not k.get('no_flat'):
            k['flat_max_words'] = 1 << 23
        cases.append(dict(kind='file', w=w, segs=table, words=pool, version=rng.choice([0, 1]),
                          input=bytes(rng.randrange(256) for _ in range(rng.choice([0, 1, 2]))).hex(),
                          script=device_script(rng, table), tags=tags, **k))
    # appended after the (unchanged) sanitizer campaign: directed API sequences for the model tie, refcount probes
    for _ in range(max(200, min(n // 8, 6000))):
        cases.append(api_case_directed(rng))
    for _ in range(max(100, min(n // 25, 2000))):
        cases.append(refprobe_case(rng))
    for _ in range(max(60, min(n // 100, 500))):
        cases.append(ring_file_case(rng))
    return cases


def run_batch(ctx, so, cases, idx, pressure=False):
    """returns (results aligned with cases, list of (case_index, stderr tail) for sanitizer aborts);
    pressure: the plain build with the allocation-failure machinery instead of the sanitizer build"""
    results = [None] * len(cases)
    aborts = []
    start = 0
    while start < len(cases):
        tagp = 'oom' if pressure else 'c11'
        inp = ctx.scratch / f'{tagp}_{idx}_{start}.in.json'
        outp = ctx.scratch / f'{tagp}_{idx}_{start}.out.json'
        prog = ctx.scratch / f'{tagp}_{idx}_{start}.prog'
        inp.write_text(json.dumps(cases[start:]))
        if pressure:
            env = fw.env_for_repo({'FJVERIF_FJCORE_SO': str(so), 'FJVERIF_MEMORY_PRESSURE': '1'})
        else:
            env = fw.env_for_repo({'FJVERIF_FJCORE_SO': str(so), 'LD_PRELOAD': fw.ASAN_RT,
                                   'ASAN_OPTIONS': 'detect_leaks=0:allocator_may_return_null=1:exitcode=77:abort_on_error=0',
                                   'UBSAN_OPTIONS': 'print_stacktrace=1:halt_on_error=1:exitcode=78'})
        p = subprocess.run(['timeout', '900', fw.PY, '-m', 'fjverif.workers.native_api', str(inp), str(outp), str(prog)],
                           env=env, stdout=subprocess.PIPE, stderr=subprocess.STDOUT, text=True, cwd=str(ctx.scratch))
        done = json.loads(outp.read_text()) if outp.exists() else []
        for i, r in enumerate(done):
            results[start + i] = r
        if p.returncode == 0:
            break
        at = start + len(done)
        aborts.append((at, p.returncode, p.stdout[-3000:]))
        if len(aborts) >= 6:
            break                                      # enough evidence from this batch; the rest counts as skipped
        start = at + 1
    return results, aborts


def campaign_round(ctx, so, cases):
    """run one round of cases on the sanitizer build; records violations/histograms; returns the (case, result) of the API cases"""
    nb = fw.NCPU
    chunks = [cases[i::nb] for i in range(nb)]
    with ThreadPoolExecutor(max_workers=nb) as ex:
        outs = list(ex.map(lambda t: run_batch(ctx, so, t[1], t[0]), list(enumerate(chunks))))
    api = []
    aborted = False
    for (results, aborts), chunk in zip(outs, chunks):
        aborted = aborted or bool(aborts)
        for c, r in zip(chunk, results):
            for lk in (r or {}).get('leaks', []):
                ctx.violation({'kind': 'refcount-leak', 'call': lk['name']},
                              f"ownership of a Python object handed to / out of the engine is wrong ({lk['name']}): {lk}",
                              {'case': c, 'leak': lk,
                               'how': 'fjverif.workers.native_api on this case: sys.getrefcount of read_bit/write_bit/eof type/values before and '
                                      'after the call; the last_run_last_ops getter protocol (_probe_last_ops)'})
            if r is not None and c.get('expect') == 'refused':
                ctx.hist('huge_ring', r.get('exc', 'RAN'))
                if 'exc' not in r:
                    ctx.violation({'kind': 'huge-ring-accepted'},
                                  f"fjm_run.run(last_ops_debugging_list_length={c['last_ops']}) ran ({r}) although a ring of that length cannot exist",
                                  {'case': c, 'observed': r, 'required': 'an exception (MemoryError wrapped as FlipJumpRuntimeException)'})
            if r is not None and c.get('dev_fail'):
                ctx.hist('dev_fail', f"{c['dev_fail']['exc']}:{r.get('exc', 'no-exception')}:kept={len(r.get('kept') or [])}")
            if r is not None and c['kind'] == 'api':
                api.append((c, r))
                for call, res_ in zip(c['calls'], r['results']):
                    if call[0] in ('run', 'set_words'):
                        ctx.hist('refcount_probe', call[0] + ':' + (res_ if isinstance(res_, str) else 'ok'))
            ctx.count(json.dumps(c, sort_keys=True)[:4000], nontrivial=True)
            ctx.hist('case_kind', c['kind'] + ':' + ','.join(c.get('tags', [])[-1:]))
            if r is None:
                ctx.hist('outcome', 'aborted-or-skipped')
            elif c['kind'] == 'file':
                ctx.hist('outcome', 'exc:' + r['exc'] if 'exc' in r else f'cause:{r["cause"]}')
        for at, rc, tail in aborts:
            c = chunk[at] if at < len(chunk) else None
            kind = 'asan' if 'AddressSanitizer' in tail else 'ubsan' if 'runtime error' in tail else 'crash'
            where = ''
            for line in tail.splitlines():
                if '_fjcore.c:' in line:
                    where = line.strip().split(' ')[-1]
                    break
            ctx.violation({'kind': 'sanitizer-' + kind, 'where': where.split('/')[-1]},
                          f'sanitizer build of the native engine aborted (rc={rc}, {kind}) {where}',
                          {'case': c, 'stderr_tail': tail,
                           'how': 'build _fjcore.c with -fsanitize=address,undefined and run fjverif.workers.native_api on this case'})
    return api


def pressure_round(ctx, cases):
    """the allocation-failure family on the plain build: any crash/abort of the worker, a word that does not read back, or a
    refused page that does not look never-touched afterwards is a violation; returns the (case, result) of the API cases"""
    so = fw.build_fjcore(ctx, sanitize=False)
    nb = max(1, min(fw.NCPU, len(cases) // 8))
    chunks = [cases[i::nb] for i in range(nb)]
    with ThreadPoolExecutor(max_workers=nb) as ex:
        outs = list(ex.map(lambda t: run_batch(ctx, so, t[1], t[0], pressure=True), list(enumerate(chunks))))
    api = []
    for (results, aborts), chunk in zip(outs, chunks):
        for c, r in zip(chunk, results):
            ctx.count(json.dumps(c, sort_keys=True)[:4000], nontrivial=True)
            ctx.hist('case_kind', c['kind'] + ':' + ','.join(c.get('tags', [])[-1:]))
            if r is None:
                ctx.hist('memory_pressure', 'aborted-or-skipped')
                continue
            if c['kind'] == 'api':
                api.append((c, r))
                refused = sum(1 for call, x in zip(c['calls'], r['results']) if call[0] == 'oom' and x == 'exc:MemoryError')
                served = sum(1 for call, x in zip(c['calls'], r['results']) if call[0] == 'oom' and x != 'exc:MemoryError')
                ctx.hist('memory_pressure', 'api:calls-refused', refused)
                ctx.hist('memory_pressure', 'api:calls-served(inconclusive)', served)
                ctx.hist('memory_pressure', 'api:sequence-with-a-refusal' if refused else 'api:no-failure-provoked(inconclusive)')
            else:
                o = r.get('oom', {})
                ctx.hist('memory_pressure', 'device:writes-refused', o.get('refused', 0))
                ctx.hist('memory_pressure', 'device:writes-served(inconclusive)', o.get('served', 0))
                ctx.hist('memory_pressure', 'device:run-with-a-refusal' if o.get('refused') else 'device:no-failure-provoked(inconclusive)')
                if o.get('MISMATCH') or 'exc' in r:
                    ctx.violation({'kind': 'oom-inconsistent'},
                                  f"after a refused page allocation the engine's memory is inconsistent or the run failed: {r.get('oom_log')} {r.get('exc')} {r.get('msg')}",
                                  {'case': c, 'observed': r, 'required': 'MemoryError from the refused write only; the word reads as never '
                                   'touched, can be written again, everything reads back; the run ends normally',
                                   'how': 'plain build, FJVERIF_MEMORY_PRESSURE=1, fjverif.workers.native_api on this case'})
        for at, rc, tail in aborts:
            c = chunk[at] if at < len(chunk) else None
            ctx.violation({'kind': 'oom-crash'},
                          f'the plain build of the native engine died (rc={rc}) while or after a page allocation was refused',
                          {'case': c, 'stderr_tail': tail,
                           'how': 'gcc -O2 build of _fjcore.c, FJVERIF_MEMORY_PRESSURE=1 (RLIMIT_AS clamped around the marked calls), '
                                  'fjverif.workers.native_api on this case'})
    return api


def run(ctx):
    ctx.level = 'proof'
    fw.static_proofs(ctx, ['Properties/C11.v'], extra_targets=['Model/NativeSafeCase.vo'])
    so = fw.build_fjcore(ctx, sanitize=True)
    # the campaign runs in rounds of 10000 (+ the appended directed/probe cases): one round in the quick tier; the
    # thorough tier would otherwise hold 200000 cases and 16 sanitizer workers' inputs in memory at once
    total = ctx.n(10000, 150000)
    api = []
    first_cases = None
    want = ctx.n(1000, 6000)
    rounds = max(1, total // 10000)
    for _ in range(rounds):
        cases = gen_cases(ctx, total // rounds)
        if first_cases is None:
            first_cases = cases
        got = campaign_round(ctx, so, cases)
        api += got[::max(1, len(got) * rounds // want)][:max(1, want // rounds)]
        if len(ctx.violations) >= 8:
            break
    cases = first_cases
    # the allocation-failure family (plain build): its API sequences join the model tie with a refusing allocator
    npress = ctx.n(160, 1600)
    press = pressure_round(ctx, [oom_case(ctx.rng) for _ in range(npress)] + [oom_file_case(ctx.rng) for _ in range(npress // 3)])
    # the tie of the proved index model (Properties/C11.v) to the code: same call sequences inside Coq
    tie_cases = api[:want] + press
    ncalls = model_tie(ctx, tie_cases)
    ctx.coverage['tie_sequences'] = len(tie_cases)
    ctx.coverage['tie_calls_compared'] = ncalls
    ctx.sample(cases[0])
    ctx.sample(next(c for c in cases if c['kind'] == 'file' and c['tags'] and c['tags'][-1] in ('end_2_64', 'huge_len', 'many')))
    ctx.coverage['rule'] = ('ASan+UBSan build of the current _fjcore.c; cases: (a) valid generated images with random knobs and device '
                            'memory scripts touching arbitrary 64-bit word addresses, (b) hand-written .fjm files with adversarial '
                            'segment tables (huge lengths, ranges ending at 2^64, thousands of unsorted segments, overlaps, zero length, '
                            'data beyond the segment), (c) direct Memory API call sequences (add_segment/set_word/get_word/set_words/run/'
                            're-__init__) with adversarial arguments; violation = any sanitizer report or abnormal worker exit; '
                            'distinct = distinct case descriptions.  Model tie: every direct-API sequence is also evaluated by the Coq '
                            'index model (Model/NativeSafeCase.check_case, vm_compute) and compared call by call: result class '
                            '(ok / ValueError / OverflowError / TypeError / MemoryError), allocated_bytes, storage_mode, get_word values and '
                            'run results (cause, op count, fault address, last ops); a disagreement without a sanitizer report is a broken tie.  '
                            'Refcount probe: sys.getrefcount deltas of read_bit, write_bit, the EOF type and the values list around every run()/'
                            'set_words() call including the error paths (callback raises / returns a non-bool / bad list elements) must be 0.  '
                            'Allocation-failure family (plain gcc build, RLIMIT_AS clamped to the current usage around single calls / device writes, '
                            'M_MMAP_THRESHOLD=64K so the 128 KB page allocation is the one refused): after the MemoryError the same Memory is used on - '
                            'the refused word reads as never touched, is written again, everything reads back, the object is freed; a crash of the '
                            'worker or a wrong read-back is a violation, and the API sequences are compared with the model under a refusing allocator; '
                            'calls that were served anyway are counted as inconclusive')
    ctx.assumptions += ['reference-count ownership and host-crash freedom are exercised dynamically only (sanitizer + refcount probe), not proved',
                        'the theorems are about the hand-written index model Model/NativeSafe.v; allocator: no object larger than PTRDIFF_MAX; '
                        'callbacks only call get_word/set_word (the NativeDeviceMemory interface) - re-entering run/__init__/set_words from a '
                        'callback is outside the property and outside the model',
                        'flat_max_words between 2^25 and 2^44 is not generated (the window would really be allocated)']
