"""C11: the native engine is memory-safe for every image, input and knob.
Dynamic part: sanitizer build of the current _fjcore.c driven with adversarial geometry."""
import json
import subprocess
import time
from concurrent.futures import ThreadPoolExecutor

from .. import framework as fw
from .. import imagegen as ig
from . import c07

U64 = (1 << 64) - 1


def valid_image_case(rng):
    w, segs, tags = ig.gen_image(rng, w=rng.choice([8, 16, 32, 64, 64]), geometry=rng.choice(['plain', 'sparse']))
    table, pool = [], []
    for s, l, data in segs:
        table.append((s, l, len(pool), len(data)))
        pool += data
    return w, table, pool, tags


def adversarial_case(rng):
    w = rng.choice([8, 16, 32, 64, 64, 64])
    ww = w.bit_length() - 1
    dw = 2 * w
    # a small valid code segment at 0
    n = rng.choice([2, 4, 6, 8])
    pool = []
    for i in range(n // 2):
        pool += [rng.choice([0, dw, dw + 1, rng.randrange(1 << min(w, 20)), (rng.getrandbits(64)) & ((1 << w) - 1)]),
                 rng.choice([(i + 1) * dw % (n * w), 0, i * dw, rng.getrandbits(64) & ((1 << w) - 1)])]
    table = [(0, n, 0, n)]
    kind = rng.choice(['huge_len', 'end_2_64', 'many', 'overlap', 'zero_len', 'dlen_gt_len', 'far', 'odd', 'unsorted_many'])
    if kind == 'huge_len':
        table.append((rng.choice([n, 1 << 20, 1 << 40]), rng.choice([1 << 40, 1 << 62, (1 << 63) - 2, 1 << 33]), 0, rng.choice([0, 2])))
    elif kind == 'end_2_64':
        ln = rng.choice([2, 4, 1 << 20, 1 << 63])
        table.append(((1 << 64) - ln - rng.choice([0, 0, 2, -2]), ln, 0, rng.choice([0, 2])))
    elif kind in ('many', 'unsorted_many'):
        cnt = rng.choice([20, 300, 3000])
        starts = [n + 4 * i * rng.choice([1, 1, 1, 1 << 12]) for i in range(cnt)]
        if kind == 'unsorted_many':
            rng.shuffle(starts)
        table += [(s, 2, 0, 0) for s in starts]
    elif kind == 'overlap':
        table += [(0, n + 2, 0, 2), (2, 2, 0, 2), (n - 2, 1 << 15, 0, 0)]
    elif kind == 'zero_len':
        table += [(n, 0, 0, 0), (1 << 30, 0, 0, 0)]
    elif kind == 'dlen_gt_len':
        pool += [rng.randrange(1 << min(w, 30)) for _ in range(8)]
        table.append((rng.choice([n, 1 << 14, (1 << 14) - 2, 1 << 23]), 2, n, 8))
    elif kind == 'far':
        table += [(rng.choice([1 << 14, (1 << 14) - 2, 1 << 23, (1 << 23) - 2, 1 << 40, 1 << 57, (1 << 58) - 2]), rng.choice([2, 4, 1 << 14]), 0, 2)]
    elif kind == 'odd':
        table += [(n + 1, 3, 0, 0), (rng.randrange(1 << 30) | 1, 5, 0, 2)]
    return w, table, pool, [kind]


def device_script(rng, table):
    script = {}
    for call in range(rng.choice([0, 1, 3])):
        ops = []
        for _ in range(rng.choice([1, 2, 5])):
            s, l = rng.choice(table)[:2]
            a = rng.choice([s, s + max(l, 1) - 1, s + l, (s + l + 1) & U64, rng.getrandbits(64), U64, U64 - 1, (1 << 63),
                            (1 << 14) - 1, 1 << 14, (1 << 23) - 1, 1 << 23, rng.randrange(1 << 16)])
            k = rng.choice(['r', 'w', 'rb', 'wb'])
            ops.append([k, a] if k in ('r', 'rb') else [k, a, rng.getrandbits(64)])
        script[str(call)] = ops
    return script


def api_case(rng):
    calls = [['new', [rng.choice([8, 16, 32, 64])], {'flat_max_words': rng.choice([0, 1, 2, 3, 1 << 14, 1 << 23])}]]
    for _ in range(rng.choice([3, 8, 20, 60])):
        r = rng.random()
        a = rng.choice([0, 1, 2, 6, (1 << 14) - 1, 1 << 14, (1 << 23) - 1, 1 << 23, 1 << 40, U64, U64 - 1, 1 << 63,
                        rng.getrandbits(64), rng.randrange(1 << 18)])
        if r < 0.25:
            calls.append(['add_segment', a if rng.random() < 0.5 else rng.choice([0, 0, 2, 1 << 14]),
                          rng.choice([0, 2, 4, 7, 1 << 14, 1 << 20, 1 << 40, 1 << 63, U64, U64 - 1, (U64 - a + 1) & U64, (U64 - a) & U64])])
        elif r < 0.45:
            calls.append(['set_word', a, rng.getrandbits(64)])
        elif r < 0.6:
            calls.append(['get_word', a])
        elif r < 0.75:
            calls.append(['set_words', a, [rng.getrandbits(64) for _ in range(rng.choice([0, 1, 2, 5, 40]))]])
        elif r < 0.9:
            calls.append(['run', rng.choice(['', '00', 'ff31']), {'last_ops_length': rng.choice([0, 0, 1, 3, 100]),
                                                                 'start_ip': rng.choice([0, 0, 0, 128, 7, rng.getrandbits(64), U64])}])
        elif r < 0.95:
            calls.append(['init', [rng.choice([8, 16, 32, 64])], {'flat_max_words': rng.choice([0, 2, 1 << 14])}])
        else:
            calls.append(['get', rng.choice(['storage_mode', 'allocated_bytes', 'last_run_op_count', 'speculation_stats'])])
    return {'kind': 'api', 'calls': calls}


def gen_cases(ctx, n):
    rng = ctx.rng
    cases = []
    for _ in range(n):
        r = rng.random()
        if r < 0.3:
            cases.append(api_case(rng))
            continue
        w, table, pool, tags = valid_image_case(rng) if r < 0.6 else adversarial_case(rng)
        k = c07.knobs(rng, w)
        if rng.random() < 0.1:
            k['flat_max_words'] = rng.choice([1 << 50, 1 << 62, U64])      # allocation must fail cleanly, not wrap
        # the flat window really gets allocated and filled: keep it small (<= 2^24 words) or impossibly large
        limit = k.get('flat_max_words') or (1 << 23)
        window = max([min(s + l, limit) for s, l, _, _ in table if s < limit and s + l <= U64] or [0])
        if (1 << 24) < window < (1 << 44) and not k.get('no_flat'):
            k['flat_max_words'] = 1 << 23
        cases.append(dict(kind='file', w=w, segs=table, words=pool, version=rng.choice([0, 1]),
                          input=bytes(rng.randrange(256) for _ in range(rng.choice([0, 1, 2]))).hex(),
                          script=device_script(rng, table), tags=tags, **k))
    return cases


def run_batch(ctx, so, cases, idx):
    """returns (results aligned with cases, list of (case_index, stderr tail) for sanitizer aborts)"""
    results = [None] * len(cases)
    aborts = []
    start = 0
    while start < len(cases):
        inp = ctx.scratch / f'c11_{idx}_{start}.in.json'
        outp = ctx.scratch / f'c11_{idx}_{start}.out.json'
        prog = ctx.scratch / f'c11_{idx}_{start}.prog'
        inp.write_text(json.dumps(cases[start:]))
        env = fw.env_for_repo({'FJVERIF_FJCORE_SO': str(so), 'LD_PRELOAD': fw.ASAN_RT,
                               'ASAN_OPTIONS': 'detect_leaks=0:allocator_may_return_null=1:exitcode=77:abort_on_error=0',
                               'UBSAN_OPTIONS': 'print_stacktrace=1:halt_on_error=1:exitcode=78'})
        p = subprocess.run(['timeout', '900', fw.PY, '-m', 'fjverif.workers.native_api', str(inp), str(outp), str(prog)],
                           env=env, stdout=subprocess.PIPE, stderr=subprocess.STDOUT, text=True, cwd=str(ctx.scratch))
        done = json.loads(outp.read_text()) if outp.exists() else []
        for i, r in enumerate(done):
            results[start + i] = r
        if p.returncode == 0:
            break
        at = start + len(done)
        aborts.append((at, p.returncode, p.stdout[-3000:]))
        start = at + 1
    return results, aborts


def run(ctx):
    ctx.level = 'proof'
    fw.static_proofs(ctx, ['Properties/C11.v'])
    so = fw.build_fjcore(ctx, sanitize=True)
    cases = gen_cases(ctx, ctx.n(10000, 200000))
    nb = fw.NCPU
    chunks = [cases[i::nb] for i in range(nb)]
    with ThreadPoolExecutor(max_workers=nb) as ex:
        outs = list(ex.map(lambda t: run_batch(ctx, so, t[1], t[0]), list(enumerate(chunks))))
    for (results, aborts), chunk in zip(outs, chunks):
        for c, r in zip(chunk, results):
            ctx.count(json.dumps(c, sort_keys=True)[:4000], nontrivial=True)
            ctx.hist('case_kind', c['kind'] + ':' + ','.join(c.get('tags', [])[-1:]))
            if r is None:
                ctx.hist('outcome', 'aborted-or-skipped')
            elif c['kind'] == 'file':
                ctx.hist('outcome', 'exc:' + r['exc'] if 'exc' in r else f'cause:{r["cause"]}')
        for at, rc, tail in aborts:
            c = chunk[at] if at < len(chunk) else None
            kind = 'asan' if 'AddressSanitizer' in tail else 'ubsan' if 'runtime error' in tail else 'crash'
            where = ''
            for line in tail.splitlines():
                if '_fjcore.c:' in line:
                    where = line.strip().split(' ')[-1]
                    break
            ctx.violation({'kind': 'sanitizer-' + kind, 'where': where.split('/')[-1]},
                          f'sanitizer build of the native engine aborted (rc={rc}, {kind}) {where}',
                          {'case': c, 'stderr_tail': tail,
                           'how': 'build _fjcore.c with -fsanitize=address,undefined and run fjverif.workers.native_api on this case'})
    ctx.sample(cases[0])
    ctx.sample(next(c for c in cases if c['kind'] == 'file' and c['tags'] and c['tags'][-1] in ('end_2_64', 'huge_len', 'many')))
    ctx.coverage['rule'] = ('ASan+UBSan build of the current _fjcore.c; cases: (a) valid generated images with random knobs and device '
                            'memory scripts touching arbitrary 64-bit word addresses, (b) hand-written .fjm files with adversarial '
                            'segment tables (huge lengths, ranges ending at 2^64, thousands of unsorted segments, overlaps, zero length, '
                            'data beyond the segment), (c) direct Memory API call sequences (add_segment/set_word/get_word/set_words/run/'
                            're-__init__) with adversarial arguments; violation = any sanitizer report or abnormal worker exit; '
                            'distinct = distinct case descriptions')
    ctx.assumptions += ['reference-count ownership and host-crash freedom are exercised dynamically only (sanitizer), not proved',
                        'flat_max_words between 2^25 and 2^44 is not generated (the window would really be allocated)']
