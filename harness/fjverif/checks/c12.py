"""C12: constant expressions evaluate as unbounded-integer arithmetic.

static : Properties/C12.v (universal theorems) + Tie/C12_tie.v against Gen/Facts_C12.v regenerated from the
         current source by gen_facts_c12.py (operator table, precedence, lexer tokens, escapes, grammar actions,
         text of the transcribed functions).
dynamic: (i)   every ordered operator pair / prefix-binary combination / conditional combination as
               unparenthesised source, real parser's tree == reference parser of the specification (in Coq);
         (ii)  random deeper expressions, operands incl. negatives and > 64-bit intermediates, literals in every
               notation, random parenthesisation;
         (iii) every identifier assigned to {constant, macro parameter, rep iterator, label, $} and the expression
               placed at top level / in a macro body / as a rep argument / in a constant definition, so that
               get_minimized_expr, eval_new and exact_eval are all crossed;
         (iv)  literal decoding alone (number, char, string with escapes) and the string-literal boundary probe.
         Observable: the flip/jump word in the assembled image (Reader(...).memory) or the exception class.
         Every case is evaluated in Coq twice: model prediction == observed, and specification allows observed."""
import json
import re
from pathlib import Path

from .. import framework as fw
from .. import gen_facts_c12 as gen

HEADER = ('From FJ Require Import Lib.Base Model.Ast Spec.ExprSpec Model.Expr.\n'
          'Local Open Scope string_scope.\nLocal Open Scope Z_scope.\n')

BINOPS = [('+', 'BAdd', 'OAdd'), ('-', 'BSub', 'OSub'), ('*', 'BMul', 'OMul'), ('/', 'BDiv', 'ODiv'),
          ('%', 'BMod', 'OMod'), ('**', 'BPow', 'OPow'), ('<<', 'BShl', 'OShl'), ('>>', 'BShr', 'OShr'),
          ('^', 'BXor', 'OXor'), ('|', 'BOr', 'OOr'), ('&', 'BAnd', 'OAnd'), ('&&', 'BLand', 'OLand'),
          ('||', 'BLor', 'OLor'), ('<', 'BLt', 'OLt'), ('>', 'BGt', 'OGt'), ('<=', 'BLe', 'OLe'),
          ('>=', 'BGe', 'OGe'), ('==', 'BEq', 'OEq'), ('!=', 'BNe', 'ONe')]
SYM2B = {s: b for s, b, _ in BINOPS}
SYM2O = {s: o for s, _, o in BINOPS}
SYM2O.update({'#': 'OBitlen', '~': 'ONot', '?:': 'OCond'})
TOKNAME = {'+': '+', '-': '-', '*': '*', '/': '/', '%': '%', '**': 'POW', '<<': 'SHL', '>>': 'SHR', '^': '^',
           '|': '|', '&': '&', '&&': 'LAND', '||': 'LOR', '<': '<', '>': '>', '<=': 'LE', '>=': 'GE',
           '==': 'EQ', '!=': 'NEQ'}
PREFIX = ['-', '~', '#']
WEIGHTED_OPS = [s for s, _, _ in BINOPS] + ['+', '-', '*', '/', '%', '<<', '>>', '^', '|', '&', '/', '%', '>>', '**']
PREFIX_ROW = {'-': 'UMINUS', '~': 'UNOT', '#': '#'}
MAXBITS = 4096


# ---------------------------------------------------------------------------------------------------
# the documented table, read from Spec/ExprSpec.v (generator guidance only: the verdicts come from Coq)

def spec_precedence():
    txt = (fw.COQ / 'Spec' / 'ExprSpec.v').read_text()
    m = re.search(r'Definition doc_precedence.*?:=\s*\[(.*?)\]\.', txt, re.S)
    rows = re.findall(r'\((LeftA|RightA|NonA),\s*\[(.*?)\]\)', m.group(1))
    table = {}
    for i, (a, names) in enumerate(rows, 1):
        for n in re.findall(r'"([^"]*)"', names):
            table[n] = (i, a)
    assert len(rows) == 14, 'doc_precedence does not have 14 rows'
    return table


class SyntaxErr(Exception):
    pass


class TooBig(Exception):
    pass


class RefParser:
    """Python port of Spec.ExprSpec.parse (precedence climbing); used to steer generation."""

    def __init__(self, table):
        self.t = table
        self.pu = table['UMINUS'][0]
        self.pc = table['?'][0]

    def parse(self, toks):
        self.toks, self.i = toks, 0
        e = self.expr(0)
        if self.i != len(toks):
            raise SyntaxErr()
        return e

    def peek(self):
        return self.toks[self.i] if self.i < len(self.toks) else None

    def primary(self):
        t = self.peek()
        if t is None:
            raise SyntaxErr()
        self.i += 1
        if t[0] == 'num':
            return ('int', t[1])
        if t[0] == 'id':
            return ('id', t[1])
        if t[0] == '(':
            e = self.expr(0)
            if self.peek() is None or self.peek()[0] != ')':
                raise SyntaxErr()
            self.i += 1
            return e
        if t[0] == 'op' and t[1] == '-':
            return ('bin', '-', ('int', 0), self.expr(self.pu))
        if t[0] == '~':
            return ('un', '~', self.expr(self.pu))
        if t[0] == '#':
            return ('un', '#', self.expr(self.pu))
        raise SyntaxErr()

    def expr(self, minp):
        lhs = self.primary()
        while True:
            t = self.peek()
            if t is not None and t[0] == 'op':
                p, a = self.t[TOKNAME[t[1]]]
                if p < minp:
                    return lhs
                self.i += 1
                rhs = self.expr(p if a == 'RightA' else p + 1)
                lhs = ('bin', t[1], lhs, rhs)
                n = self.peek()
                if a == 'NonA' and n is not None and n[0] == 'op' and self.t[TOKNAME[n[1]]][0] == p:
                    raise SyntaxErr()
            elif t is not None and t[0] == '?':
                if self.pc < minp:
                    return lhs
                self.i += 1
                mid = self.expr(0)
                if self.peek() is None or self.peek()[0] != ':':
                    raise SyntaxErr()
                self.i += 1
                els = self.expr(self.pc)
                lhs = ('cond', lhs, mid, els)
            else:
                return lhs


class EvalErr(Exception):
    pass


SEEN = {'bits': 0}


def guard(v):
    b = v.bit_length()
    if b > MAXBITS:
        raise TooBig()
    if b > SEEN['bits']:
        SEEN['bits'] = b
    return v


def ev_all(es, env):
    """every operand is evaluated (in some stage each error-free sub-expression IS computed, whatever fails to
    its left), then the leftmost error wins"""
    vals, first = [], None
    for x in es:
        try:
            vals.append(ev(x, env))
        except EvalErr as err:
            vals.append(None)
            first = first or err
    if first is not None:
        raise first
    return vals


def ev(e, env):
    """unbounded-integer evaluation used to steer generation (sizes, which cases raise)"""
    k = e[0]
    if k == 'int':
        return e[1]
    if k == 'id':
        if e[1] not in env:
            raise EvalErr('unbound')
        return env[e[1]]
    if k == 'un':
        a = ev(e[2], env)
        return a.bit_length() if e[1] == '#' else ~a
    if k == 'cond':
        c, a, b = ev_all(e[1:], env)
        return a if c else b
    o = e[1]
    a, b = ev_all(e[2:], env)
    if o == '+':
        return guard(a + b)
    if o == '-':
        return guard(a - b)
    if o == '*':
        return guard(a * b)
    if o in ('/', '%'):
        if b == 0:
            raise EvalErr('zero')
        return a // b if o == '/' else a % b
    if o == '**':
        if b < 0:
            raise EvalErr('negexp')
        if b > 4 * MAXBITS or (abs(a) > 1 and b * max(1, a.bit_length() - 1) > MAXBITS):
            raise TooBig()
        return guard(a ** b)
    if o in ('<<', '>>'):
        if b < 0:
            raise EvalErr('negshift')
        if b > 2 * MAXBITS:
            raise TooBig()
        return guard(a << b) if o == '<<' else a >> b
    if o == '^':
        return a ^ b
    if o == '|':
        return a | b
    if o == '&':
        return a & b
    if o == '&&':
        return 1 if (a and b) else 0
    if o == '||':
        return 1 if (a or b) else 0
    return {'<': a < b, '>': a > b, '<=': a <= b, '>=': a >= b, '==': a == b, '!=': a != b}[o] and 1 or 0


def tree_ops(e, acc=None):
    acc = [] if acc is None else acc
    if e[0] == 'un':
        acc.append(e[1])
        tree_ops(e[2], acc)
    elif e[0] == 'bin':
        acc.append(e[1])
        tree_ops(e[2], acc)
        tree_ops(e[3], acc)
    elif e[0] == 'cond':
        acc.append('?:')
        for x in e[1:]:
            tree_ops(x, acc)
    return acc


def tree_ids(e, acc=None):
    acc = set() if acc is None else acc
    if e[0] == 'id':
        acc.add(e[1])
    elif e[0] != 'int':
        for x in e[1:]:
            if isinstance(x, tuple):
                tree_ids(x, acc)
    return acc


# ---------------------------------------------------------------------------------------------------
# Coq printing

def cz(n):
    return f'({n})' if n < 0 else str(n)


def cstr(s):
    return '"' + s.replace('"', '""') + '"'


def ctok(t):
    k = t[0]
    if k == 'num':
        return f'TNum {cz(t[1])}'
    if k == 'id':
        return f'TIdent {cstr(t[1])}'
    if k == 'op':
        return f'TBinop {SYM2B[t[1]]}'
    return {'~': 'TTilde', '#': 'THash', '?': 'TQuest', ':': 'TColon', '(': 'TLParen', ')': 'TRParen'}[k]


def ctoks(toks):
    return '[' + '; '.join(ctok(t) for t in toks) + ']'


def csexpr(e):
    k = e[0]
    if k == 'int':
        return f'SInt {cz(e[1])}'
    if k == 'id':
        return f'SId {cstr(e[1])}'
    if k == 'un':
        return f'SUn {"UBitLen" if e[1] == "#" else "UNot"} ({csexpr(e[2])})'
    if k == 'cond':
        return f'SCond ({csexpr(e[1])}) ({csexpr(e[2])}) ({csexpr(e[3])})'
    return f'SBin {SYM2B[e[1]]} ({csexpr(e[2])}) ({csexpr(e[3])})'


def cmexpr(j):
    """tree dumped by the worker -> Model.Ast.expr"""
    if isinstance(j, str):
        return f'EInt {cz(int(j))}'
    if 'l' in j:
        return f'ELbl {cstr(j["l"])}'
    return f'EOp {SYM2O[j["o"]]} [' + '; '.join(cmexpr(a) for a in j['a']) + ']'


def cpairs_z(d):
    return '[' + '; '.join(f'({cstr(k)}, {cz(v)})' for k, v in d) + ']'


def cobs(o):
    if o[0] == 'word':
        return f'ObsWord {cz(o[1])}'
    if o[0] == 'lib':
        return f'ObsLibError {cstr(o[1])}'
    if o[0] == 'catchall':
        return f'ObsCatchAll {cstr(o[1])}'
    return 'ObsSyntaxError'


def obs_of_error(err):
    if err['class'] == 'FlipJumpParsingException':
        return ('syntax',)
    if err['catchall']:
        return ('catchall', err['cause'] or '?')
    return ('lib', err['class'])


# ---------------------------------------------------------------------------------------------------
# source text

ESC = {0: '0', 7: 'a', 8: 'b', 27: 'e', 12: 'f', 10: 'n', 13: 'r', 9: 't', 11: 'v', 92: '\\', 39: "'", 34: '"', 63: '?'}


def char_item(rng, b, avoid_dquote=False):
    """one byte value as source text + the Coq char_item"""
    forms = []
    if 32 <= b <= 126 and b not in (92, 34, 39):
        forms += ['plain'] * 3
    if b in ESC and not (avoid_dquote and b == 34):
        forms.append('esc')
    forms.append('hex')
    f = rng.choice(forms)
    if f == 'plain':
        return chr(b), f'Plain {b}'
    if f == 'esc':
        return '\\' + ESC[b], f'Escaped {ord(ESC[b])}'
    x = rng.choice('xX')
    h = ('%02x' % b) if rng.random() < 0.5 else ('%02X' % b)
    return f'\\{x}{h}', f'HexEscaped {ord(x)} {ord(h[0])} {ord(h[1])}'


def number_text(rng, v, allow_string, avoid_dquote):
    """a non-negative value in a random notation -> (text, notation)"""
    forms = ['dec', 'dec', 'hex', 'bin' if v.bit_length() <= 80 else 'hex']
    if v < 256:
        forms.append('char')
    if allow_string and v.bit_length() <= 128:
        forms.append('str')
    f = rng.choice(forms)
    if f == 'dec':
        return ('0' * rng.choice([0, 0, 0, 1, 2])) + str(v), f
    if f == 'hex':
        h = '%x' % v
        h = ''.join(c.upper() if rng.random() < 0.5 else c for c in h)
        return '0' + rng.choice('xX') + h, f
    if f == 'bin':
        return '0' + rng.choice('bB') + bin(v)[2:], f
    if f == 'char':
        t, _ = char_item(rng, v)
        if v == 34 and rng.random() < 0.4:
            t = '"'                                      # a bare quote is a legal char literal
        return "'" + t + "'", f
    bs = v.to_bytes((v.bit_length() + 7) // 8, 'little')
    return '"' + ''.join(char_item(rng, b)[0] for b in bs) + '"', f


def render(rng, toks, notations=None, line=None):
    """tokens -> source text; literal notations chosen at random (several string literals may share a line:
    finding F15, fixed in the repository, made them merge)"""
    parts = []
    line = {} if line is None else line
    for t in toks:
        if t[0] == 'num':
            txt, f = number_text(rng, t[1], allow_string=True, avoid_dquote=False)
            if f == 'str':
                line['string'] = True
            if notations is not None:
                notations.append(f)
            parts.append(txt)
        elif t[0] == 'id':
            parts.append(t[1])
        elif t[0] == 'op':
            parts.append(t[1])
        else:
            parts.append(t[0])
    out = ''
    for i, p in enumerate(parts):
        if i and rng.random() < 0.7:
            out += ' '
        elif i and (out[-1].isalnum() or out[-1] in '_$\'"') and (p[0].isalnum() or p[0] in '_$\'"'):
            out += ' '
        elif i and out[-1] in '<>=!&|*' and p[0] in '<>=&|*':
            out += ' '                                   # do not create << <= && ** ... out of two tokens
        out += p
    return out


# ---------------------------------------------------------------------------------------------------
# random expressions

def rand_val(rng, small=False):
    r = rng.random()
    if small:
        if r < 0.12:
            return 0
        if r < 0.22:
            return -rng.randrange(1, 9)
        if r < 0.9:
            return rng.randrange(0, 70)
        return rng.randrange(70, 200)
    if r < 0.12:
        return 0
    if r < 0.3:
        return rng.randrange(1, 20)
    k = rng.choice([7, 8, 15, 16, 31, 32, 33, 63, 64, 65, 100, 130])
    if r < 0.5:
        v = rng.choice([(1 << k) - 1, 1 << k, (1 << k) + 1])
    else:
        v = rng.randrange(1 << k)
    return -v if rng.random() < 0.3 else v


def gen_tree(rng, depth, leaf, small=False):
    """leaf(small) -> an atom token list element description"""
    if depth <= 0 or rng.random() < 0.22:
        return leaf(small)
    r = rng.random()
    if r < 0.12:
        return ('pre', rng.choice(PREFIX), gen_tree(rng, depth - 1, leaf, small))
    if r < 0.2:
        return ('cond', gen_tree(rng, depth - 1, leaf, True), gen_tree(rng, depth - 1, leaf, small),
                gen_tree(rng, depth - 1, leaf, small))
    o = rng.choice(WEIGHTED_OPS)
    right_small = o in ('<<', '>>', '**')
    return ('bin', o, gen_tree(rng, depth - 1, leaf, small), gen_tree(rng, depth - 1, leaf, small or right_small))


def to_tokens(rng, t, paren_p):
    """print a generated tree with RANDOM parenthesisation (the text is re-parsed: its meaning is whatever the
    documented precedence says, not necessarily the generated tree)"""
    k = t[0]
    if k in ('num', 'id'):
        return [t]
    if k == 'pre':
        inner = to_tokens(rng, t[2], paren_p)
        body = [('op', '-')] if t[1] == '-' else [(t[1],)]
        return body + wrap(rng, t[2], inner, paren_p)
    if k == 'cond':
        return (wrap(rng, t[1], to_tokens(rng, t[1], paren_p), paren_p) + [('?',)]
                + wrap(rng, t[2], to_tokens(rng, t[2], paren_p), paren_p) + [(':',)]
                + wrap(rng, t[3], to_tokens(rng, t[3], paren_p), paren_p))
    return (wrap(rng, t[2], to_tokens(rng, t[2], paren_p), paren_p) + [('op', t[1])]
            + wrap(rng, t[3], to_tokens(rng, t[3], paren_p), paren_p))


def wrap(rng, t, toks, paren_p):
    if t[0] in ('num', 'id'):
        return [('(',)] + toks + [(')',)] if rng.random() < 0.03 else toks
    return [('(',)] + toks + [(')',)] if rng.random() < paren_p else toks


# ---------------------------------------------------------------------------------------------------
# programs: where an expression is placed and how its identifiers get their values

def gen_program_case(ctx, rp):
    """one assembled program = one or several ecases. Returns dict or None (rejected)."""
    rng = ctx.rng
    w = rng.choice([8, 16, 32, 64, 64, 64])
    shape = rng.choice(['top', 'top', 'macro', 'macro', 'rep', 'rep', 'rep0', 'const'])
    n_rep = rng.choice([1, 2, 3]) if shape in ('rep', 'rep0') else 1
    if w == 8:
        n_rep = min(n_rep, 2)
    dw = 2 * w
    filler = rng.choice([1, 2])
    max_m = (1 << w) // dw - 2
    lo_m = n_rep + filler + 2
    kbits = rng.randrange(lo_m.bit_length(), max(max_m.bit_length(), lo_m.bit_length() + 1))
    far_m = max(lo_m, min(max_m, rng.randrange(1 << kbits, (1 << (kbits + 1)))))
    label_names = ['La', 'Lb', 'Lfar']
    classes = {'top': ['const', 'label', 'label', 'dollar'],
               'macro': ['const', 'param', 'param', 'label', 'dollar'],
               'rep': ['const', 'param', 'iter', 'iter', 'label'],
               'rep0': ['const', 'iter', 'iter', 'label'],
               'const': ['const', 'const', 'const', 'lit']}[shape]
    consts, params = {}, {}
    if rng.random() < 0.15:
        consts['w'] = w

    def leaf(small):
        c = rng.choice(classes + ['lit', 'lit'])
        if c == 'lit':
            v = rand_val(rng, small)
            return ('num', v) if v >= 0 else ('pre', '-', ('num', -v))
        if c == 'const':
            if consts and rng.random() < 0.5:
                return ('id', rng.choice(sorted(consts)))
            name = f'c{len(consts)}'
            consts[name] = rand_val(rng, small)
            return ('id', name)
        if c == 'param':
            if params and rng.random() < 0.4:
                return ('id', rng.choice(sorted(params)))
            name = f'p{len(params)}'
            if rng.random() < 0.25 and not small:
                lab = rng.choice(label_names)
                off = rng.choice([0, 8, dw, 1000])
                params[name] = ('bin', '+', ('id', lab), ('int', off)) if off else ('id', lab)
            else:
                params[name] = ('int', rand_val(rng, small))
            return ('id', name)
        if c == 'iter':
            return ('id', 'i')
        if c == 'dollar':
            return ('id', '$')
        return ('id', rng.choice(label_names))

    depth = rng.choice([1, 2, 2, 3, 3, 4, 5])
    tree = gen_tree(rng, depth, leaf)
    if rng.random() < 0.45:            # a window of w bits of a wide / negative value (words outside [0,2^w) are refused)
        sh = rng.choice([0, 0, 8, 32, 64, 100])
        tree = ('bin', '&', ('bin', '>>', tree, ('num', sh)), ('num', (1 << rng.choice([w, w, max(1, w - 1), 4])) - 1))
    toks = to_tokens(rng, tree, rng.choice([0.0, 0.2, 0.5, 0.9]))
    if shape == 'const' and rng.random() < 0.05:
        toks = toks + [('op', '+'), ('id', 'La')]         # a label in a constant definition: syntax error
    try:
        ast_ = rp.parse(toks)
    except SyntaxErr:
        ast_ = None

    def outcomes_for(n):
        labels = {'La': n * dw, 'Lb': (n + filler) * dw, 'Lfar': far_m * dw}
        g0 = dict(consts)
        g0.update(labels)
        g0['$'] = dw
        for p, a in params.items():
            g0[p] = ev(a, g0)
        outs = []
        for k in range(n):
            if ast_ is None:
                outs.append(('syntax',))
                continue
            g = dict(consts) if shape == 'const' else dict(g0)
            g['i'] = k
            if shape == 'const':
                g.pop('i')
            try:
                outs.append(('val', ev(ast_, g)))
            except EvalErr as e:
                outs.append(('err', str(e)))
        return labels, outs

    SEEN['bits'] = 0
    labels, outcomes = outcomes_for(n_rep)
    if n_rep > 1 and any(o[0] != 'val' or not (0 <= o[1] < (1 << w)) for o in outcomes):
        n_rep = 1              # an error / out-of-range word stops the whole assembly: keep the single i = 0
        labels, outcomes = outcomes_for(1)
    return build_program(ctx, rp, w, shape, n_rep, filler, labels, consts, params, toks, ast_, outcomes, far_m)


def arg_tokens(a):
    """a macro argument (always parenthesised when it is not an atom: `m -5` would be the expression m-5)"""
    if a[0] == 'int':
        return [('num', a[1])] if a[1] >= 0 else [('(',), ('op', '-'), ('num', -a[1]), (')',)]
    if a[0] == 'id':
        return [a]
    return [('(',), ('id', a[2][1]), ('op', '+'), ('num', a[3][1]), (')',)]


def build_program(ctx, rp, w, shape, n_rep, filler, labels, consts, params, toks, ast_, outcomes, far_m):
    rng = ctx.rng
    dw = 2 * w
    is_flip = rng.random() < 0.4
    notations = []
    etxt = render(rng, toks, notations)
    lines = []
    for name, v in consts.items():
        if name == 'w':
            continue
        lit = render(rng, [('num', abs(v))], notations)
        lines.append(f'{name} = {lit}' if v >= 0 else f'{name} = {rng.choice(["-", "0-", "0 - "])}{lit}')
    stmt = (etxt + ';') if is_flip else (';' + etxt)
    pnames = sorted(params)
    arg_line = {}
    args = ', '.join(render(rng, arg_tokens(params[p]), notations, arg_line) for p in pnames)
    globs = ' < La, Lb, Lfar'
    stages = []
    bind_params = [(p, params[p]) for p in pnames]
    if shape == 'top':
        lines.append(stmt)
        stages = [[('$', ('int', dw))]]
    elif shape == 'macro':
        lines += [f'def outer {", ".join(pnames)}{globs} {{', '    ' + stmt, '}', ('outer ' + args).rstrip()]
        stages = [bind_params + [('$', ('int', dw))]]
    elif shape in ('rep', 'rep0'):
        leaf_stmt = 'v;' if is_flip else ';v'
        lines += ['def leaf v {', '    ' + leaf_stmt, '}']
        rep_arg = etxt if toks[0] != ('op', '-') else '(' + etxt + ')'
        rep_line = f'rep({n_rep}, i) leaf {rep_arg}'
        if shape == 'rep':
            lines += [f'def outer {", ".join(pnames)}{globs} {{', '    ' + rep_line, '}', ('outer ' + args).rstrip()]
        else:
            lines.append(rep_line)
    else:
        lines.append(f'x = {etxt}')
        lines.append('x;' if is_flip else ';x')
    lines.append('La:')
    lines += [';0'] * filler
    lines.append('Lb:')
    lines.append(';0')
    lines.append(f'segment {far_m * dw}')
    lines.append('Lfar:')
    lines.append(';0')
    src = '\n'.join(lines) + '\n'
    cases = []
    for k in range(n_rep):
        if shape in ('rep', 'rep0'):
            st = [[('i', ('id', 'i:rep'))], bind_params if shape == 'rep' else [], [('i:rep', ('int', k))]]
        else:
            st = stages
        cases.append({'kind': 1 if shape == 'const' else 0, 'w': w, 'is_flip': is_flip, 'toks': toks,
                      'consts': sorted(consts.items()), 'stages': st,
                      'labels': sorted(labels.items()), 'word': 2 * k + (0 if is_flip else 1),
                      'gen_outcome': outcomes[k], 'shape': shape, 'iter': k})
    words = sorted({c['word'] for c in cases})
    return {'job': {'mode': 'asm', 'w': w, 'src': src, 'words': words}, 'cases': cases, 'shape': shape,
            'ops': tree_ops(ast_) if ast_ else [], 'ids': sorted(tree_ids(ast_)) if ast_ else [],
            'notations': notations, 'etxt': etxt, 'max_bits': SEEN['bits']}


def ecase_term(c, obs):
    stages = '[' + '; '.join('[' + '; '.join(f'({cstr(n)}, {csexpr(t)})' for n, t in st) + ']' for st in c['stages']) + ']'
    return (f'mk_ecase {c["kind"]}%nat {c["w"]} {"true" if c["is_flip"] else "false"} {ctoks(c["toks"])} '
            f'{cpairs_z(c["consts"])} {stages} {cpairs_z(c["labels"])} ({cobs(obs)})')


# ---------------------------------------------------------------------------------------------------
# (i) exhaustive precedence / associativity

def precedence_lines(ctx):
    a, b, c, d, e = (('id', n) for n in ('a', 'b', 'c', 'd', 'e'))
    syms = [s for s, _, _ in BINOPS]
    lines = []
    for o1 in syms:
        for o2 in syms:
            lines.append(('pair', [a, ('op', o1), b, ('op', o2), c]))
    for u in PREFIX:
        ut = ('op', '-') if u == '-' else (u,)
        for o in syms:
            lines.append(('prefix-binary', [ut, a, ('op', o), b]))
            lines.append(('binary-prefix', [a, ('op', o), ut, b]))
        for u2 in PREFIX:
            lines.append(('prefix-prefix', [ut, ('op', '-') if u2 == '-' else (u2,), a]))
        lines.append(('prefix-cond', [ut, a, ('?',), b, (':',), c]))
        lines.append(('cond-prefix', [a, ('?',), ut, b, (':',), ut, c]))
    for o in syms:
        lines.append(('binary-cond', [a, ('op', o), b, ('?',), c, (':',), d]))
        lines.append(('cond-binary', [a, ('?',), b, (':',), c, ('op', o), d]))
        lines.append(('cond-mid-binary', [a, ('?',), b, ('op', o), c, (':',), d]))
    lines.append(('cond-cond', [a, ('?',), b, (':',), c, ('?',), d, (':',), e]))
    lines.append(('cond-in-mid', [a, ('?',), b, ('?',), c, (':',), d, (':',), e]))
    lines.append(('paren', [('(',), a, ('op', '+'), b, (')',), ('op', '*'), c]))
    for u in PREFIX:
        ut = ('op', '-') if u == '-' else (u,)
        for o1 in syms:
            for o2 in syms:
                lines.append(('binary-prefix-binary', [a, ('op', o1), ut, b, ('op', o2), c]))
    if not ctx.quick():
        for o1 in syms:
            for o2 in syms:
                for o3 in syms:
                    lines.append(('triple', [a, ('op', o1), b, ('op', o2), c, ('op', o3), d]))
    return lines


def plain_text(toks):
    return ' '.join(t[1] if t[0] in ('id', 'op') else t[0] for t in toks)


def run_precedence(ctx, rp):
    lines = precedence_lines(ctx)
    predicted_ok, predicted_bad = [], []
    for kind, toks in lines:
        try:
            rp.parse(toks)
            predicted_ok.append((kind, toks))
        except SyntaxErr:
            predicted_bad.append((kind, toks))
    w = 64
    # one file with every line predicted to parse (in chunks), one file per line predicted to be rejected
    chunks = [predicted_ok[i:i + 400] for i in range(0, len(predicted_ok), 400)]
    jobs = [{'mode': 'parse', 'w': w, 'src': '\n'.join(f'{plain_text(t)} ; {plain_text(t)}' for _, t in ch) + '\n'}
            for ch in chunks]
    jobs += [{'mode': 'parse', 'w': w, 'src': f'{plain_text(t)} ; {plain_text(t)}\n'} for _, t in predicted_bad]
    res = run_jobs(ctx, jobs)
    terms, meta = [], []
    for ch, r in zip(chunks, res[:len(chunks)]):
        if 'trees' in r and len(r['trees']) == len(ch):
            for (kind, toks), (f, j) in zip(ch, r['trees']):
                for pos, tr in (('flip', f), ('jump', j)):
                    terms.append(f'({ctoks(toks)}, Some ({cmexpr(tr)}))')
                    meta.append((kind, toks, pos, tr))
        else:                                             # isolate: one line per job
            sub = run_jobs(ctx, [{'mode': 'parse', 'w': w, 'src': f'{plain_text(t)} ; {plain_text(t)}\n'} for _, t in ch])
            for (kind, toks), r1 in zip(ch, sub):
                if 'trees' in r1 and len(r1['trees']) == 1:
                    for pos, tr in (('flip', r1['trees'][0][0]), ('jump', r1['trees'][0][1])):
                        terms.append(f'({ctoks(toks)}, Some ({cmexpr(tr)}))')
                        meta.append((kind, toks, pos, tr))
                else:
                    terms.append(f'({ctoks(toks)}, @None expr)')
                    meta.append((kind, toks, 'line', r1.get('error')))
    for (kind, toks), r in zip(predicted_bad, res[len(chunks):]):
        if 'trees' in r and len(r['trees']) == 1:
            terms.append(f'({ctoks(toks)}, Some ({cmexpr(r["trees"][0][1])}))')
            meta.append((kind, toks, 'jump', r['trees'][0][1]))
        else:
            terms.append(f'({ctoks(toks)}, @None expr)')
            meta.append((kind, toks, 'line', r.get('error')))
    oks = fw.coq_eval_shards(ctx, 'c12_prec', HEADER, terms, 'check_parse_case', shard=600, timeout=300)
    if any(ok is None for ok in oks):
        ctx.broken_tie('coq evaluation of the precedence cases did not finish',
                       f'{sum(ok is None for ok in oks)} of {len(oks)} cases were not evaluated')
    for (kind, toks, pos, tr), ok in zip(meta, oks):
        ctx.count(('prec', plain_text(toks), pos), nontrivial=True)
        ctx.hist('precedence_cases', kind)
        if ok is False:
            txt = plain_text(toks)
            try:
                want = rp.parse(toks)
            except SyntaxErr:
                want = 'syntax error'
            ctx.violation({'kind': 'precedence-differs', 'source': txt},
                          f'`{txt}` ({pos} position) is parsed as {tr} but the documented precedence table gives {want}',
                          {'mode': 'parse', 'w': w, 'source': f'{txt} ; {txt}', 'observed_tree': tr,
                           'required_tree': want, 'coq_case': f'({ctoks(toks)}, ...)',
                           'how': './check C12 --replay <this file>'})
    ctx.sample({'campaign': 'precedence', 'source': plain_text(meta[7][1]), 'observed_tree': meta[7][3]})
    return len(terms)


CRASH = {'error': {'class': 'WorkerCrash', 'catchall': False, 'cause': None, 'msg': 'the process running the assembler died',
                   'file_left': False}}


def run_jobs(ctx, jobs):
    """run the jobs on the real implementation, in parallel worker processes; a chunk whose worker dies is
    re-run job by job so that the one input that kills the process is identified"""
    if not jobs:
        return []
    from concurrent.futures import ThreadPoolExecutor
    n = max(1, (len(jobs) + fw.NCPU * 2 - 1) // (fw.NCPU * 2))
    chunks = [jobs[i:i + n] for i in range(0, len(jobs), n)]

    def one(chunk):
        try:
            return fw.run_worker(ctx, 'expr', chunk)
        except RuntimeError:
            out = []
            for j in chunk:
                try:
                    out += fw.run_worker(ctx, 'expr', [j], timeout=120)
                except RuntimeError:
                    out.append(json.loads(json.dumps(CRASH)))
            return out

    out = []
    with ThreadPoolExecutor(max_workers=fw.NCPU) as ex:
        for r in ex.map(one, chunks):
            out += r
    return out


# ---------------------------------------------------------------------------------------------------
# (ii)+(iii) random expressions through every evaluation path

def observed_of(case, result):
    if 'error' in result:
        return obs_of_error(result['error'])
    v = result['words'][result['_index'][case['word']]]
    return ('word', int(v)) if v is not None else ('lib', 'word-missing-from-image')


def run_expressions(ctx, rp, n):
    progs = []
    tries = 0
    while len(progs) < n and tries < 40 * n:
        tries += 1
        try:
            p = gen_program_case(ctx, rp)
        except (TooBig, RecursionError, EvalErr):
            p = None
        if p is not None:
            progs.append(p)
    results = run_jobs(ctx, [p['job'] for p in progs])
    from .. import expr_source
    expr_source.compare(ctx, rp, progs)      # the regenerated eval_new / exact_eval (PyIR inside Coq) against the real methods
    terms, meta = [], []
    for p, r in zip(progs, results):
        r['_index'] = {a: i for i, a in enumerate(p['job']['words'])}
        for c in p['cases']:
            obs = observed_of(c, r)
            go = c['gen_outcome']
            if 'error' in r and r['error']['class'] == 'WorkerCrash':
                ctx.violation({'kind': 'assembler-kills-the-process'}, f'assembling kills the process: {p["etxt"]}',
                              {'job': p['job']})
                continue
            if 'error' in r and r['error']['class'] == 'Timeout':
                ctx.violation({'kind': 'assembler-hangs'}, f'assembling did not finish in 20 s: {p["etxt"]}',
                              {'job': p['job']})
                continue
            if go[0] == 'syntax' and obs[0] in ('lib', 'catchall'):
                # the grammar actions run while parsing: a folding error earlier in the line is raised before the
                # parser reaches the syntax error
                ctx.hist('skipped', 'syntax error preceded on its line by a parse-time folding error')
                continue
            if go[0] == 'val' and not (0 <= go[1] < (1 << c['w'])):
                ctx.hist('value_outside_word_range', 'refused' if obs[0] == 'lib' else str(obs[0]))
            terms.append(ecase_term(c, obs))
            meta.append((p, c, obs))
            nontrivial = len(p['ops']) >= 2 and len(p['ids']) >= 1
            ctx.count((p['job']['src'], c['w'], c['iter']), nontrivial)
            ctx.hist('shape', c['shape'])
            ctx.hist('observed', obs[0] if obs[0] in ('word', 'syntax') else f'{obs[0]}:{obs[1]}')
            ctx.hist('width', c['w'])
            ctx.hist('position', 'flip' if c['is_flip'] else 'jump')
            if go[0] == 'val':
                b = go[1].bit_length()
                ctx.hist('result_bits', '<=64' if b <= 64 else '65-128' if b <= 128 else '129-512' if b <= 512 else '>512')
                if go[1] < 0:
                    ctx.hist('result_sign', 'negative')
        mb = p['max_bits']
        ctx.hist('widest_intermediate_bits', '<=64' if mb <= 64 else '65-128' if mb <= 128 else '129-512' if mb <= 512 else '513-4096')
        for o in p['ops']:
            ctx.hist('operators', o)
        for f in p['notations']:
            ctx.hist('literal_notation', f)
        for i in p['ids']:
            ctx.hist('identifier_class', 'const' if i[0] == 'c' or i == 'w' else 'param' if i[0] == 'p' else
                     'iterator' if i == 'i' else 'dollar' if i == '$' else 'label')
    oks = fw.coq_eval_shards(ctx, 'c12_expr', HEADER, terms, 'check_ecase', shard=250, timeout=300)
    shown = 0
    nbad = 0
    if any(ok is None for ok in oks):
        ctx.broken_tie('coq evaluation of the expression cases did not finish',
                       f'{sum(ok is None for ok in oks)} of {len(oks)} cases were not evaluated (timeout or error)')
    for (p, c, obs), term, ok in zip(meta, terms, oks):
        if ok and shown < 3 and len(p['ops']) >= 3:
            shown += 1
            ctx.sample({'campaign': 'expression', 'source': p['job']['src'], 'w': c['w'], 'observed': list(obs)})
        if ok is False:
            nbad += 1
            if nbad <= 12:
                triage_ecase(ctx, p, c, obs, term)
    if nbad:
        ctx.coverage['disagreeing_expression_cases'] = nbad
    return len(terms)


def triage_ecase(ctx, p, c, obs, term):
    rc, diag = fw.coq_eval_term(ctx, f'c12_diag_{abs(hash(term)) % 10**9}', HEADER, f'diag_ecase ({term})')
    m = re.search(r'=\s*\((.*)\)\s*:', diag, re.S)
    body = m.group(1) if m else diag
    spec_ok = body.rstrip().endswith('true')
    what = (f'w={c["w"]} {"flip" if c["is_flip"] else "jump"} word of `{p["etxt"]}` ({c["shape"]} placement, i={c["iter"]}): '
            f'observed {obs}; (model prediction, specification value, model agrees, specification allows) = {body[-400:]}')
    replay = {'mode': 'asm', 'job': p['job'], 'case': {k: c[k] for k in ('kind', 'w', 'is_flip', 'word', 'shape', 'iter')},
              'coq_case': term, 'observed': list(obs), 'coq_diag': body,
              'how': './check C12 --replay <this file>'}
    if spec_ok:
        ctx.broken_tie('correspondence Model/Expr.v vs implementation (specification still satisfied)', what)
    else:
        ops = sorted(set(p['ops']))
        ctx.violation({'kind': 'expression-value-differs', 'operators': ','.join(ops[:6]), 'shape': c['shape']}, what, replay)


# ---------------------------------------------------------------------------------------------------
# (iv) literals

def run_literals(ctx, n):
    rng = ctx.rng
    jobs, metas = [], []
    for _ in range(n):
        w = rng.choice([8, 16, 32, 64])
        kind = rng.choice(['dec', 'hex', 'bin', 'char', 'str', 'str'])
        if kind in ('dec', 'hex', 'bin'):
            v = rng.randrange(1 << rng.choice([1, 4, 8, 16, 33, 64, 65, 130, 300]))
            if kind == 'dec':
                txt = '0' * rng.choice([0, 0, 1, 3]) + str(v)
            elif kind == 'hex':
                txt = '0' + rng.choice('xX') + ''.join(ch.upper() if rng.random() < 0.5 else ch for ch in '%x' % v)
            else:
                txt = '0' + rng.choice('bB') + bin(v)[2:]
            term = (0, [ord(ch) for ch in txt], [], v)
        elif kind == 'char':
            v = rng.randrange(256)
            forms = ['hex']
            if 32 <= v <= 126 and v != 92:
                forms += ['plain', 'plain']
            if v in ESC:
                forms.append('esc')
            f = rng.choice(forms)
            t = chr(v) if f == 'plain' else ('\\' + ESC[v]) if f == 'esc' else '\\%s%02x' % (rng.choice('xX'), v)
            txt = "'" + t + "'"
            term = (0, [ord(ch) for ch in txt], [], v)
        else:
            bs = [rng.choice([rng.randrange(256), rng.randrange(32, 127), rng.choice(sorted(ESC))])
                  for _ in range(rng.choice([0, 1, 2, 3, 5, 8, 9, 20]))]
            its = [char_item(rng, b) for b in bs]
            body = ''.join(t for t, _ in its)
            txt = '"' + body + '"'
            term = (1, [ord(ch) for ch in body], [c for _, c in its], sum(b << (8 * i) for i, b in enumerate(bs)))
        shift = 0
        if term[3] >= (1 << w) and rng.random() < 0.85:
            shift = rng.randrange(0, term[3].bit_length())
        prog = f';{txt}\n' if shift == 0 else f';({txt} >> {shift}) & {hex((1 << w) - 1)}\n'
        jobs.append({'mode': 'asm', 'w': w, 'src': prog, 'words': [1]})
        metas.append((w, txt, term, kind, shift))
    # the decimal conversion limit: 4300 characters are converted, 4301 are refused with a lexing error
    for nd, k in ((4300, 0), (4301, 3), (4300 + rng.randrange(2, 3000), 3)):
        txt = str(rng.randrange(1, 10)) + ''.join(str(rng.randrange(10)) for _ in range(nd - 1))
        if rng.random() < 0.5:
            txt = '0' + txt[:-1]                          # leading zeros count
        v = int(txt) if k == 0 else 0
        shift = rng.randrange(0, 14000)
        jobs.append({'mode': 'asm', 'w': 64, 'src': f';({txt} >> {shift}) & {hex((1 << 64) - 1)}\n', 'words': [1]})
        metas.append((64, txt[:40] + f'...({nd} digits)', (k, [ord(ch) for ch in txt], [], v), 'dec-limit', shift))
    # the string-boundary probe: two string literals on one line
    probes = []
    for _ in range(ctx.n(4, 12)):
        a = ''.join(chr(rng.randrange(97, 123)) for _ in range(rng.choice([1, 2, 3])))
        b = ''.join(chr(rng.randrange(97, 123)) for _ in range(rng.choice([1, 2])))
        sep = rng.choice([' + ', '+', ' | '])
        txt = f'"{a}"{sep}"{b}"'
        va = sum(ord(ch) << (8 * i) for i, ch in enumerate(a))
        vb = sum(ord(ch) << (8 * i) for i, ch in enumerate(b))
        want = va + vb if '+' in sep else va | vb
        jobs.append({'mode': 'asm', 'w': 64, 'src': f';{txt}\n', 'words': [1]})
        metas.append((64, txt, (2, [ord(ch) for ch in txt[1:]], [f'Plain {ord(ch)}' for ch in a], want), 'two-strings', 0))
        probes.append(txt)
    res = run_jobs(ctx, jobs)
    terms = []
    for (w, txt, (k, codes, items, intended), kind, shift), r in zip(metas, res):
        obs = obs_of_error(r['error']) if 'error' in r else ('word', int(r['words'][0]))
        terms.append(f'mk_lcase {k}%nat {w} {shift} {fw.nlist(codes)} [{"; ".join(items)}] {intended} ({cobs(obs)})')
        ctx.count(('lit', txt, w), nontrivial=len(txt) > 2)
        ctx.hist('literal_cases', kind)
    oks = fw.coq_eval_shards(ctx, 'c12_lit', HEADER, terms, 'check_lcase', shard=300, timeout=300)
    if any(ok is None for ok in oks):
        ctx.broken_tie('coq evaluation of the literal cases did not finish',
                       f'{sum(ok is None for ok in oks)} of {len(oks)} cases were not evaluated')
    nbad = 0
    for (w, txt, (k, codes, items, intended), kind, shift), r, term, ok in zip(metas, res, terms, oks):
        if ok is not False:
            continue
        nbad += 1
        if nbad > 12:
            continue
        rc, diag = fw.coq_eval_term(ctx, f'c12_ldiag_{abs(hash(term)) % 10**9}', HEADER, f'diag_lcase ({term})')
        obs = obs_of_error(r['error']) if 'error' in r else ('word', int(r['words'][0]))
        m = re.search(r'=\s*\((.*)\)\s*:', diag, re.S)
        body = m.group(1) if m else diag
        spec_ok = body.rstrip().endswith('true')
        what = (f'literal `{txt}` (w={w}, observed through >> {shift}): observed {obs}, the language gives the value '
                f'{intended}; '
                f'(well-formed, model prediction, specification holds) = {body[-300:]}')
        replay = {'mode': 'asm', 'job': jobs[metas.index((w, txt, (k, codes, items, intended), kind, shift))], 'literal': txt,
                  'required_value': intended, 'shift': shift, 'observed': list(obs), 'coq_case': term, 'coq_kind': 'lcase',
                  'how': './check C12 --replay <this file>'}
        if spec_ok:
            ctx.broken_tie('correspondence of the literal decoders (specification still satisfied)', what)
        elif kind == 'two-strings':
            ctx.violation({'kind': 'string-literals-merge', 'where': 'fj_parser.string_re'}, what, replay)
        else:
            ctx.violation({'kind': 'literal-value-differs', 'notation': kind}, what, replay)
    ctx.sample({'campaign': 'literal', 'source': jobs[0]['src'], 'observed': res[0]})
    return len(terms)


# ---------------------------------------------------------------------------------------------------

def regenerate_facts(ctx):
    path = fw.COQ / 'Gen' / 'Facts_C12.v'
    try:
        text = gen.generate(fw.REPO)
        fw.write_if_changed(path, text)
        return True
    except gen.GenError as e:
        fw.write_if_changed(path, gen.stub(str(e)))
        ctx.broken_tie('gen_facts_c12 (source translator failed closed)', str(e))
        return False
    except (OSError, SyntaxError) as e:
        fw.write_if_changed(path, gen.stub(repr(e)))
        ctx.broken_tie('gen_facts_c12 (source unreadable)', repr(e))
        return False


def run(ctx):
    facts_ok = regenerate_facts(ctx)
    # source tie of the evaluation recursion: Expr.eval_new / Expr.exact_eval are translated from the current source into the IR
    # of Model/PyIR.v and proved equal to the hand model (Tie/Expr_tie.v, Properties/C12_source.v)
    from .. import expr_source
    src_props, src_targets = expr_source.prepare(ctx)
    ok = fw.static_proofs(ctx, ['Properties/C12.v'] + src_props,
                          extra_targets=(['Tie/C12_tie.vo'] if facts_ok else []) + src_targets)
    ctx.coverage['obligations'] += 7                     # the lemmas of Tie/C12_tie.v
    if facts_ok and ok:
        ctx.coverage['discharged'] += 7
    broken_static = bool(ctx.broken)
    rp = RefParser(spec_precedence())
    n1 = run_precedence(ctx, rp)
    # a broken tie is followed by the campaign at the thorough size, looking for a failing input
    n2 = run_expressions(ctx, rp, ctx.n(2600, 40000) if not broken_static else max(ctx.n(2600, 40000), 6000))
    n3 = run_literals(ctx, ctx.n(500, 6000))
    ctx.coverage['campaign_cases'] = {'precedence': n1, 'expressions': n2, 'literals': n3}
    ctx.coverage['rule'] = (
        'precedence: ALL ordered pairs of the 19 binary operators, all prefix/binary, binary/prefix, prefix/prefix, '
        'binary-prefix-binary and conditional combinations (thorough: also all operator triples), flip and jump '
        'position, real parse tree == reference parser driven by the documented table; expressions: random trees '
        '(depth <= 5, random parenthesisation, literals in all notations, operands incl. negatives, 2^k boundaries and '
        'values up to 130 bits, intermediates up to 4096 bits) x width x placement {top level, macro body, rep argument '
        'inside a macro, rep argument at top level, constant definition} x every identifier in {constant, macro '
        'parameter (integer or label expression), rep iterator, label, $}; distinct = distinct (program text, width, '
        'iterator value); non-trivial = at least two operators and one identifier')
    ctx.assumptions += [
        'CPython integer arithmetic is tied to the Z operations only by this campaign (Model/Expr.v py_* definitions)',
        'resource limits are not modelled: operands are generated so that no intermediate exceeds 4096 bits. '
        'Beyond that the implementation reports MemoryError / OverflowError of huge shifts and powers as expression '
        'errors, and the construction of the error text itself fails for integers above 4300 decimal digits '
        '(`;((1<<20000)/0)&1` reaches the catch-all: a C14 finding, reported to the coordinator)',
        'sly (LALR table construction, the regular-expression engine) is exercised, not modelled; the reference '
        'parser and lex_string_body are tied to it by the exhaustive pair campaign and the literal campaign',
        'a flip/jump value outside [0, 2^w) is refused by the assembler (FlipJumpAssemblerException); wide and negative '
        'values are therefore observed through  (E >> k) & mask  windows, which are themselves part of the expression',
    ]


def replay(ctx, path):
    rec = json.loads(Path(path).read_text())
    rp_ = rec['replay']
    if 'job' not in rp_ and rp_.get('mode') == 'parse':
        job = {'mode': 'parse', 'w': rp_['w'], 'src': rp_['source'] + '\n'}
    elif 'job' in rp_:
        job = rp_['job']
    else:
        print(json.dumps(rec, indent=1)[:3000])
        print('this replay names a theorem / correspondence, not an input')
        return 1
    r = fw.run_worker(ctx, 'expr', [job])[0]
    print('source:\n' + job['src'])
    print('observed now:', json.dumps(r)[:1500])
    if job['mode'] == 'parse':
        print('required tree:', rp_.get('required_tree'))
        same = r.get('trees') and r['trees'][0][1] == rp_.get('observed_tree')
        print('still parsed as recorded' if same else 'no longer parsed as recorded')
        return 1 if same else 0
    term = rp_.get('coq_case')
    if 'error' in r:
        obs = obs_of_error(r['error'])
    else:
        idx = job['words'].index(rp_['case']['word']) if 'case' in rp_ else 0
        obs = ('word', int(r['words'][idx]))
    fn = 'check_lcase' if rp_.get('coq_kind') == 'lcase' else 'check_ecase'
    term_now = re.sub(r'\((Obs[^()]*(\([^()]*\))?[^()]*)\)\s*$', f'({cobs(obs)})', term)
    rc, out = fw.coq_eval_term(ctx, 'c12_replay', HEADER,
                               f'({fn} ({term_now}), {"diag_lcase" if fn == "check_lcase" else "diag_ecase"} ({term_now}))')
    print('required (model prediction / specification) :', out[-900:])
    if 'required_value' in rp_:
        print('required value of the literal:', rp_['required_value'], ' observed through >>', rp_.get('shift'))
    still = '= (false' in out
    print('VIOLATION still present' if still else 'agrees with the specification now')
    return 1 if still else 0
