"""C20: the `fj` command, its split flows and the Python API agree.

The theorems (Properties/C20.v) are small: equal user options give equal argument records on the three routes, and the
defaults are the documented ones.  THE WEIGHT OF THIS PROPERTY IS IN THE CORRESPONDENCE below:

1. T-gen: Gen/Facts_C20.v (argparse add_argument defaults/choices, keyword defaults of the flipjump_quickstart functions
   and of Writer.__init__, FJMVersion values, which expression reaches which parameter on every route); Tie/C20_tie.v
   proves the model's table of defaults equal to it and restates the theorems for it.
2. Black box: programs x option combinations (-w -v --no_stl -o -d --werror --lzma_preset -s -f --max_recursion_depth)
   x the three routes, every route in its own subprocesses: one-step `fj prog.fj -o OUT`, two-step `fj --asm ... -o OUT`
   then `fj --run OUT`, and flipjump_quickstart.assemble + run (assemble_and_run when no output file is asked for).
   Compared: bytes of the .fjm (and .fjd), stdout of the run, exit codes / termination line.
3. White box: the same requests executed with Writer / assembler.assemble / flipjump_quickstart.debug wrapped from
   outside; the recorded argument records are compared inside Coq (CliRun.check_case, vm_compute) with what
   Model/Cli.v computes from the user's options.
"""
import hashlib
import json
import os
import re
import subprocess
from concurrent.futures import ThreadPoolExecutor
from pathlib import Path

from .. import framework as fw
from .. import gen_facts_c20

CLI_SNIPPET = 'import sys; from flipjump.flipjump_cli import main; sys.exit(main())'
HEADER = ('From FJ Require Import Lib.Base Model.Cli.\nFrom Coq Require Import String.\nImport CliRun.\n'
          'Local Open Scope Z_scope.\nLocal Open Scope string_scope.\n')
TIMING = re.compile(r'^  (parsing|macro resolve|labels resolve|create binary|loading memory):\s+Xs$')

HAND = {
    'tiny': (';0\n;0\n', False, b''),
    'far': (';1<<40\n', False, b''),
    'warn': ('def m a, b {\n ;a\n}\nm 0, 0\nloop:\n;loop\n', False, b''),
    'bad': ('nomacro 1\n', False, b''),
    'warn_stl': ('def m a, b {\n ;a\n}\nstl.startup\nm 0, 0\nstl.output "Hi"\nstl.loop\n', True, b''),
    # several source files (a source is then a list of [relative path, text] in the GIVEN order, repeats allowed)
    'mf_stl': ([['z_main.fj', "stl.startup\nstl.output 'A'\n"], ['a_tail.fj', "stl.output 'B'\nstl.loop\n"]], True, b''),
    'mf_dirs': ([['src/main.fj', ';second\n'], ['lib/util.fj', 'second:\n;second\n']], False, b''),
    'mf_three': ([['m/defs.fj', 'def nop2 {\n;\n;\n}\n'], ['z.fj', 'nop2\n;end\n'], ['b.fj', 'nop2\nend:\n;end\n']], False, b''),
    'mf_three_stl': ([['y/defs.fj', 'def hi {\nstl.output "hi"\n}\n'], ['x/start.fj', 'stl.startup\nhi\n'],
                      ['end.fj', 'hi\nstl.loop\n']], True, b''),
    'mf_repeat': ([['a.fj', ';0\n;0\n'], ['a.fj', ';0\n;0\n']], False, b''),
    'mf_repeat_mid': ([['z.fj', ';0\n'], ['a.fj', 'l:\n;l\n'], ['z.fj', ';0\n']], False, b''),
    'deeprec': ('def r n {\n rep(n, i) r n-1\n}\nr 3\nend:\n;end\n', False, b''),
}
CORPUS = [('print_tests/hello_world.fj', True, b''), ('print_tests/hello_no-stl.fj', False, b''),
          ('print_tests/cat.fj', True, b'hi\nyo'), ('sanity_checks/simple.fj', True, b''),
          ('print_tests/ncat.fj', True, b'abc\n'), ('print_tests/print_as_digit.fj', True, b''),
          ('print_tests/hexprint.fj', True, b'\x5a\x01'), ('sanity_checks/rep.fj', True, b''),
          ('sanity_checks/mathvec.fj', True, b'')]


def load_programs():
    progs = dict(HAND)
    for rel, stl, inp in CORPUS:
        p = fw.REPO / 'programs' / rel
        if p.is_file():
            progs[Path(rel).stem.replace('-', '_')] = (p.read_text(), stl, inp)
    return progs


def file_list(src):
    """-> (the file arguments in the given order, {relative path: text})"""
    if isinstance(src, str):
        return ['prog.fj'], {'prog.fj': src}
    return [f for f, _ in src], {f: t for f, t in src}


def write_sources(casedir, src):
    args, texts = file_list(src)
    for f, t in texts.items():
        (casedir / f).parent.mkdir(parents=True, exist_ok=True)
        (casedir / f).write_text(t)
    return args


def gen_case(rng, progs, idx):
    name = rng.choice(sorted(progs))
    src, stl, inp = progs[name]
    o = {
        'width': rng.choice([None, None, None, 64, 32, 32, 16, 8]),
        'version': rng.choice([None, None, None, 0, 1, 2, 3]),
        'no_stl': (not stl) if rng.random() < 0.93 else stl,
        'outfile': rng.random() < 0.85,
        'debug': rng.choice([None, None, 'path', 'path', 'temp']),
        'werror': rng.random() < 0.35,
        'preset': rng.choice([None, None, None, 0, 6, 9]),
        'silent': rng.random() < 0.6,
        'flags': rng.choice([None, None, None, 0, 5]),
        'max_depth': rng.choice([None, None, None, None, None, 2, 50]),
    }
    if o['version'] == 0 and o['flags']:
        o['flags'] = 0
    if not o['outfile']:
        o['debug'] = rng.choice([None, 'temp'])
    elif o['debug'] == 'temp' and rng.random() < 0.7:
        o['debug'] = 'path'
    case = {'id': idx, 'prog': name, 'opts': o}
    if o['outfile'] and rng.random() < 0.15:
        # the output path already holds the result of an earlier build with other options
        pre = dict(o)
        pre.update({'width': rng.choice([w for w in (None, 64, 32) if w != o['width']]),
                    'version': rng.choice([v for v in (None, 1, 2, 3) if v != o['version']]),
                    'werror': False, 'preset': rng.choice([None, 0, 9]), 'debug': None})
        if pre['version'] == 0:
            pre['flags'] = None
        case['pre_opts'] = pre
        case['pre_route'] = rng.choice(['asm', 'onestep'])
    return case


def directed_cases(progs, first_id):
    """families that are always run"""
    base = {'width': None, 'version': None, 'no_stl': False, 'outfile': True, 'debug': None, 'werror': False,
            'preset': None, 'silent': True, 'flags': None, 'max_depth': None}
    out = []

    def add(fam, prog, **kw):
        if prog in progs:
            o = dict(base)
            o['no_stl'] = not progs[prog][1]
            o.update(kw)
            out.append({'id': first_id + len(out), 'prog': prog, 'opts': o, 'family': fam})
    # (d) --lzma_preset with the version left to its default (3 because of -o), and spelled out
    for prog in ('hello_world', 'hexprint', 'print_as_digit', 'tiny'):
        for preset in (0, 1, 9):
            add('preset-default-version', prog, preset=preset)
        add('preset-explicit-version', prog, preset=0, version=3)
    # -f with the default version
    add('flags-default-version', 'hello_world', flags=5)
    # (e) warnings are not errors unless asked: one-step without -o (-> assemble_and_run), and with -o
    for prog in ('warn', 'warn_stl'):
        add('warning-one-step', prog, outfile=False, debug='temp', werror=False)
        add('warning-one-step', prog, outfile=False, debug='temp', werror=False, silent=False)
        add('warning-with-outfile', prog, werror=False)
        add('warning-as-error', prog, werror=True)
        add('warning-as-error', prog, outfile=False, debug='temp', werror=True)
    # several source files: order, directories, repeated paths, top-level code in more than one file
    for prog in ('mf_stl', 'mf_dirs', 'mf_three', 'mf_three_stl', 'mf_repeat', 'mf_repeat_mid'):
        add('multi-file', prog)
        add('multi-file', prog, width=32, version=1, silent=False)
    add('multi-file', 'mf_stl', outfile=False, debug='temp')
    add('multi-file', 'mf_dirs', outfile=False, debug='temp')
    # the -o path already exists, written by an earlier build with OTHER options
    def seq(prog, pre, route, **kw):
        add('existing-outfile', prog, **kw)
        if out and out[-1]['prog'] == prog:
            p = dict(out[-1]['opts'])
            p.update(pre)
            out[-1]['pre_opts'] = p
            out[-1]['pre_route'] = route
    seq('tiny', {'width': 64, 'version': 3}, 'onestep', width=32, version=2)
    seq('hello_world', {'width': 64}, 'asm', width=32)
    seq('hello_world', {'version': 1}, 'onestep')
    seq('hexprint', {'preset': None}, 'onestep', preset=0)
    seq('warn', {'werror': False}, 'onestep', werror=True)
    seq('warn_stl', {'werror': False}, 'asm', werror=True)
    seq('mf_dirs', {'width': 16}, 'onestep', width=64)
    seq('hello_no_stl', {'version': 0}, 'asm', version=3, preset=1)
    # the documented defaults, one option at a time
    add('defaults', 'hello_world')
    add('defaults', 'hello_world', outfile=False, debug='temp')
    add('defaults', 'hello_no_stl')
    add('defaults', 'hello_world', width=32, version=1, debug='path', max_depth=50)
    return out


def argv_of(o, files, outfile, debug, mode):
    """the command line of one invocation. mode: onestep | asm | run"""
    a = []
    if mode == 'asm':
        a.append('--asm')
    if mode == 'run':
        a.append('--run')
    a += files
    if mode != 'run':
        if o['width'] is not None:
            a += ['-w', str(o['width'])]
        if o['version'] is not None:
            a += ['-v', str(o['version'])]
        if o['no_stl']:
            a.append('--no_stl')
        if outfile is not None:
            a += ['-o', outfile]
        if o['werror']:
            a.append('--werror')
        if o['preset'] is not None:
            a += ['--lzma_preset', str(o['preset'])]
        if o['flags'] is not None:
            a += ['-f', str(o['flags'])]
        if o['max_depth'] is not None:
            a += ['--max_recursion_depth', str(o['max_depth'])]
    if o['silent']:
        a.append('-s')
    if debug == '':
        a.append('-d')
    elif debug is not None:
        a += ['-d', debug]
    return a


def quickstart_expressible(o):
    """flipjump_quickstart.assemble + run when an output file is asked for (no temporary debug file there);
    assemble_and_run otherwise - it always produces a temporary debug file, i.e. it is `fj files -d`"""
    if o['flags'] not in (None, 0) or o['preset'] not in (None, 6):
        return False
    return (o['debug'] != 'temp') if o['outfile'] else (o['debug'] == 'temp')


def api_expressible(o):
    """the black-box API route: as above, and with -f / --lzma_preset through Writer(...) + assembler.assemble(...)"""
    if o['outfile']:
        return o['debug'] != 'temp'
    return o['debug'] == 'temp' and o['flags'] in (None, 0) and o['preset'] in (None, 6)


def norm_stdout(text, casedir):
    lines = []
    # every printed duration becomes Xs (a warning printed while a stage is timed lands between the stage name and its
    # duration, so durations are normalised before the pure timing lines are dropped)
    text = re.sub(r'\b[0-9]+\.[0-9]+s\b', 'Xs', text)
    for ln in text.replace(str(casedir) + '/', '').splitlines():
        if TIMING.match(ln):
            continue
        ln = re.sub(r'\b[rb][123]/', 'R/', ln)
        lines.append(ln)
    return '\n'.join(lines)


def tmp_env(cwd):
    # the temporary directories the implementation creates go under the scratch directory of the check
    t = Path(cwd) / 'tmp'
    t.mkdir(parents=True, exist_ok=True)
    return {'TMPDIR': str(t)}


def run_cli(argv, cwd, stdin):
    p = subprocess.run(['timeout', '120', fw.PY, '-c', CLI_SNIPPET] + argv, cwd=str(cwd), env=fw.env_for_repo(tmp_env(cwd)),
                       input=stdin, stdout=subprocess.PIPE, stderr=subprocess.PIPE)
    return {'rc': p.returncode, 'out': p.stdout.decode('latin-1'), 'err': p.stderr.decode('latin-1')}


def run_api(ctx, case, cwd, stdin):
    inp = cwd / 'api.in.json'
    outp = cwd / 'api.out.json'
    inp.write_text(json.dumps({'mode': 'api', 'case': case}))
    p = subprocess.run(['timeout', '120', fw.PY, '-m', 'fjverif.workers.cli', str(inp), str(outp)], cwd=str(cwd),
                       env=fw.env_for_repo(tmp_env(cwd)), input=stdin, stdout=subprocess.PIPE, stderr=subprocess.PIPE)
    res = json.loads(outp.read_text()) if outp.exists() else {'exc': 'worker', 'msg': p.stderr.decode('latin-1')[-300:]}
    return {'rc': p.returncode, 'out': p.stdout.decode('latin-1'), 'err': p.stderr.decode('latin-1'), 'res': res}


def rd(p):
    return p.read_bytes() if p.exists() else None


def sha(b):
    return None if b is None else hashlib.sha1(b).hexdigest()[:12] + f'/{len(b)}B'


def black_box(ctx, case, progs, casedir):
    """every route in its own subprocess(es); returns the observations"""
    o = case['opts']
    src, stl, stdin = progs[case['prog']]
    casedir.mkdir(parents=True, exist_ok=True)
    files = write_sources(casedir, src)
    for r in ('r1', 'r2', 'r3'):
        (casedir / r).mkdir(exist_ok=True)
    if case.get('pre_opts') and o['outfile']:
        # an earlier build, with other options, already wrote the output paths the routes are about to use
        po = case['pre_opts']
        mode = case.get('pre_route', 'asm')
        run_cli(argv_of(po, files, 'r1/out.fjm', None, mode), casedir, stdin)
        for r in ('r2', 'r3'):
            run_cli(argv_of(po, files, f'{r}/out.fjm', None, 'asm'), casedir, b'')

    def dbg(r):
        return {'path': f'{r}/d.fjd', 'temp': '', None: None}[o['debug']]
    obs = {}
    out1 = 'r1/out.fjm' if o['outfile'] else None
    r1 = run_cli(argv_of(o, files, out1, dbg('r1'), 'onestep'), casedir, stdin)
    obs['onestep'] = {'rc': r1['rc'], 'stdout': norm_stdout(r1['out'], casedir), 'stderr_tail': r1['err'].strip().splitlines()[-1:],
                      'fjm': rd(casedir / 'r1/out.fjm'), 'fjd': rd(casedir / 'r1/d.fjd')}
    if o['outfile'] and o['debug'] != 'temp':
        a = run_cli(argv_of(o, files, 'r2/out.fjm', dbg('r2'), 'asm'), casedir, b'')
        two = {'rc_asm': a['rc'], 'stdout': norm_stdout(a['out'], casedir), 'stderr_tail': a['err'].strip().splitlines()[-1:],
               'fjm': rd(casedir / 'r2/out.fjm'), 'fjd': rd(casedir / 'r2/d.fjd'), 'rc': a['rc']}
        if a['rc'] == 0 and two['fjm'] is not None:
            r = run_cli(argv_of(o, ['r2/out.fjm'], None, dbg('r2'), 'run'), casedir, stdin)
            two['rc'] = r['rc']
            two['stdout'] = (two['stdout'] + '\n' + norm_stdout(r['out'], casedir)).strip('\n')
            two['stderr_tail'] = r['err'].strip().splitlines()[-1:]
        obs['twostep'] = two
    if api_expressible(o):
        opts = {'width': o['width'], 'version': o['version'], 'no_stl': o['no_stl'], 'werror': o['werror'],
                'silent': o['silent'], 'max_depth': o['max_depth'], 'outfile': 'r3/out.fjm',
                'debug': 'r3/d.fjd' if o['debug'] == 'path' else None,
                'flags': o['flags'] if o['flags'] not in (None, 0) else None,
                'preset': o['preset'] if o['preset'] not in (None, 6) else None}
        r3 = run_api(ctx, {'files': files, 'options': opts, 'combined': not o['outfile']}, casedir, stdin)
        obs['api'] = {'rc': r3['rc'], 'stdout': norm_stdout(r3['out'], casedir), 'res': r3['res'],
                      'fjm': rd(casedir / 'r3/out.fjm'), 'fjd': rd(casedir / 'r3/d.fjd')}
    return obs


def strip_out(s):
    return s.strip('\n')


def compare_black_box(ctx, case, obs):
    """the property on the implementation. returns list of (signature, what)"""
    o = case['opts']
    bad = []
    one, two, api = obs.get('onestep'), obs.get('twostep'), obs.get('api')

    def ident():
        return f'{case["prog"]} {json.dumps({k: v for k, v in o.items() if v is not None and v is not False}, sort_keys=True)}'
    if two is not None:
        if one['fjm'] != two['fjm']:
            bad.append(({'kind': 'fjm-differs', 'routes': 'onestep/twostep'},
                        f'{ident()}: .fjm of `fj ... -o` is {sha(one["fjm"])}, of `fj --asm ... -o` is {sha(two["fjm"])}'))
        if o['debug'] == 'path' and one['fjd'] != two['fjd']:
            bad.append(({'kind': 'fjd-differs', 'routes': 'onestep/twostep'},
                        f'{ident()}: debug file {sha(one["fjd"])} vs {sha(two["fjd"])}'))
        if (one['rc'] == 0) != (two['rc'] == 0):
            bad.append(({'kind': 'exit-differs', 'routes': 'onestep/twostep'},
                        f'{ident()}: exit code {one["rc"]} (one step) vs {two["rc"]} (two steps); '
                        f'{one["stderr_tail"]} / {two["stderr_tail"]}'))
        elif one['rc'] == 0 and strip_out(one['stdout']) != strip_out(two['stdout']):
            bad.append(({'kind': 'stdout-differs', 'routes': 'onestep/twostep'},
                        f'{ident()}: stdout of the one-step flow {one["stdout"][-200:]!r} vs two-step {two["stdout"][-200:]!r}'))
    if api is not None:
        ref = two if two is not None else one
        api_failed = 'exc' in api['res'] or 'exit' in api['res']
        if o['outfile']:
            if ref['fjm'] != api['fjm'] and not (api_failed and ref['rc'] != 0):
                bad.append(({'kind': 'fjm-differs', 'routes': 'cli/api'},
                            f'{ident()}: .fjm of the command line is {sha(ref["fjm"])}, of the Python API {sha(api["fjm"])}'
                            f' ({api["res"]})'))
            if o['debug'] == 'path' and ref['fjd'] != api['fjd'] and not api_failed:
                bad.append(({'kind': 'fjd-differs', 'routes': 'cli/api'}, f'{ident()}: debug file {sha(ref["fjd"])} vs {sha(api["fjd"])}'))
        if (ref['rc'] == 0) != (not api_failed):
            bad.append(({'kind': 'exit-differs', 'routes': 'cli/api'},
                        f'{ident()}: command line exit code {ref["rc"]} {ref["stderr_tail"]}, API {api["res"]}'))
        elif ref['rc'] == 0 and strip_out(ref['stdout']) != strip_out(api['stdout']):
            bad.append(({'kind': 'stdout-differs', 'routes': 'cli/api'},
                        f'{ident()}: stdout of the command line {ref["stdout"][-200:]!r} vs API {api["stdout"][-200:]!r}'))
    return bad


# ---- white box -------------------------------------------------------------------------------------------------------

ERR_CODES = [('invalid choice', 1), ('assemble-only is used, but no outfile', 2), ('output file', 3),
             ('Parser Warning - breakpoints', 4), ('assemble-only is used with the debug flag', 5),
             ('run-only is used with the debug flag', 6), ('invalid fjm version', 7), ('does not exist', 8),
             ('is not a .fj file', 9), ('is not a .fjm file', 10), ('--io', 11)]


def record_request(case, progs, casedir):
    """all routes of a case are run one after the other in one process and are given the SAME -o / -d paths"""
    o = case['opts']
    src, stl, stdin = progs[case['prog']]
    files = write_sources(casedir, src)
    (casedir / 'b').mkdir(parents=True, exist_ok=True)
    dbg = {'path': 'b/d.fjd', 'temp': '', None: None}[o['debug']]
    two = o['outfile'] and o['debug'] != 'temp'
    return {
        'cwd': str(casedir), 'files': files, 'stdin': stdin.hex(),
        'argv_onestep': argv_of(o, files, 'b/out.fjm' if o['outfile'] else None, dbg, 'onestep'),
        'argv_asm': argv_of(o, files, 'b/out.fjm', dbg, 'asm') if two else None,
        'argv_run': argv_of(o, ['b/out.fjm'], None, dbg, 'run') if two else None,
        'api': quickstart_expressible(o), 'api_out': 'b/out.fjm', 'combined': not o['outfile'],
        'options': {'width': o['width'], 'version': o['version'], 'no_stl': o['no_stl'], 'werror': o['werror'],
                    'silent': o['silent'], 'max_depth': o['max_depth'],
                    'debug': 'b/d.fjd' if o['debug'] == 'path' else None},
    }


def cs(s):
    assert all(32 <= ord(c) < 127 for c in s), s
    return '"' + s.replace('"', '""') + '"'


def cl(xs):
    return '[' + '; '.join(xs) + ']'


def cb(b):
    return 'true' if b else 'false'


def co(x, f=str):
    return 'None' if x is None else f'(Some {f(x)})'


def cz(x):
    return f'({int(x)})%Z'


def asm_term(rec):
    w, a = rec.get('writer'), rec.get('assemble')
    if not w or not a:
        return None
    files = cl(f'({cs(s)}, {cs(p)})' for s, p in a['files'])
    return (f'(mkasm {files} {cs(w["out"])} {cz(a["width"])} {cz(w["version"])} {cz(w["flags"])} {cz(w["preset"])} '
            f'{cb(a["werror"])} {co(a["debug"], cs)} {cb(a["stats"])} {cb(a["print_time"])} {cz(a["max_depth"])})')


def run_term(rec):
    d = rec.get('debug')
    if not d:
        return None
    return (f'(mkrun {cs(d["fjm"])} {co(d["debug"], cs)} {cl(cz(x) for x in d["bp_addresses"])} {cl(cs(x) for x in d["bp"])} '
            f'{cl(cs(x) for x in d["bp_contains"])} {cs(d["io"])} {cb(d["trace"])} {cb(d["print_time"])} '
            f'{cb(d["print_termination"])} {co(d["last_ops"], cz)} {cb(d["profile"])} {co(d["flat_max_words"], cz)})')


def recorded_term(part):
    """one invocation -> Coq `recorded`"""
    res = part['res']
    if res['status'] == 'exit':
        msg = ' '.join(part.get('stderr_tail') or [''])
        for needle, code in ERR_CODES:
            if needle in msg:
                if code == 10 and 'output file' in msg:
                    code = 3
                return f'(RecError {code})'
        return '(RecError 0)'
    a, r = asm_term(part['rec']), run_term(part['rec'])
    return f'(Rec {"(Some " + a + ")" if a else "None"} {"(Some " + r + ")" if r else "None"})'


def opt_rec(part):
    return 'None' if part is None else f'(Some {recorded_term(part)})'


def case_term(case, rq, routes, stl_paths):
    """one Coq `case` holding what every route of this case did"""
    o = case['opts']
    cwd = rq['cwd']
    dbg_u = {'path': '(Some (Some "b/d.fjd"))', 'temp': '(Some None)', None: 'None'}[o['debug']]
    u = (f'(mkuo {cl(cs(f) for f in rq["files"])} {co(o["width"], cz)} {co(o["version"], cz)} {co(o["flags"], cz)} {cb(o["no_stl"])} '
         f'{co("b/out.fjm" if o["outfile"] else None, cs)} {dbg_u} {cb(o["werror"])} {co(o["preset"], cz)} {cb(o["silent"])} '
         f'{co(o["max_depth"], cz)} false false false None None None [] [])')
    before = [f for f in rq['files']] + [f'{cwd}/{f}' for f in rq['files']] + stl_paths
    one, two, api = routes.get('onestep'), routes.get('twostep'), routes.get('api')

    def tmp_of(part):
        rec = part['rec'] if part else {}
        for p in ((rec.get('writer') or {}).get('out'), (rec.get('assemble') or {}).get('debug')):
            if p and not p.startswith('b/'):
                return str(Path(p).parent)
        return '/TMP'
    tmp1 = tmp_of(one[0]) if one else '/TMP'
    after = before + ['b/out.fjm', 'b/d.fjd', f'{tmp1}/out.fjm', f'{tmp1}/debug.fjd']
    comb = 'None'
    api_asm = api_run = None
    if api:
        if rq['combined']:
            tmpc = tmp_of(api[0])
            comb = f'(Some ({cs(tmpc)}, {recorded_term(api[0])}))'
        else:
            api_asm = api[0]
            api_run = api[1] if len(api) > 1 else None
    return (f'mkcase {u} {cl(cs(x) for x in stl_paths)} {cl(cs(x) for x in before)} {cl(cs(x) for x in after)} {cs(cwd)} '
            f'["standard"; "pc"] {cs(tmp1)} "/T" "/T" {opt_rec(one[0] if one else None)} '
            f'{opt_rec(two[0] if two else None)} {opt_rec(two[1] if two and len(two) > 1 else None)} "b/out.fjm" '
            f'{opt_rec(api_asm)} {opt_rec(api_run)} {comb}')


def stl_paths_of_repo():
    conf = json.loads((fw.REPO / 'flipjump' / 'stl' / 'conf.json').read_text())
    return [str(fw.REPO / 'flipjump' / 'stl' / f'{n}.fj') for n in conf['all']]


def run(ctx):
    ok, msg = gen_facts_c20.write(ctx)
    if not ok:
        ctx.broken_tie('T-gen gen_facts_c20 (fail-closed translator)', msg)
    built = fw.static_proofs(ctx, ['Properties/C20.v'], extra_targets=['Tie/C20_tie.vo'])
    tie_thms = len([l for l in (fw.COQ / 'Tie' / 'C20_tie.v').read_text().splitlines() if l.startswith(('Lemma ', 'Theorem '))])
    ctx.coverage['obligations'] += tie_thms
    if built and ok:
        ctx.coverage['discharged'] += tie_thms

    progs = load_programs()
    n = int(os.environ.get('FJVERIF_C20_N', '0')) or ctx.n(90, 2500)
    cases = directed_cases(progs, 100000) + [gen_case(ctx.rng, progs, i) for i in range(n)]
    work = ctx.scratch / 'work'

    # ---- black box: every route in its own subprocesses ----
    def job(case):
        try:
            return black_box(ctx, case, progs, work / f'c{case["id"]}')
        except Exception as e:  # noqa
            return {'error': f'{type(e).__name__}: {e}'}
    with ThreadPoolExecutor(max_workers=fw.NCPU) as ex:
        observations = list(ex.map(job, cases))
    for case, obs in zip(cases, observations):
        if 'error' in obs:
            ctx.broken_tie('C20 black-box runner', obs['error'])
            continue
        o = case['opts']
        routes = [r for r in ('onestep', 'twostep', 'api') if r in obs]
        nontrivial = len(routes) >= 2 and obs['onestep']['rc'] == 0
        ctx.count(json.dumps([case['prog'], o], sort_keys=True), nontrivial)
        ctx.hist('routes_compared', '+'.join(routes))
        ctx.hist('program', case['prog'])
        ctx.hist('family', case.get('family', 'random'))
        ctx.hist('onestep_exit', obs['onestep']['rc'])
        for k in ('width', 'version', 'preset', 'debug', 'flags', 'max_depth'):
            ctx.hist(f'opt_{k}', o[k])
        for k in ('no_stl', 'outfile', 'werror', 'silent'):
            ctx.hist(f'opt_{k}', o[k])
        for sig, what in compare_black_box(ctx, case, obs):
            sig = dict(sig)
            ctx.violation(sig, what, {'case': case, 'source': progs[case['prog']][0],
                                      'observed': {r: {k: (sha(v) if isinstance(v, bytes) else v) for k, v in obs[r].items()}
                                                   for r in routes},
                                      'how': './check C20 --replay <this file>'})
        if len(ctx.coverage['samples']) < 5 and len(routes) == 3:
            ctx.sample({'program': case['prog'], 'options': {k: v for k, v in o.items() if v is not None and v is not False},
                        'fjm': {r: sha(obs[r]['fjm']) for r in routes}, 'exit': {r: obs[r]['rc'] for r in routes},
                        'stdout_tail': {r: obs[r]['stdout'][-60:] for r in routes}})

    # ---- white box: recorded argument records vs the model, inside Coq ----
    stl_paths = stl_paths_of_repo()
    rqs = [record_request(case, progs, work / f'c{case["id"]}') for case in cases]
    batch = max(1, (len(cases) + fw.NCPU - 1) // fw.NCPU)
    chunks = [list(range(i, min(i + batch, len(cases)))) for i in range(0, len(cases), batch)]
    outs = fw.run_workers_parallel(ctx, 'cli', [{'mode': 'record', 'cases': [rqs[i] for i in ch]} for ch in chunks],
                                   extra_env=tmp_env(ctx.scratch))
    terms, owners = [], []
    for ch, out in zip(chunks, outs):
        for i, routes in zip(ch, out):
            try:
                terms.append(case_term(cases[i], rqs[i], routes, stl_paths))
            except Exception as ex:  # noqa - a recorded structure of unexpected shape is a broken tie, not a crash
                ctx.broken_tie('T-corr: a recorded call does not have the modelled shape (Model/Cli.v)',
                               f'{cases[i]["prog"]} {cases[i]["opts"]}: {type(ex).__name__}: {ex}')
                continue
            owners.append((i, routes))
            for r in routes:
                ctx.hist('recorded_routes', r)
    oks = fw.coq_eval_shards(ctx, 'c20_calls', HEADER, terms, 'check_case', shard=30)
    specs = fw.coq_eval_shards(ctx, 'c20_spec', HEADER, terms, 'spec_on_recorded', shard=30)
    n_bad = 0
    for (i, routes), t, okv, sp in zip(owners, terms, oks, specs):
        case = cases[i]
        recs = {r: [p['rec'] for p in routes.get(r, [])] for r in routes}
        ident = f'{case["prog"]} {json.dumps({k: v for k, v in case["opts"].items() if v is not None and v is not False}, sort_keys=True)}'
        if sp is False:
            # the spec, evaluated on the calls the implementation really made, is false: a genuine violation
            rc, which = fw.coq_eval_term(ctx, f'c20_diag{i}', HEADER,
                                         f'(same_calls ({t}), spec_defaults ({t}), spec_honoured ({t}))')
            which = which[-45:]
            ctx.violation({'kind': 'calls-differ-or-wrong-default-or-option-dropped', 'detail': which},
                          f'{ident}: the routes do not make the same calls / do not use the documented defaults / do not '
                          f'pass an option the user gave (same_calls, documented_defaults, options_honoured) {which}: '
                          f'{json.dumps(recs)[:900]}',
                          {'case': case, 'source': progs[case['prog']][0], 'recorded': recs,
                           'how': './check C20 --replay <this file>'})
        if okv is False:
            n_bad += 1
            if sp is not False:
                ctx.broken_tie('T-corr CliRun.check_case (Model/Cli.v vs flipjump_cli / flipjump_quickstart)',
                               f'{ident}: the recorded calls {json.dumps(recs)[:1500]} are not what Model/Cli.v computes')
    ctx.coverage['recorded_calls'] = {'invocation_groups': len(terms), 'model_disagreements': n_bad}
    ctx.coverage['rule'] = (
        'programs (9 of the repo corpus incl. stdin readers, 5 hand-written: looping, faulting, warning, failing, recursive) '
        'x random option combinations (-w None/8/16/32/64, -v None/0-3, --no_stl, -o present/absent, -d none/path/temporary, '
        '--werror, --lzma_preset None/0/6/9, -s, -f None/0/5, --max_recursion_depth None/2/50) x routes {one-step, two-step, '
        'API}, each route in its own subprocesses (black box: .fjm/.fjd bytes, stdout, exit) and once more with the callees '
        'wrapped (white box: argument records vs Model/Cli.v inside Coq); distinct = distinct (program, options); '
        'non-trivial = at least two routes ran and the one-step flow succeeded')
    ctx.assumptions += [
        'the theorems are about argument records; that equal arguments give equal bytes is C13, that the routes behave as '
        'modelled is this campaign - the weight of C20 is in the correspondence',
        'the API route passes every option the user gives as the corresponding keyword and leaves the others to the '
        'function defaults; -f / --lzma_preset (other than the Writer defaults), breakpoints and a temporary debug file '
        'have no flipjump_quickstart.assemble counterpart and are compared on the two command-line routes only',
        'the warning mode is not a shared default (command line: off, flipjump_quickstart: on); it is always passed explicitly',
    ]


def replay(ctx, path):
    blob = json.loads(Path(path).read_text())
    rp = blob['replay']
    if 'case' not in rp:
        print(f'[C20] this replay file names a broken theorem/tie, not an input: {rp.get("theorem_or_correspondence")}')
        print(rp.get('detail', '')[-1500:])
        return 1
    case = rp['case']
    progs = load_programs()
    if 'source' in rp:
        old = progs.get(case['prog'], ('', not case['opts']['no_stl'], b''))
        progs[case['prog']] = (rp['source'], old[1], old[2])
    obs = black_box(ctx, case, progs, ctx.scratch / 'replay')
    bad = compare_black_box(ctx, case, obs)
    print(f'[C20] replay of {path}: {case["prog"]} {json.dumps(case["opts"], sort_keys=True)}')
    for r in ('onestep', 'twostep', 'api'):
        if r in obs:
            print(f'  {r:8s} exit={obs[r]["rc"]} fjm={sha(obs[r]["fjm"])} fjd={sha(obs[r]["fjd"])} stdout_tail={obs[r]["stdout"][-80:]!r}')
    print('  required: identical .fjm/.fjd bytes, stdout and termination on every route')
    for sig, what in bad:
        print(f'  observed: {what}')
    # white box: the calls every route really makes, against the spec and against the model
    rq = record_request(case, progs, ctx.scratch / 'replay')
    routes = fw.run_worker(ctx, 'cli', {'mode': 'record', 'cases': [rq]}, extra_env=tmp_env(ctx.scratch))[0]
    t = case_term(case, rq, routes, stl_paths_of_repo())
    rc, verdict = fw.coq_eval_term(ctx, 'c20_replay', HEADER,
                                   f'(same_calls ({t}), spec_defaults ({t}), spec_honoured ({t}), check_case ({t}))')
    print('  required: (routes make the same calls, documented defaults are used, every given option reaches the callee, '
          'calls are what Model/Cli.v computes) = (true, true, true, true)')
    print(f'  observed: {verdict[-75:]}')
    for r, parts in routes.items():
        for p_ in parts:
            w = p_['rec'].get('writer')
            a = p_['rec'].get('assemble')
            if w and a:
                print(f'    {r}: Writer(width={w["width"]}, version={w["version"]}, flags={w["flags"]}, preset={w["preset"]}) '
                      f'assemble(first file={a["files"][0][0] if a["files"] else None}, werror={a["werror"]}, '
                      f'max_depth={a["max_depth"]}, debug={a["debug"]})')
    white_bad = 'false' in verdict[-75:]
    print('  -> ' + ('VIOLATION reproduced' if bad or white_bad else 'no difference on this tree'))
    return 1 if bad or white_bad else 0
