"""C15: debugging never changes the program and stops exactly where asked.

Proof part: coq/Properties/C15.v (universal theorems about Model/Debug.v).
Tie: generated images x breakpoint sets x command scripts (ALL scripts up to a length over a 12-command alphabet for a
few programs, random longer scripts over a larger pool for many programs) drive the REAL debugger
(fjm_run.run(..., breakpoint_handler=BreakpointHandler(...)) with builtins.input replaced, stdout captured) in
workers/debugger.py; the parsed transcript (pause banners: title, address, ops executed, flip, jump; every message of
the prompt loop; read answers), the final statistics, device output, last-ops list and final memory are compared with
Model/Debug.v evaluated in Coq on the same case.  The specification is evaluated on every case as well:
  * transparency, directly on the implementation: debugged run vs undebugged run of the same featured engine;
  * pause positions: the printed (address, ops executed) pairs vs DebugSpec.expected_pauses over the machine trace."""
import itertools
import json

from .. import framework as fw
from .. import imagegen as ig

HEADER = ('From FJ Require Import Lib.Base Model.Labels Spec.MachineSpec Spec.DebugSpec Model.Debug.\n'
          'Local Open Scope N_scope.\n')
KBD = 6
TIMEOUT = 7

ALPHABET = ['s', 's 2', 'skip 3', 'c', 'c*', 'q', 'h', 'r 0', 'r :b2:0', '', 'bogus', 's 0']


# ---- generators ------------------------------------------------------------------------------------
def image_targets(case):
    """addresses worth breaking at: jump words of the data, op starts, 0"""
    w = case['w']
    t = {0}
    for s, l, data in case['segs']:
        for i, v in enumerate(data):
            if i % 2 == 1 and v < (1 << w):
                t.add(v)
            if i % 2 == 0:
                t.add((s + i) * w)
    return sorted(t)


def gen_bps(rng, case):
    tg = image_targets(case)
    r = rng.random()
    if r < 0.15:
        return [0]
    if r < 0.25:
        return []
    k = rng.choice([1, 1, 2, 2, 3, 5])
    bps = set(rng.sample(tg, min(k, len(tg))))
    if rng.random() < 0.2:
        bps.add(rng.choice(tg) + rng.randrange(1, case['w']))       # an unaligned address
    if rng.random() < 0.1:
        bps.add(rng.randrange(1 << min(case['w'], 20)))
    return sorted(bps)


def gen_labels(rng, case):
    """a synthetic label table (name -> address) for reads by label"""
    if rng.random() < 0.5:
        return {}
    tg = image_targets(case)
    names = ['main', 'loop', 'f1:l3:m---x', 'a.b', 'ff', '10', 'f1:l2:rep0:q(2)---:start:', 'end', 'X']
    rng.shuffle(names)
    out = {}
    for n in names[:rng.randrange(1, 6)]:
        out[n] = rng.choice(tg) if rng.random() < 0.8 else rng.randrange(1 << min(case['w'], 16))
    return out


def rand_read(rng, case, labels):
    w = case['w']
    tg = image_targets(case)
    a = rng.choice(tg)
    r = rng.random()
    if r < 0.12 and labels:
        base = rng.choice(sorted(labels))
    elif r < 0.45:
        base = str(a)
    elif r < 0.6:
        base = hex(a)
    elif r < 0.66:
        base = hex(a)[2:]
    elif r < 0.72:
        base = str(a + rng.choice([1, w // 2, -w, w * 1000, 1 << w, (1 << w) - w]))
    elif r < 0.76:
        base = rng.choice(['-8', '+16', '0x', 'zz', '1_6', '0x_10', ' 32', '1 2', '', '08', '0b1', '0o10', str(a) + ':7'])
    else:
        base = str(rng.choice([0, w, 2 * w, 3 * w, 4 * w, a]))
    r = rng.random()
    if r < 0.45:
        pre = ''
    else:
        ty = rng.choice('bhBfjbhB')
        ln = rng.choice(['', '', '1', '2', '3', '4', '8', '0', '02', str(rng.randrange(1, 20))])
        ix = rng.choice(['', '', '', '0:', '1:', '2:', '3:', '7:', str(rng.randrange(40)) + ':'])
        pre = f':{ty}{ln}:{ix}'
        if rng.random() < 0.05:
            pre = pre.replace(':', '', 1)
        if rng.random() < 0.05:
            pre = ':x' + pre[2:]
    cmd = rng.choice(['r', 'r', 'read', 'R', 'Read', 'r ', 'read\t'])
    return f'{cmd} {pre}{base}'


POOL_ACT = ['s', 'S', 'step', 'STEP', ' s ', 's 1', 's 2', 's 3', 'skip 2', 'skip 5', 'Skip 0x3', 's 0b10', 's 0o7', 's 1_0',
            's +2', 's 2 junk', 'c', 'C', 'cont', 'continue', 'Continue', 'c', 'c']
POOL_END = ['c*', 'ca', 'CA', 'continue all', 'Continue All', 'c* x', 'q', 'quit', 'exit', 'Q', 'q now', 'EXIT']
POOL_NOP = ['', '   ', 'h', 'help', '?', 'H x', 'r', 'read', 'bogus', 'step 3', 'skip', 'c 1', 'cont x', 'continue  all',
            'continue\tall', 'c all', 's x', 's 0', 's -3', 's 00', 's 01', 's 0x', 's 1__0', 's _1', 's 1_', 'skip 0x', 's 1e3',
            '\x1c', 'stepp', 'x s', '*', 'c *', 's\x1f2']


def rand_script(rng, case, labels, n):
    out = []
    for _ in range(n):
        r = rng.random()
        if r < 0.45:
            out.append(rng.choice(POOL_ACT))
        elif r < 0.52:
            out.append(rng.choice(POOL_END))
        elif r < 0.72:
            out.append(rng.choice(POOL_NOP))
        else:
            out.append(rand_read(rng, case, labels))
    return out


def gen_program(rng, structured):
    if structured:
        w = rng.choice([8, 16, 32, 64])
        w, segs, tags = ig.chain_program(rng, w, rng.choice([4, 6, 8, 12]))
    else:
        w, segs, tags = ig.gen_image(rng)
    inp = bytes(rng.randrange(256) for _ in range(rng.choice([0, 0, 1, 1, 2])))
    return {'w': w, 'segs': segs, 'input': inp.hex(), 'version': rng.choice([0, 1, 2, 3]), 'watchdog': 2.0,
            'last_ops': rng.choice([1, 3, 4, 10]), 'tags': tags}


def gen_cases(ctx):
    rng = ctx.rng
    cases = []
    # (a) exhaustive scripts over ALPHABET for a few structured programs that run a while; breakpoints on visited ops
    n_ex, ex_len = ctx.n(2, 2), ctx.n(3, 4)
    cands = []
    for _ in range(40):
        p = gen_program(rng, True)
        p.update(bps=[], labels={}, script=[], last_ops=300)
        cands.append(p)
    pre = run_workers(ctx, cands)
    good = [(p, r['plain']) for p, r in zip(cands, pre) if not r.get('skip') and 8 <= r['plain'].get('ops', 0) <= 250]
    for p, plain in good[:n_ex]:
        visited = sorted(set(plain['last_ops'][1:]))
        bps = sorted(rng.sample(visited, min(2, len(visited))))
        p['last_ops'] = 4
        for ln in range(0, ex_len + 1):
            for sc in itertools.product(ALPHABET, repeat=ln):
                c = dict(p)
                c.update(bps=bps, labels={}, script=list(sc), kind='exhaustive')
                cases.append(c)
    # (b) random longer scripts over the large pool for many programs
    for _ in range(ctx.n(2500, 40000)):
        p = gen_program(rng, rng.random() < 0.3)
        labels = gen_labels(rng, p)
        bps = gen_bps(rng, p)
        bp_labels = [n for n in sorted(labels) if rng.random() < 0.3]
        c = dict(p)
        c.update(bps=bps, labels=labels, bp_labels=bp_labels,
                 script=rand_script(rng, p, labels, rng.choice([0, 1, 2, 3, 4, 5, 6, 8, 12, 20])), kind='random')
        if rng.random() < 0.12:
            # through the public entry point flipjump.debug(...) with a saved debugging file and all three kinds of breakpoints
            c.update(via='quickstart', kind='quickstart',
                     bp_contains=[rng.choice(['o', 'a', '---', 'l', 'zz', 'X'])] if labels and rng.random() < 0.6 else [])
        cases.append(c)
    # (d) through flipjump.debug with SUBSTRING breakpoints on programs where several labels share an address (a label
    #     directly followed by another one; a label right before a macro whose body starts with its own label): the
    #     substring matches exactly one of the aliases - an earlier or a later one in the table - and the address is visited
    alias_names = ['phase_two', 'retry_point', 'loop', 'main', 'f1:l3:m---x', 'f1:l3:m---:start:', 'a.b', 'end', 'init',
                   'f2:l7:rep1:q(2)---body', 'X', 'done']
    for p, plain in good[n_ex:] + good[:n_ex]:
        visited = sorted(set(plain['last_ops'][1:]))
        for _ in range(ctx.n(12, 120)):
            names = rng.sample(alias_names, rng.choice([2, 3, 4, 5]))
            spots = rng.sample(visited, min(len(visited), rng.choice([1, 1, 2])))
            labels = {n: rng.choice(spots) for n in names}          # insertion order = definition order
            if rng.random() < 0.3:
                labels['elsewhere'] = rng.choice(image_targets(p))
            target = rng.choice(names)
            sub = target if rng.random() < 0.5 else target[rng.randrange(len(target)):][:rng.randrange(2, 9)]
            c = dict(p)
            c.update(bps=[], labels=labels, bp_labels=[n for n in names if rng.random() < 0.1], bp_contains=[sub],
                     last_ops=4, via='quickstart', kind='alias-substring',
                     script=rand_script(rng, p, labels, rng.choice([1, 2, 3, 4, 6])))
            cases.append(c)
    # (c) the former F11 witness shape: breakpoint on an op whose jump word lies outside every segment
    for w in (8, 16, 32, 64):
        cases.append(f11_case(w))
    return cases


def f11_case(w):
    """op 0 jumps to the op in the LAST word of the segment; its flip word is the output address 2w+1"""
    last = 5 * w
    return {'w': w, 'segs': [[0, 6, [0, last, 0, 0, 0, 2 * w + 1]]], 'input': '', 'version': 1, 'watchdog': 2.0,
            'last_ops': 4, 'tags': ['f11'], 'bps': [last], 'labels': {}, 'script': ['c'], 'kind': 'directed'}


# ---- Coq terms -------------------------------------------------------------------------------------
def line_lit(s):
    return '[' + ';'.join(str(ord(ch)) for ch in s) + ']'


def zlit(x):
    return f'({int(x)})' if x < 0 else str(int(x))


def all_bps(case, res=None):
    """the breakpoint addresses as the SPECIFICATION gives them (C16_breakpoints): the addresses, the addresses of the exact
    labels that exist, the addresses of every label containing one of the substrings - never taken from the code under test"""
    bps = set(case['bps'])
    for name, a in (case.get('labels') or {}).items():
        if any(sub in name for sub in case.get('bp_contains', [])):
            bps.add(a)
    for n in case.get('bp_labels', []):
        bps.add(case['labels'][n])
    return sorted(bps)


def coq_case(case, res):
    d = res['dbg']
    ww = case['w'].bit_length() - 1
    segs = [(s, l) for s, l, _ in case['segs']]
    words = [(s + i, v) for s, l, data in case['segs'] for i, v in enumerate(data) if v]
    inp = list(bytes.fromhex(case.get('input', '')))
    tbl = '[' + ';'.join(f'({line_lit(n)}, {zlit(a)}%Z)' for n, a in case.get('labels', {}).items()) + ']'
    script = '[' + ';'.join(line_lit(s) for s in case['script']) + ']'
    outn, outb, outv = d['out']
    last = d.get('last_ops') or []
    events = '[' + ';'.join('[' + ';'.join(zlit(x) for x in e) + ']%Z' for e in d['events']) + ']'
    bps = fw.nlist(all_bps(case, res))
    if case.get('via') == 'quickstart':
        # through flipjump.debug: the addresses are resolved by the proven model of get_breakpoints (Model/Labels.v)
        A = '[' + ';'.join(zlit(a) + '%Z' for a in case['bps']) + ']'
        Ls = '[' + ';'.join(line_lit(x) for x in case.get('bp_labels', [])) + ']'
        Sub = '[' + ';'.join(line_lit(x) for x in case.get('bp_contains', [])) + ']'
        bps = f'(map (fun p => Z.to_N (fst p)) (Labels.get_breakpoints {A} {Ls} {Sub} {tbl}))'
    return (f'mkdcase {ww} {fw.npairs(segs)} {fw.npairs(words)} {fw.nlist(inp)} {d["ops"] + 2} {bps} '
            f'{tbl} {script} {d["cause"]} {d["ops"]} {d.get("fault") or 0} {outn} {fw.nlist(outb)} {outv} '
            f'{case["last_ops"]} {fw.nlist(last)} {fw.npairs(d.get("mem", []))} {events} {d["consumed"]}')


# ---- the campaign ----------------------------------------------------------------------------------
def strip_case(c):
    return {k: c[k] for k in ('w', 'segs', 'input', 'version', 'bps', 'labels', 'script', 'last_ops', 'via', 'bp_contains')
            if k in c} | {'bp_labels': c.get('bp_labels', [])}


def spec_transparent(d, p):
    """the property evaluated directly on the implementation: debugged vs undebugged run (same featured engine)"""
    if d.get('cause') == KBD:
        return True, ''
    keys = ('cause', 'ops', 'fault', 'out')
    diff = [k for k in keys if d.get(k) != p.get(k)]
    # final memory: part of "never alter program state"
    if not diff and d.get('mem') != p.get('mem'):
        diff = ['mem']
    return not diff, ','.join(diff)


def run_workers(ctx, cases):
    n = len(cases)
    batch = max(1, (n + fw.NCPU * 3 - 1) // (fw.NCPU * 3))
    chunks = [[strip_case(c) | {'watchdog': c.get('watchdog', 2.0)} for c in cases[i:i + batch]] for i in range(0, n, batch)]
    outs = fw.run_workers_parallel(ctx, 'debugger', chunks)
    return [r for o in outs for r in o]


def eval_both(ctx, name, terms, shard=250):
    """one coqc per shard evaluating both the model agreement and the pause specification on every case"""
    from concurrent.futures import ThreadPoolExecutor
    shards = [terms[i:i + shard] for i in range(0, len(terms), shard)]

    def one(idx_cs):
        idx, cs = idx_cs
        path = ctx.scratch / f'{name}_{idx}.v'
        path.write_text(HEADER + '\nDefinition cases := [\n' + ';\n'.join(cs) + '\n].\n'
                        'Eval vm_compute in (map check_dcase cases).\nEval vm_compute in (map spec_pauses_dcase cases).\n')
        rc, out = fw.coqc_file(path, 1200)
        bs = fw.parse_bools(out) if rc == 0 else []
        if len(bs) != 2 * len(cs):
            return [None] * len(cs), [None] * len(cs), out
        return bs[:len(cs)], bs[len(cs):], ''

    agree, spec, errs = [], [], []
    with ThreadPoolExecutor(max_workers=fw.NCPU) as ex:
        for a, s_, err in ex.map(one, list(enumerate(shards))):
            agree += a
            spec += s_
            if err:
                errs.append(err)
    if errs:
        ctx.broken_tie(f'coq evaluation of {name}', errs[0])
    return agree, spec


def how(case):
    return ('PYTHONPATH=$REPO:/verif/harness /venv/bin/python -m fjverif.workers.debugger <in.json with [case]> out.json ; '
            'or ./check C15 --replay <this file>')


def evaluate(ctx, cases, results, name='c15'):
    terms, idx = [], []
    for i, (c, r) in enumerate(zip(cases, results)):
        d = r.get('dbg') or {}
        if r.get('skip'):
            ctx.count((i, 'skip'), False)
            ctx.hist('skipped', r['skip'])
            continue
        if 'exc' in d or d.get('problem'):
            ctx.violation({'kind': 'debugger-exception' if 'exc' in d else 'transcript-unparsed',
                           'exc': (d.get('exc') or d.get('problem', '')).split(':')[0]},
                          f'debugged run raised / printed something outside the debugger protocol: '
                          f'{d.get("exc") or d.get("problem")}', {'case': strip_case(c), 'observed': d, 'how': how(c)})
            continue
        if d.get('cause') == TIMEOUT or r.get('plain', {}).get('cause') == TIMEOUT:
            ctx.hist('skipped', 'watchdog')
            continue
        p = r['plain']
        ok, diff = spec_transparent(d, p)
        faulted = [1] in d['events']
        if faulted and ok:
            # the pause banner raised (finding F11, fixed): reported even when the observables happen to coincide
            ctx.violation({'kind': 'pause-banner-fault'},
                          'a pause banner raised and ended the debugged run (the banner must never stop the program)',
                          {'case': strip_case(c), 'observed_debugged': d, 'observed_undebugged': p,
                           'required': 'the banner is printed and the prompt runs; the op then executes as undebugged', 'how': how(c)})
        if not ok:
            sig = {'kind': 'pause-banner-fault'} if faulted else {'kind': 'debug-changes-run', 'differs': diff}
            ctx.violation(sig, f'debugged run differs from the undebugged run in {diff}: debugged cause={d["cause"]} '
                          f'ops={d["ops"]} fault={d.get("fault")} out={d["out"]}; undebugged cause={p["cause"]} ops={p["ops"]} '
                          f'fault={p.get("fault")} out={p["out"]} (script has no quit and did not run dry)',
                          {'case': strip_case(c), 'observed_debugged': d, 'observed_undebugged': p,
                           'required': 'same output, cause, ops, fault address and final memory', 'how': how(c)})
        terms.append(coq_case(c, r))
        idx.append(i)
        npause = sum(1 for e in d['events'] if e[0] in (0, 1))
        nread = sum(1 for e in d['events'] if e[0] in (8, 9, 10, 11, 12))
        ctx.count((c['w'], c['segs'], c['input'], tuple(c['bps']), tuple(c['script']), tuple(sorted(c.get('labels', {}).items()))),
                  npause >= 1)
        ctx.hist('kind', c.get('kind'))
        ctx.hist('width', c['w'])
        ctx.hist('pauses', npause if npause < 5 else '5+')
        ctx.hist('reads', nread if nread < 5 else '5+')
        ctx.hist('end', {KBD: 'kbd-quit' if not d['eof_hits'] else 'kbd-eof'}.get(d['cause'], f'cause{d["cause"]}') +
                 ('/banner-fault' if faulted else ''))
        for e in d['events']:
            ctx.hist('event_codes', e[0] if e[0] != 2 else f'2:{e[1]}')
    agree, spec = eval_both(ctx, name, terms)
    failing = [(k, a, s_) for k, a, s_ in zip(idx, agree, spec) if a is False or s_ is False]
    bad = len(failing)
    ctx.coverage['disagreements'] = ctx.coverage.get('disagreements', 0) + bad
    # report the smallest failing cases first; at most a few diagnoses per kind (each costs a coqc run)
    failing.sort(key=lambda t: (len(cases[t[0]]['script']), results[t[0]]['dbg'].get('ops', 0), len(cases[t[0]]['segs'])))
    budget = {'spec': 3, 'model': 4}
    for k, a, s_ in failing:
        c, r = cases[k], results[k]
        d = r['dbg']
        if [1] in d['events']:
            continue        # a raising banner: already reported with the signature pause-banner-fault
        if s_ is False and budget['spec'] > 0:
            budget['spec'] -= 1
            rc, exp = fw.coq_eval_term(ctx, f'{name}_sp{k}', HEADER, f'let c := {coq_case(c, r)} in expected_pauses c.(k_bps) '
                                       f'(trace c.(k_ww) c.(k_segs) (N.to_nat c.(k_fuel)) (init (mem_of_list c.(k_words)) '
                                       f'(bytes_bits c.(k_input)))) None (actions_of c.(k_script))')
            obs = [(e[2], e[3]) for e in d['events'] if e[0] == 0]
            ctx.violation({'kind': 'pause-position'},
                          f'the debugger paused at (address, ops executed) {obs}' + (' and once more with a banner that raised' if [1] in d['events'] else '') + f'; breakpoints {all_bps(c, r)} and the script '
                          f'{c["script"]} require {exp[-400:]}',
                          {'case': strip_case(c), 'observed': d, 'required_pauses': exp, 'how': how(c)})
        if a is False and budget['model'] > 0:
            ok, _ = spec_transparent(d, r['plain'])
            if s_ is False or not ok:
                continue    # already reported from the specification side
            budget['model'] -= 1
            rc, model = fw.coq_eval_term(ctx, f'{name}_diag{k}', HEADER, f'dobserve ({coq_case(c, r)})')
            rc2, rk = fw.coq_eval_term(ctx, f'{name}_rk{k}', HEADER, f'diff_is_read ({coq_case(c, r)})')
            is_read = rc2 == 0 and '= true' in rk
            if is_read:
                ctx.violation({'kind': 'read-answer'},
                              f'a read command printed a value that is not the current memory content (script {c["script"]}); '
                              f'observed events {d["events"]}; model/spec: {model[-500:]}',
                              {'case': strip_case(c), 'observed': d, 'model': model, 'how': how(c)})
            else:
                ctx.broken_tie('C15 correspondence Model/Debug.v vs debugger',
                               json.dumps({'case': strip_case(c), 'observed': d, 'model': model})[:2800])
    return bad


def run(ctx):
    fw.static_proofs(ctx, ['Properties/C15.v'])
    cases = gen_cases(ctx)
    results = run_workers(ctx, cases)
    picked = set()
    for want in ('exhaustive', 'random', 'quickstart', 'directed'):
        for c, r in zip(cases, results):
            d = r.get('dbg') or {}
            if c.get('kind') == want and want not in picked and sum(1 for e in d.get('events', []) if e[0] == 0) >= 2:
                picked.add(want)
                ctx.sample({'case': strip_case(c), 'observed_debugged': {k: v for k, v in d.items() if k != 'mem'}})
    ctx.sample({'case': strip_case(cases[-1]), 'observed_debugged': {k: v for k, v in results[-1]['dbg'].items() if k != 'mem'},
                'observed_undebugged': {k: v for k, v in results[-1]['plain'].items() if k != 'mem'}})
    evaluate(ctx, cases, results)
    ctx.coverage['rule'] = (
        'sessions of the REAL debugger (fjm_run.run + BreakpointHandler, input() scripted, stdout parsed): '
        f'(a) ALL scripts up to length {ctx.n(3, 4)} over the {len(ALPHABET)}-command alphabet {ALPHABET} for 2 structured '
        'programs x one breakpoint set; (b) random scripts (length 0..20) over a pool of ~100 command spellings incl. reads by '
        'address/label/typed vector and malformed numbers, for generated images (imagegen: unaligned, self-modifying, IO, '
        'segment-edge ops; chains) x random breakpoint sets (jump targets, op starts, unaligned, label breakpoints), 12% through '
        'the public flipjump.debug entry with a saved label file; (d) flipjump.debug with SUBSTRING breakpoints on structured programs '
        'whose label table has several labels per visited address (the substring matches one alias, earlier or later defined); the '
        'breakpoint addresses given to the model always come from the specification (C16 get_breakpoints model), never from the code; '
        '(c) the former F11 witness (breakpoint on an op whose jump word is outside every segment) per width. Each session: transcript+statistics+output+last-ops+memory vs Model/Debug.v in Coq, '
        'debugged vs undebugged real run, printed pauses vs DebugSpec.expected_pauses. distinct = distinct '
        '(image,input,breakpoints,labels,script); non-trivial = at least one pause happened')
    ctx.assumptions += [
        'the label decoration of printed addresses (get_address_str) is not modelled; only the numbers of each message are compared',
        'command lines are ASCII and shorter than 4300 characters (python int() digit limit); terminal input() is replaced by a script',
        'programs that do not halt within the watchdog are skipped',
        'the featured engine itself is tied to Spec/MachineSpec.v by C01']


def replay(ctx, path):
    blob = json.loads(open(path).read())
    rp = blob['replay']
    if 'case' not in rp:
        print(f'[C15] replay names a theorem/correspondence, not an input: {rp.get("theorem_or_correspondence")}')
        print(rp.get('detail', '')[-2000:])
        return 1
    case = rp['case']
    case.setdefault('kind', 'replay')
    case.setdefault('tags', [])
    res = run_workers(ctx, [case])
    d, p = res[0]['dbg'], res[0].get('plain')
    print('[C15] replay against', fw.REPO)
    print('  debugged  :', json.dumps({k: v for k, v in d.items() if k != 'mem'}))
    print('  undebugged:', json.dumps({k: v for k, v in (p or {}).items() if k != 'mem'}))
    print('  required  : same output/cause/ops/fault/memory unless the script quits or runs dry; pauses exactly where '
          'ip is a breakpoint or ops == pending step/skip target; reads report current memory')
    evaluate(ctx, [case], res, name='c15_replay')
    # a replay reports on one recorded case; it does not rewrite the evidence file of the property
    for fid, what in sorted(ctx.known_hits.items()):
        print(f'KNOWN-FINDING: property=C15 {fid}: {what}')
    for _, what, rpath, no_input in ctx.violations:
        print(f'# {what}')
        print(f'VIOLATION property=C15 replay={path}' + (' no-failing-input-found' if no_input else ''))
        if rpath != str(path):
            import os
            try:
                os.unlink(rpath)
            except OSError:
                pass
    if not ctx.violations and not ctx.known_hits:
        print('[C15] replay: the recorded case now satisfies the specification and agrees with the model')
    return 1 if ctx.violations else 0
