"""C04: hex library macros compute their documented function for every operand (theorems by kernel computation on
images assembled from the current source; see fjverif/stl.py)."""
from .. import stl
from .. import stl_specs as SP

CFG = stl.Config(prop='C04', ns='hex', table=SP.HEX, widths={'quick': [64], 'thorough': [64, 32]},
                 startup='stl.startup_and_init_all', seq_n=1, seq_pairs_quick=40, quick_n2={'n': 2})


def run(ctx):
    stl.run_property(ctx, CFG)
    compositional(ctx, CFG)


def compositional(ctx, cfg):
    """theorems for ALL operands of the full-width flagship macros (fjverif/stl_compose.py); any failure in there is its own
    broken obligation and never alters the enumerated results above"""
    try:
        from .. import stl_compose
        stl_compose.run(ctx, cfg)
    except Exception as e:  # noqa
        ctx.coverage['obligations'] += 1
        ctx.broken_tie(f'{ctx.prop} compositional theorems: stl_compose failed to run', f'{type(e).__name__}: {e}')


def replay(ctx, path):
    return stl.replay(ctx, CFG, path)
