"""C04: hex library macros compute their documented function for every operand (theorems by kernel computation on
images assembled from the current source; see fjverif/stl.py)."""
from .. import stl
from .. import stl_specs as SP

CFG = stl.Config(prop='C04', ns='hex', table=SP.HEX, widths={'quick': [64], 'thorough': [64, 32]},
                 startup='stl.startup_and_init_all', seq_n=1, seq_pairs_quick=40, quick_n2={'n': 2})


def run(ctx):
    stl.run_property(ctx, CFG)


def replay(ctx, path):
    return stl.replay(ctx, CFG, path)
