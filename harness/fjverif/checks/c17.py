"""C17: bit-level IO devices are byte-exact (FixedIO, StandardIO, KeyboardIO, BrokenIO).

Static part: Properties/C17.v (universal theorems about the Gallina transcription Model/Devices.v).
Tie: the REAL classes of fw.REPO are driven through operation sequences by workers/devices.py; every answer is
compared, inside Coq (vm_compute), with the transcription AND with the specification Spec/IOSpec.v itself."""
import json
import re

from .. import framework as fw
from .. import devices_source

HEADER = ('From FJ Require Import Lib.Base Spec.MachineSpec Spec.IOSpec Model.Devices.\n'
          'Local Open Scope N_scope.\n')
H63 = 'From Coq Require Import Uint63.\n' + HEADER + 'Local Open Scope uint63_scope.\n'     # numerals are primitive integers
PACK_NAMES = {0: 'FixedIO', 1: 'StandardIO(output_verbose=False)', 2: 'StandardIO(output_verbose=True)', 3: 'KeyboardIO'}
OPN = {0: 'read_bit()', 1: 'write_bit(False)', 2: 'write_bit(True)', 3: 'get_output()',
       4: 'get_output(allow_incomplete_output=True)'}
MAX_DIAG = 4          # failing cases diagnosed per campaign


# ---- encoding of observations -------------------------------------------------------------------

def obs_code(o):
    if isinstance(o, int):
        return o
    if o[0] == 'b':
        return 16 + int('01' + o[1], 16)
    return 9


def show_code(c):
    if c in (0, 1):
        return f'bit {c}'
    if c >= 16:
        h = '%x' % (c - 16)
        return 'bytes ' + (h[1:] or "''") if h[0] == '1' else f'?{c}'
    return {2: 'IOReadOnEOF', 3: 'None', 4: 'IncompleteOutput', 5: 'BrokenIOUsed', 7: 'OverflowError', 8: 'IndexError'}.get(c, f'unexpected({c})')


def show_obs(o):
    return o[1][:120] if isinstance(o, list) and o[0] == 'x' else show_code(obs_code(o))


def zlit(z):
    return f'({z})%Z'


def blit(b):
    return 'true' if b else 'false'


def events_lit(evs):
    return '[' + ';'.join(f'({zlit(t)},{blit(d)},{zlit(k)})' for t, d, k in evs) + ']'


def ilist(xs):
    return '[' + ';'.join(str(int(x)) for x in xs) + ']'


def obs63(obs):
    """observations for the *63 check functions: small codes as primitive integers, byte strings separately"""
    codes = [obs_code(o) for o in obs]
    return ilist(c if c < 15 else 15 for c in codes) + ',[' + ';'.join(hex(c) for c in codes if c >= 15) + ']%N'


def nlists(out):
    """all [..] groups of numbers printed by Coq"""
    return [[int(x) for x in re.findall(r'\d+', g)] for g in re.findall(r'\[([^\]]*)\]', out)]


def split_payloads(jobs, parts):
    parts = max(1, min(parts, len(jobs)))
    size = (len(jobs) + parts - 1) // parts
    return [jobs[i:i + size] for i in range(0, len(jobs), size)]


def run_jobs(ctx, jobs):
    res = []
    weight = sum(j['hi'] - j['lo'] if j['kind'] == 'pack_range' else 10 for j in jobs)      # keep the number of interpreter start-ups small
    for o in fw.run_workers_parallel(ctx, 'devices', split_payloads(jobs, min(fw.NCPU * 2, 1 + weight // 5000))):
        res += o
    return res


# ---- triage of a failing case (spec decides) -----------------------------------------------------

def triage(ctx, campaign, device, term, model_ok, spec_ok, spec_show, job, observed, describe, k, ops=None, obs=None):
    """term: the Coq case; model_ok/spec_ok: Coq functions case -> bool; spec_show: Coq function printing what the spec requires"""
    tag = re.sub(r'\W', '_', f'diag_{campaign}_{k}')
    rc, out = fw.coq_eval_term(ctx, tag, HEADER, f'({model_ok} ({term}), {spec_ok} ({term}))')
    bs = fw.parse_bools(out)
    if rc != 0 or len(bs) != 2:
        ctx.broken_tie(f'diagnosis of a {campaign} case', out)
        return
    m_ok, s_ok = bs
    required = ''
    if spec_show:
        rc2, out2 = fw.coq_eval_term(ctx, tag + '_spec', HEADER, f'{spec_show} ({term})')
        groups = nlists(out2) if rc2 == 0 else []
        required = ' | '.join(', '.join(show_code(c) for c in g) for g in groups)[:1500]
        if groups and ops is not None and obs is not None:
            fd = first_difference(ops, obs, groups[0])
            if fd:
                describe += '; first difference: ' + fd
    if not s_ok:
        ctx.violation({'kind': 'spec-violated', 'campaign': campaign, 'device': device},
                      f'{device}: {describe}; observed {str(observed)[:400]}' + (f'; the specification requires: {required[:400]}' if required else ''),
                      {'job': job, 'observed': observed, 'required': required, 'campaign': campaign,
                       'model_reproduces_it': bool(m_ok), 'how': './check C17 --replay <this file>'})
    elif not m_ok:
        ctx.broken_tie(f'correspondence Model/Devices.v vs {device} ({campaign})',
                       f'the implementation satisfies Spec/IOSpec.v on this input but is no longer the code the theorems were proved about: '
                       f'{describe}; observed {observed}; job {json.dumps(job)[:1500]}')


# ---- campaign 1: packing (write bits, then get_output with both flags) ----------------------------

def pack_term(dev, n, v, res):
    return f'({dev},{hex((1 << n) + v)},{obs_code(res[0])},{obs_code(res[1])})'


PACK_SHOW = ('(fun c => let \'(_, nv, _, _) := c in [obs_code (get_answer (bits_of_code nv) false); '
             'obs_code (get_answer (bits_of_code nv) true)])')


def campaign_pack(ctx):
    rng = ctx.rng
    exh = {0: 16, 3: ctx.n(14, 16), 2: ctx.n(12, 16), 1: ctx.n(10, 16)}  # exhaustive up to this many bits, per device
    nrand = ctx.n(150, 1000)
    jobs = []
    for dev in (0, 3, 2, 1):
        for n in range(exh[dev] + 1):
            step = 2048
            for lo in range(0, 1 << n, step):
                jobs.append({'kind': 'pack_range', 'pdev': dev, 'n': n, 'lo': lo, 'hi': min(1 << n, lo + step)})
        for _ in range(nrand):
            n = rng.choice([17, 23, 24, 31, 32, 33, 63, 64, 65]) if rng.random() < 0.3 else rng.randrange(17, ctx.n(600, 3000))
            style = rng.random()
            v = rng.getrandbits(n) if style < 0.7 else ((1 << n) - 1 if style < 0.8 else (0 if style < 0.9 else rng.getrandbits(n) & rng.getrandbits(n)))
            jobs.append({'kind': 'pack', 'pdev': dev, 'n': n, 'v': '%x' % v})
        ctx.coverage.setdefault('exhaustive_bit_sequences', {})[PACK_NAMES[dev]] = f'all {(2 << exh[dev]) - 1} sequences of 0..{exh[dev]} bits'
    order = list(range(len(jobs)))
    rng.shuffle(order)                                                   # balance the worker payloads
    res = [None] * len(jobs)
    for i, r in zip(order, run_jobs(ctx, [jobs[i] for i in order])):
        res[i] = r
    keys = []
    for j, r in zip(jobs, res):
        if j['kind'] == 'pack_range':
            keys += [(j['pdev'], j['n'], v, rr) for v, rr in zip(range(j['lo'], j['hi']), r)]
        else:
            keys.append((j['pdev'], j['n'], int(j['v'], 16), r))
    for dev, n, v, rr in keys:
        ctx.count(('pack', dev, n, v), n >= 1)
        ctx.hist('pack_bits_written', f'{PACK_NAMES[dev].split("(")[0]}:' + (str(n) if n <= 16 else '17-64' if n <= 64 else '65-512' if n <= 512 else '513+'))
        ctx.hist('pack_get_output', 'IncompleteOutput' if rr[0] == 4 else 'bytes' if isinstance(rr[0], list) and rr[0][0] == 'b' else 'other')
    # short cases whose answers fit are shipped to Coq as one primitive integer each (parsing 2^18 tuples is slow)
    small, large, packed = [], [], []
    for i, (dev, n, v, rr) in enumerate(keys):
        cf, ct = obs_code(rr[0]), obs_code(rr[1])
        if n <= 16 and cf < (1 << 18) and ct < (1 << 18):
            small.append(i)
            packed.append(str(((1 << n) + v) + (1 << 17) * (cf + (1 << 18) * (ct + (1 << 18) * dev))))
        else:
            large.append(i)
    oks = [None] * len(keys)
    for i, ok in zip(small, fw.coq_eval_shards(ctx, 'pack_short', H63, packed, 'check_pack63', shard=8192)):
        oks[i] = ok
    for i, ok in zip(large, fw.coq_eval_shards(ctx, 'pack_long', HEADER, [pack_term(*keys[i]) for i in large], 'check_pack', shard=ctx.n(100, 60))):
        oks[i] = ok
    bad = sorted((i for i, ok in enumerate(oks) if ok is False), key=lambda i: keys[i][1])
    seen = {}
    for i in bad:
        dev, n, v, rr = keys[i]
        seen[dev] = seen.get(dev, 0) + 1
        if seen[dev] > MAX_DIAG:
            continue
        bits = ''.join(str((v >> b) & 1) for b in range(n))
        job = {'kind': 'pack', 'pdev': dev, 'n': n, 'v': '%x' % v}
        triage(ctx, 'pack', PACK_NAMES[dev], pack_term(dev, n, v, rr), 'model_pack_ok', 'spec_pack_ok', PACK_SHOW,
               job, {'get_output()': show_obs(rr[0]), 'get_output(allow_incomplete_output=True)': show_obs(rr[1])},
               f'after writing the {n} bits {bits[:80]} (first written first)', f'{dev}_{seen[dev]}')
    dev, n, v, rr = keys[70000]
    ctx.sample({'device': PACK_NAMES[dev], 'bits_written_first_first': ''.join(str((v >> b) & 1) for b in range(n)),
                'get_output()': show_obs(rr[0]), 'get_output(allow_incomplete_output=True)': show_obs(rr[1])})


# ---- generators of operation sequences -------------------------------------------------------------

def gen_bytes(rng, maxlen=24):
    n = rng.choice([0, 0, 1, 1, 2, 3, 8]) if rng.random() < 0.5 else rng.randrange(maxlen + 1)
    special = [0x00, 0xFF, 0x80, 0x01, 0x7F, 0xFE, 0x55, 0xAA, 0x0A, 0x5C]
    return [rng.choice(special) if rng.random() < 0.3 else rng.randrange(256) for _ in range(n)]


def gen_ops(rng, data, tag_out):
    """operation codes for a device holding the input bytes `data`"""
    nbits = 8 * len(data)
    r = rng.random()
    if r < 0.3:
        tag_out.append('drain-past-eof')
        return [0] * (nbits + rng.choice([1, 1, 2, 7, 8, 9, 20]))
    if r < 0.4:
        tag_out.append('echo-input')                     # read a bit, write it back; then the output is the input
        ops = []
        for b in data:
            for i in range(8):
                ops += [0, 2 if (b >> i) & 1 else 1]
        return ops + [0, 3, 4, 0]
    if r < 0.5:
        tag_out.append('get-after-every-write')
        ops = []
        for _ in range(rng.randrange(1, 40)):
            ops += [rng.choice([1, 2]), rng.choice([3, 4])]
        return ops
    tag_out.append('mixed')
    wr, ww, wg = rng.choice([(6, 3, 1), (3, 6, 1), (1, 1, 1), (8, 1, 1), (1, 8, 1)])
    n = rng.randrange(0, max(2, 2 * nbits + 30))
    ops = []
    for _ in range(n):
        x = rng.randrange(wr + ww + wg)
        ops.append(0 if x < wr else rng.choice([1, 2]) if x < wr + ww else rng.choice([3, 4]))
    return ops


def trace_stats(ctx, device, ops, obs):
    ctx.hist('trace_ops_per_case', f'{device}:' + ('0' if not ops else '1-15' if len(ops) < 16 else '16-127' if len(ops) < 128 else '128+'))
    neof = sum(1 for o in obs if o == 2)
    if device in ('FixedIO', 'StandardIO'):
        ctx.hist('reads_answered_eof_per_case', f'{device}:' + ('0' if neof == 0 else '1' if neof == 1 else '2+'))
    for c in set(ops):
        ctx.hist('cases_using_op', f'{device}:{OPN[c]}')


def describe_ops(ops):
    return 'operations ' + ' '.join({0: 'R', 1: 'W0', 2: 'W1', 3: 'G', 4: 'Ga'}[c] for c in ops[:60]) + (' ...' if len(ops) > 60 else '')


def first_difference(ops, obs, required_codes):
    for i, (o, q) in enumerate(zip(obs, required_codes)):
        if obs_code(o) != q:
            return f'operation #{i} {OPN[ops[i]]} answered {show_obs(o)}, required {show_code(q)}'
    return ''


# ---- campaign 2: FixedIO traces -----------------------------------------------------------------------

def campaign_fixed(ctx):
    rng = ctx.rng
    jobs, tags = [], []
    for _ in range(ctx.n(1500, 10000)):
        data = gen_bytes(rng)
        t = []
        jobs.append({'kind': 'trace', 'dev': 'fixed', 'input': bytes(data).hex(), 'ops': gen_ops(rng, data, t)})
        tags.append(t[0])
    res = run_jobs(ctx, jobs)
    terms = []
    for j, r, t in zip(jobs, res, tags):
        data = list(bytes.fromhex(j['input']))
        terms.append(f'({fw.nlist(data)},{fw.nlist(j["ops"])},{fw.nlist([obs_code(o) for o in r["obs"]])})')
        ctx.count(('fixed', j['input'], tuple(j['ops'])), bool(j['ops']))
        ctx.hist('fixed_pattern', t)
        ctx.hist('fixed_input_bytes', '0' if not data else '1-3' if len(data) < 4 else '4-24')
        trace_stats(ctx, 'FixedIO', j['ops'], r['obs'])
    ctx.sample({'device': 'FixedIO', 'input': jobs[0]['input'], 'ops': jobs[0]['ops'][:40], 'answers': [show_obs(o) for o in res[0]['obs'][:40]]})
    devices_source.compare(ctx, 'fixed', terms)       # the regenerated FixedIO (PyIR.exec in Coq) against the same answers
    fast = [f'({ilist(bytes.fromhex(j["input"]))},{ilist(j["ops"])},{obs63(r["obs"])})' for j, r in zip(jobs, res)]
    oks = fw.coq_eval_shards(ctx, 'fixed', H63, fast, 'check_fixed63', shard=150)
    bad = sorted((i for i, ok in enumerate(oks) if ok is False), key=lambda i: len(jobs[i]['ops']) + len(jobs[i]['input']))
    for k, i in enumerate(bad[:MAX_DIAG]):
        triage(ctx, 'fixed-trace', 'FixedIO', terms[i], '(fun c => codes_eqb (model_fixed c) (snd c))', '(fun c => codes_eqb (spec_fixed c) (snd c))',
               'spec_fixed', jobs[i], [show_obs(o) for o in res[i]['obs']][:200],
               f'FixedIO({jobs[i]["input"] or "empty"}) ' + describe_ops(jobs[i]['ops']), k, jobs[i]['ops'], res[i]['obs'])


# ---- campaign 3: StandardIO traces (stdin/stdout of the module replaced by StringIO objects) -------------

def campaign_standard(ctx):
    rng = ctx.rng
    jobs = []
    for _ in range(ctx.n(800, 5000)):
        data = gen_bytes(rng)
        jobs.append({'kind': 'trace', 'dev': 'standard', 'verbose': rng.random() < 0.6, 'stdin': data, 'ops': gen_ops(rng, data, [])})
    res = run_jobs(ctx, jobs)
    terms = []
    for j, r in zip(jobs, res):
        terms.append(f'({blit(j["verbose"])},{fw.nlist(j["stdin"])},{fw.nlist(j["ops"])},'
                     f'{fw.nlist([obs_code(o) for o in r["obs"]])},{fw.nlist(r["stdout"])})')
        ctx.count(('standard', j['verbose'], tuple(j['stdin']), tuple(j['ops'])), bool(j['ops']))
        ctx.hist('standard_verbose', j['verbose'])
        trace_stats(ctx, 'StandardIO', j['ops'], r['obs'])
    devices_source.compare(ctx, 'standard', terms)    # the regenerated StandardIO against the same answers and stdout
    fast = [f'({blit(j["verbose"])},{ilist(j["stdin"])},{ilist(j["ops"])},{obs63(r["obs"])},{ilist(r["stdout"])})' for j, r in zip(jobs, res)]
    oks = fw.coq_eval_shards(ctx, 'standard', H63, fast, 'check_standard63', shard=150)
    bad = sorted((i for i, ok in enumerate(oks) if ok is False), key=lambda i: len(jobs[i]['ops']) + len(jobs[i]['stdin']))
    for k, i in enumerate(bad[:MAX_DIAG]):
        j, r = jobs[i], res[i]
        triage(ctx, 'standard-trace', 'StandardIO', terms[i],
               '(fun c => let \'(_, _, _, ob, out) := c in codes_eqb (fst (model_standard c)) ob && codes_eqb (snd (model_standard c)) out)',
               '(fun c => let \'(_, _, _, ob, out) := c in codes_eqb (fst (spec_standard c)) ob && codes_eqb (snd (spec_standard c)) out)',
               '(fun c => fst (spec_standard c))', j, {'answers': [show_obs(o) for o in r['obs']][:200], 'stdout': r['stdout'][:200]},
               f'StandardIO(output_verbose={j["verbose"]}) with stdin bytes {bytes(j["stdin"]).hex() or "empty"} ' + describe_ops(j['ops']), k, j['ops'], r['obs'])


# ---- campaign 4: KeyboardIO over event lists ----------------------------------------------------------

def gen_events(rng):
    n = rng.choice([0, 1, 1, 2, 3, 4, 6, 9])
    span = rng.choice([1, 3, 8, 30])
    evs = []
    for _ in range(n):
        r = rng.random()
        tic = rng.randrange(span) if r < 0.8 else (-rng.randrange(1, 5) if r < 0.88 else rng.randrange(span, span + 400) if r < 0.97 else 10 ** 20)
        key = rng.choice([0, 255, 1, 128, 65, 13, 27]) if rng.random() < 0.3 else rng.randrange(256)
        evs.append((tic, rng.random() < 0.5, key))
    return evs


def gen_kb_ops(rng, evs):
    total = rng.choice([0, 3, 4, 5, 12, 16, 17, 40]) if rng.random() < 0.4 else rng.randrange(4 * (len(evs) + 2) * rng.choice([1, 4, 12]) + 1)
    ops = []
    while len([o for o in ops if o == 0]) < total:
        r = rng.random()
        if r < 0.75:
            ops += [0] * rng.choice([1, 3, 4, 4, 8, 12])
        elif r < 0.9:
            ops.append(rng.choice([1, 2]))
        else:
            ops.append(rng.choice([3, 4]))
    return ops[:600]


def kb_stats(ctx, evs, ops):
    tics = [t for t, _, _ in evs]
    ctx.hist('keyboard_events_per_script', len(evs) if len(evs) < 5 else '5+')
    ctx.hist('keyboard_script_shape', 'ties' if len(set(tics)) < len(tics) else 'distinct-tics')
    if tics != sorted(tics):
        ctx.hist('keyboard_script_shape', 'out-of-order-lines')
    nreads = sum(1 for o in ops if o == 0)
    ctx.hist('keyboard_reads_per_case', '0' if nreads == 0 else '1-15' if nreads < 16 else '16-99' if nreads < 100 else '100+')


def campaign_kbd(ctx):
    rng = ctx.rng
    jobs = []
    for _ in range(ctx.n(1200, 8000)):
        evs = gen_events(rng)
        jobs.append({'kind': 'trace', 'dev': 'kbd', 'events': evs, 'ops': gen_kb_ops(rng, evs)})
    res = run_jobs(ctx, jobs)
    terms = []
    for j, r in zip(jobs, res):
        terms.append(f'({events_lit(j["events"])},{fw.nlist(j["ops"])},{fw.nlist([obs_code(o) for o in r["obs"]])})')
        ctx.count(('kbd', tuple(map(tuple, j['events'])), tuple(j['ops'])), any(o == 0 for o in j['ops']))
        kb_stats(ctx, j['events'], j['ops'])
        trace_stats(ctx, 'KeyboardIO', j['ops'], r['obs'])
    pick = next((i for i, j in enumerate(jobs) if len(j['events']) >= 2 and len(j['ops']) >= 16), 0)
    ctx.sample({'device': 'KeyboardIO', 'events': jobs[pick]['events'], 'ops': jobs[pick]['ops'][:40],
                'answers': [show_obs(o) for o in res[pick]['obs'][:40]]})
    fast = [f'({events_lit(j["events"])},{ilist(j["ops"])},{obs63(r["obs"])})' for j, r in zip(jobs, res)]
    oks = fw.coq_eval_shards(ctx, 'kbd', H63, fast, 'check_kbd63', shard=120)
    bad = sorted((i for i, ok in enumerate(oks) if ok is False), key=lambda i: len(jobs[i]['ops']) + 4 * len(jobs[i]['events']))
    for k, i in enumerate(bad[:MAX_DIAG]):
        triage(ctx, 'keyboard-events', 'KeyboardIO', terms[i], '(fun c => codes_eqb (model_kbd c) (snd c))', '(fun c => codes_eqb (spec_kbd c) (snd c))',
               'spec_kbd', jobs[i], [show_obs(o) for o in res[i]['obs']][:300],
               f'KeyboardIO(ScriptedKeyEventSource({jobs[i]["events"]})) ' + describe_ops(jobs[i]['ops']), k, jobs[i]['ops'], res[i]['obs'])


# ---- campaign 5: KeyboardIO over script texts (ScriptedKeyEventSource.from_text) ------------------------

PAD = ['', '', '', ' ', ' ', '\t', '  ', ' \t', '\x1f']
SEPS = ['\n'] * 12 + ['\r\n', '\r\n', '\r', '\x0b', '\x0c', '\x1c', '\x1d', '\x1e']
BAD_NUMBERS = ['', 'abc', '0x', '1__0', '_1', '1_', '01', '007', '0b2', '1.5', '1e3', '0xg', '+', '-', '+-1', '1 2', '0x__1',
               '0_x1', '0o8', '--1', '1+1', 'ten', '0b', '0o', '1_000_', '0_1', "1'000", '0x 1', '+ 1', '1.', '0b_', '0X', 'O17', '1_\t2']
BAD_DOWN_UP = ['dwn', '', '2', 'true', 'd', 'press', 'down1', '-1', '01', 'u p', 'released', 'down.', '10', '00']
BAD_FIELDS = ['1,down', 'just text', '7', '1,down,65,7', ',', ',,,', '1 down 65', '1;down;65', '5,up,3,', ',,,,']
COMMENTS = ['#', '# a comment', '#1, down, 3', '# a, b', '#,,', '##', '# 5, up, 300']


def us(rng, digits):
    """single underscores between some digits"""
    out = digits[0]
    for ch in digits[1:]:
        out += ('_' if rng.random() < 0.4 else '') + ch
    return out


def render_int(rng, v):
    sign = '-' if v < 0 else rng.choice(['', '', '', '', '+'])
    a = abs(v)
    style = rng.choice(['dec'] * 5 + ['hex', 'HEX', 'oct', 'bin', 'dec_', 'hex_', 'zeros'])
    if style == 'zeros' and a == 0:
        return sign + rng.choice(['0', '00', '0_0', '000', '0x0', '0b0', '0o0', '0x_0'])
    if style == 'hex':
        return sign + '0x%x' % a
    if style == 'HEX':
        return sign + '0X%X' % a
    if style == 'oct':
        return sign + rng.choice(['0o', '0O']) + '%o' % a
    if style == 'bin':
        return sign + rng.choice(['0b', '0B']) + bin(a)[2:]
    if style == 'dec_':
        return sign + us(rng, str(a))
    if style == 'hex_':
        return sign + '0x' + rng.choice(['', '_']) + us(rng, '%x' % a)
    return sign + str(a)


def gen_script(rng):
    """returns (text, events in script order | None when some line is malformed, tags)"""
    nlines = rng.choice([0, 1, 2, 3, 5, 8, 12])
    p_bad = rng.choice([0, 0, 0, 0.08, 0.3])
    span = rng.choice([1, 3, 8, 30])
    lines, evs, tags, bad = [], [], set(), False
    for _ in range(nlines):
        r = rng.random()
        pad = lambda: rng.choice(PAD)  # noqa: E731
        if r < 0.12:
            lines.append(pad() + rng.choice(COMMENTS) + pad())
            tags.add('comment')
        elif r < 0.2:
            lines.append(rng.choice(['', '', ' ', '\t', '  \t ']))
            tags.add('blank')
        elif rng.random() < p_bad:
            bad = True
            k = rng.choice(['fields', 'downup', 'number', 'number', 'keycode'])
            tags.add('bad-' + k)
            tic, du, key = render_int(rng, rng.randrange(30)), rng.choice(['down', 'up', '1', '0']), render_int(rng, rng.randrange(256))
            if k == 'fields':
                lines.append(pad() + rng.choice(BAD_FIELDS) + pad())
                continue
            if k == 'downup':
                du = rng.choice(BAD_DOWN_UP)
            elif k == 'number':
                if rng.random() < 0.5:
                    tic = rng.choice(BAD_NUMBERS)
                else:
                    key = rng.choice(BAD_NUMBERS)
            else:
                key = render_int(rng, rng.choice([256, 257, 300, 1000, -1, -128, 65536, 99999, -255]))
            lines.append(pad() + tic + pad() + ',' + pad() + du + pad() + ',' + pad() + key + pad())
        else:
            x = rng.random()
            tic = rng.randrange(span) if x < 0.8 else (-rng.randrange(1, 5) if x < 0.88 else rng.randrange(span, span + 400) if x < 0.97 else 10 ** 20)
            down = rng.random() < 0.5
            key = rng.choice([0, 255, 1, 128, 65]) if rng.random() < 0.3 else rng.randrange(256)
            du = rng.choice(['down', 'DOWN', 'Down', '1', 'dOwN']) if down else rng.choice(['up', 'UP', 'Up', '0', 'uP'])
            lines.append(pad() + render_int(rng, tic) + pad() + ',' + pad() + du + pad() + ',' + pad() + render_int(rng, key) + pad())
            evs.append((tic, down, key))
            tags.add('event')
    text = ''
    for i, ln in enumerate(lines):
        sep = rng.choice(SEPS)
        if sep != '\n':
            tags.add('sep-%02x' % ord(sep[0]) + ('0a' if len(sep) > 1 else ''))
        text += ln + (sep if i + 1 < len(lines) or rng.random() < 0.7 else '')
    # a line made only of padding followed by a one-character separator still counts as a line; nothing to adjust
    return text, (None if bad else evs), sorted(tags)


def campaign_script(ctx):
    rng = ctx.rng
    jobs, gens = [], []
    for _ in range(ctx.n(1500, 10000)):
        text, evs, tags = gen_script(rng)
        ops = gen_kb_ops(rng, evs or [])
        jobs.append({'kind': 'trace', 'dev': 'script', 'text': [ord(c) for c in text], 'ops': ops, 'text_repr': repr(text)})
        gens.append((evs, tags))
    res = run_jobs(ctx, jobs)
    terms, fast = [], []
    for j, r, (evs, tags) in zip(jobs, res, gens):
        ctor = r['ctor']
        cc = 0 if ctor == 0 else (15 if ctor[0] == 'x' else 16 * ctor[0] + ctor[1])
        gen = 'None' if evs is None else f'(Some {events_lit(evs)})'
        terms.append(f'({fw.nlist(j["text"])},{gen},{fw.nlist(j["ops"])},{cc},{fw.nlist([obs_code(o) for o in r["obs"]])})')
        fast.append(f'({ilist(j["text"])},{gen},{ilist(j["ops"])},{cc},{obs63(r["obs"])})')
        ctx.count(('script', j['text_repr'], tuple(j['ops'])), bool(j['text']))
        ctx.hist('script_result', 'constructed' if ctor == 0 else 'unexpected' if ctor[0] == 'x' else
                 {1: 'error:not-three-fields', 2: 'error:bad-down/up', 3: 'error:bad-number', 4: 'error:keycode-not-a-byte'}[ctor[1]])
        for t in tags:
            ctx.hist('script_line_kinds', t)
        if evs is not None:
            kb_stats(ctx, evs, j['ops'])
    pick = next((i for i, (e, _) in enumerate(gens) if e and len(e) >= 2 and len(jobs[i]['ops']) >= 16), 0)
    ctx.sample({'device': 'KeyboardIO(ScriptedKeyEventSource.from_text)', 'text': jobs[pick]['text_repr'], 'ops': jobs[pick]['ops'][:40],
                'constructor': res[pick]['ctor'], 'answers': [show_obs(o) for o in res[pick]['obs'][:40]]})
    pick = next((i for i, r in enumerate(res) if r['ctor'] != 0), None)
    if pick is not None:
        ctx.sample({'device': 'ScriptedKeyEventSource.from_text', 'text': jobs[pick]['text_repr'], 'IODeviceException [line, kind]': res[pick]['ctor']})
    oks = fw.coq_eval_shards(ctx, 'script', H63, fast, 'check_script63', shard=120)
    bad = sorted((i for i, ok in enumerate(oks) if ok is False), key=lambda i: len(jobs[i]['ops']) + len(jobs[i]['text']))
    for k, i in enumerate(bad[:MAX_DIAG]):
        evs = gens[i][0]
        triage(ctx, 'keyboard-script', 'KeyboardIO', terms[i], 'model_script_ok', 'spec_script_ok',
               None if evs is None else "(fun c => let '(_, gen, ops, _, _) := c in match gen with Some evs => map obs_code (device_trace (kb_input (mk_events evs)) (map op_of_code ops)) | None => [] end)",
               dict(jobs[i], generated_events=evs), {'constructor': res[i]['ctor'], 'answers': [show_obs(o) for o in res[i]['obs']][:300]},
               f'ScriptedKeyEventSource.from_text({jobs[i]["text_repr"][:300]}) ' + ('(a line is malformed: a device error is required) ' if evs is None else '') +
               describe_ops(jobs[i]['ops']), k, jobs[i]['ops'], res[i]['obs'])


# ---- campaign 6: BrokenIO -------------------------------------------------------------------------------

def campaign_broken(ctx):
    rng = ctx.rng
    jobs = [{'kind': 'trace', 'dev': 'broken', 'ops': [c]} for c in range(5)]
    for _ in range(ctx.n(100, 1000)):
        jobs.append({'kind': 'trace', 'dev': 'broken', 'ops': [rng.randrange(5) for _ in range(rng.randrange(1, 30))]})
    res = run_jobs(ctx, jobs)
    terms = [f'({fw.nlist(j["ops"])},{fw.nlist([obs_code(o) for o in r["obs"]])})' for j, r in zip(jobs, res)]
    for j, r in zip(jobs, res):
        ctx.count(('broken', tuple(j['ops'])), True)
        trace_stats(ctx, 'BrokenIO', j['ops'], r['obs'])
    fast = [f'({ilist(j["ops"])},{ilist(obs_code(o) for o in r["obs"])})' for j, r in zip(jobs, res)]
    oks = fw.coq_eval_shards(ctx, 'broken', H63, fast, 'check_broken63', shard=400)
    bad = sorted((i for i, ok in enumerate(oks) if ok is False), key=lambda i: len(jobs[i]['ops']))
    for k, i in enumerate(bad[:MAX_DIAG]):
        triage(ctx, 'broken', 'BrokenIO', terms[i], '(fun c => codes_eqb (map obs_code (br_run (map op_of_code (fst c)))) (snd c))',
               '(fun c => codes_eqb (map obs_code (broken_trace (map op_of_code (fst c)))) (snd c))',
               '(fun c => map obs_code (broken_trace (map op_of_code (fst c))))', jobs[i], [show_obs(o) for o in res[i]['obs']],
               'BrokenIO() ' + describe_ops(jobs[i]['ops']), k, jobs[i]['ops'], res[i]['obs'])


# ---- entry points -------------------------------------------------------------------------------------------

def run(ctx):
    # T-gen for Model/Devices.v: FixedIO / StandardIO are re-translated from the current source into the IR of Model/PyIR.v
    # and proved equal to the hand model (Tie/Devices_tie.v, Properties/C17_source.v)
    src_props, src_targets = devices_source.prepare(ctx)
    fw.static_proofs(ctx, ['Properties/C17.v'] + src_props, extra_targets=['Model/Devices.vo'] + src_targets)
    campaign_pack(ctx)
    campaign_fixed(ctx)
    campaign_standard(ctx)
    campaign_kbd(ctx)
    campaign_script(ctx)
    campaign_broken(ctx)
    ctx.coverage['rule'] = (
        'real classes of the repo driven call by call, every answer compared in Coq with Model/Devices.v and with Spec/IOSpec.v: '
        '(1) every bit sequence of 0..16 bits for FixedIO (the other devices up to the lengths listed under exhaustive_bit_sequences; 16 in the thorough tier) and random ones up to 600 (thorough 3000) bits '
        'written, then get_output with both flags; (2) random input byte strings x read/write/get_output interleavings incl. reading past EOF and echoing '
        'the input (FixedIO, StandardIO with stdin/stdout replaced by StringIO, stdin characters < 256); (3) KeyboardIO over random event lists '
        '(ties, unordered, negative and far tics) and over generated script texts (comments, blank lines, 8 kinds of line break, number spellings of int(x,0), '
        'malformed lines of every diagnostic kind) x read bursts interleaved with writes; (4) BrokenIO. distinct = distinct (device, input, operation sequence); '
        'non-trivial = at least one bit written / one operation / one read / non-empty script')
    ctx.assumptions += [
        'CPython and the three Python classes are tied to Model/Devices.v only by this campaign (no proof about Python itself)',
        'StandardIO: sys.stdin/sys.stdout plumbing (text decoding of real stdin, characters >= 256, terminals) is not modelled; stdin characters < 256',
        'from_text: ASCII script texts of at most 4000 characters (other Unicode whitespace/digits/line breaks and the int-string digit limit are outside the model, which then answers PUnsupported)',
        'which script lines are well-formed is decided by the generator for the specification side (fixed lists of valid and invalid spellings)',
        'pygame_window.WindowKeyEventSource (live keys) is not covered; only ScriptedKeyEventSource',
    ]


def replay(ctx, path):
    blob = json.loads(open(path).read())
    rp = blob['replay']
    if 'job' not in rp:
        print(f'[C17] {path} names a theorem/correspondence, not an input: {rp.get("theorem_or_correspondence")}')
        ok = fw.static_proofs(ctx, ['Properties/C17.v'], extra_targets=['Model/Devices.vo'])
        print('[C17] the Coq development ' + ('builds' if ok and not ctx.broken else 'does NOT build'))
        return 0 if ok and not ctx.broken else 1
    ok, out = fw.coq_make(['Model/Devices.vo'])
    if not ok:
        print(out[-2000:])
        return 2
    job = {k: v for k, v in rp['job'].items() if k != 'generated_events'}
    r = fw.run_worker(ctx, 'devices', [job])[0]
    print(f'[C17] replay on {fw.REPO}: {json.dumps(job)[:600]}')
    if job['kind'] == 'pack':
        n, v = job['n'], int(job['v'], 16)
        term, spec_ok, show = pack_term(job['pdev'], n, v, r), 'spec_pack_ok', PACK_SHOW
        observed = [show_obs(o) for o in r]
    else:
        obs = fw.nlist([obs_code(o) for o in r['obs']])
        observed = {'constructor': r['ctor'], 'answers': [show_obs(o) for o in r['obs']]}
        d = job['dev']
        if d == 'fixed':
            term = f'({fw.nlist(list(bytes.fromhex(job["input"])))},{fw.nlist(job["ops"])},{obs})'
            spec_ok, show = '(fun c => codes_eqb (spec_fixed c) (snd c))', 'spec_fixed'
        elif d == 'standard':
            term = f'({blit(job["verbose"])},{fw.nlist(job["stdin"])},{fw.nlist(job["ops"])},{obs},{fw.nlist(r["stdout"])})'
            spec_ok = '(fun c => let \'(_, _, _, ob, out) := c in codes_eqb (fst (spec_standard c)) ob && codes_eqb (snd (spec_standard c)) out)'
            show = '(fun c => fst (spec_standard c))'
            observed['stdout'] = r['stdout']
        elif d == 'kbd':
            term = f'({events_lit(job["events"])},{fw.nlist(job["ops"])},{obs})'
            spec_ok, show = '(fun c => codes_eqb (spec_kbd c) (snd c))', 'spec_kbd'
        elif d == 'script':
            evs = rp['job'].get('generated_events')
            gen = 'None' if evs is None else f'(Some {events_lit(evs)})'
            ctor = r['ctor']
            cc = 0 if ctor == 0 else (15 if ctor[0] == 'x' else 16 * ctor[0] + ctor[1])
            term = f'({fw.nlist(job["text"])},{gen},{fw.nlist(job["ops"])},{cc},{obs})'
            spec_ok = 'spec_script_ok'
            show = None if evs is None else "(fun c => let '(_, gen, ops, _, _) := c in match gen with Some evs => map obs_code (device_trace (kb_input (mk_events evs)) (map op_of_code ops)) | None => [] end)"
        else:
            term = f'({fw.nlist(job["ops"])},{obs})'
            spec_ok = '(fun c => codes_eqb (map obs_code (broken_trace (map op_of_code (fst c)))) (snd c))'
            show = '(fun c => map obs_code (broken_trace (map op_of_code (fst c))))'
    rc, out = fw.coq_eval_term(ctx, 'replay', HEADER, f'{spec_ok} ({term})')
    bs = fw.parse_bools(out)
    required = ''
    if show:
        rc2, out2 = fw.coq_eval_term(ctx, 'replay_spec', HEADER, f'{show} ({term})')
        required = ' | '.join(', '.join(show_code(c) for c in g) for g in nlists(out2))
    print(f'[C17] observed: {json.dumps(observed)[:1500]}')
    print(f'[C17] required by Spec/IOSpec.v: {required[:1500] or ("a device error" if job.get("dev") == "script" else "?")}')
    if rc != 0 or len(bs) != 1:
        print('[C17] could not evaluate the specification:\n' + out[-1500:])
        return 2
    print('[C17] specification ' + ('holds on this input now' if bs[0] else 'VIOLATED'))
    return 0 if bs[0] else 1
