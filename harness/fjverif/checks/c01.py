"""C01: every engine executes the FlipJump machine semantics exactly."""
from .. import enginecamp as ec
from .. import framework as fw
from .. import imagegen as ig
from . import c07
from .. import nativecamp

ENGINES = ('featured', 'fast', 'native')


def gen_cases(ctx, n):
    rng = ctx.rng
    cases = []
    while len(cases) < n:
        r = rng.random()
        directed = None
        if r < 0.25:
            w, segs, tags, directed = ig.directed_native_case(rng)
        elif r < 0.8:
            w, segs, tags = ig.gen_image(rng)
        else:
            w = rng.choice([8, 16, 32, 64])
            w, segs, tags = ig.chain_program(rng, w, rng.choice([4, 8, 16, 40]))
        inp = bytes(rng.randrange(256) for _ in range(rng.choice([0, 0, 1, 1, 2, 3])))
        cases.append({'w': w, 'segs': segs, 'input': inp.hex(), 'version': rng.choice([0, 1, 2, 3]),
                      'watchdog': 4.0, 'tags': tags, 'directed': directed})
    return cases


def run(ctx):
    # T-gen: the constants the models hard-code are re-read from the current source (Tie/C01_tie.v proves them equal)
    from .. import gen_facts_c01
    facts_ok = True
    try:
        gen_facts_c01.write(fw.REPO)
    except (gen_facts_c01.GenError, OSError, SyntaxError) as e:
        fw.write_if_changed(fw.COQ / 'Gen' / 'Facts_C01.v', gen_facts_c01.stub(str(e)))
        ctx.broken_tie('gen_facts_c01 (source translator failed closed)', str(e))
        facts_ok = False
    # T-gen for Model/EngPy.v: the Reader methods and the two Python run loops are re-translated from the current source
    # into the IR of Model/PyIR.v and proved equal to the hand model (Tie/EngPy_tie.v, Properties/C01_source.v)
    from .. import engpy_source
    src_props, src_targets = engpy_source.prepare(ctx)
    fw.static_proofs(ctx, ['Properties/C01.v', 'Properties/C01_native.v', 'Properties/C01_end_to_end.v'] + src_props,
                     extra_targets=(['Tie/C01_tie.vo'] if facts_ok else []) + src_targets)
    so = fw.build_fjcore(ctx)
    base = gen_cases(ctx, ctx.n(1500, 15000))
    cases = []
    for c in base:
        for e in ENGINES:
            d = dict(c)
            d['engine'] = e
            if e == 'native':
                # the native engine has several run loops: pick the storage / ring / measurement knobs at random
                d.update(c.get('directed') or (c07.knobs(ctx.rng, c['w']) if ctx.rng.random() < 0.6 else {}))
            elif ctx.rng.random() < 0.2:
                d['last_ops'] = ctx.rng.choice([0, 2, 5])
            cases.append(d)
    results = ec.run_engines(ctx, cases, so)
    for c, r in zip(cases, results):
        nontrivial = r.get('ops', 0) >= 2
        ctx.count((c['w'], c['segs'], c['input'], c['engine']), nontrivial)
        ctx.hist('cause_by_engine', f'{c["engine"]}:{r.get("cause", "exc")}')
        ctx.hist('width', c['w'])
        for t in c['tags']:
            ctx.hist('generator_tags', t)
        o = r.get('ops', 0)
        ctx.hist('ops_bucket', '0-1' if o < 2 else '2-9' if o < 10 else '10-99' if o < 100 else '100+')
    for c, r in list(zip(cases, results))[:3]:
        ctx.sample({'case': {k: c[k] for k in ('w', 'segs', 'input', 'engine')}, 'observed': r})
    ec.compare_with_machine(ctx, 'c01', cases, results)
    # the translator's own tie: PyIR.exec on the regenerated loop bodies against what the real Python engines returned
    engpy_source.compare_source(ctx, cases, results)
    # the native cases are also evaluated on the transcription of _fjcore.c (Model/EngNative.v), whose refinement to
    # the machine definition is proved in Properties/C01_native.v: this ties the transcription itself to the C code
    ncases = [(c, r) for c, r in zip(cases, results) if c['engine'] == 'native']
    ncases = ncases[:ctx.n(700, 6000)]
    nativecamp.compare_native(ctx, [c for c, _ in ncases], [r for _, r in ncases], name='c01native')
    ctx.coverage['rule'] = ('generated loadable images (random ops incl. unaligned/self-modifying/IO-window/segment-edge, and '
                            'structured chains) x input bytes x {featured, fast, native(rebuilt from _fjcore.c)}; '
                            'distinct = distinct (w,image,input,engine); non-trivial = the run executed >= 2 ops')
    ctx.assumptions += ['the C text and CPython are tied to the model only by this differential campaign',
                        'watchdog expiries are compared only as "model does not halt within the fuel"']


def replay(ctx, path):
    return ec.replay(ctx, path)
