"""C05: bit library macros compute their documented function for every operand (theorems by kernel computation on
images assembled from the current source; see fjverif/stl.py)."""
from .. import stl
from .. import stl_specs as SP

CFG = stl.Config(prop='C05', ns='bit', table=SP.BIT, widths={'quick': [64], 'thorough': [64, 32, 16]},
                 startup='stl.startup', seq_n=3, seq_pairs_quick=40, quick_n2={'n': 4},
                 sweep_max=16, sweep_max_quadratic=12, sweep_extra=64, rerun_n=3)


def run(ctx):
    stl.run_property(ctx, CFG)
    from .c04 import compositional      # theorems for ALL operands of the full-width macros (guarded: its own broken obligation)
    compositional(ctx, CFG)


def replay(ctx, path):
    return stl.replay(ctx, CFG, path)
