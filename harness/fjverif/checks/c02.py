"""C02: the assembled image equals the denotation of the macro-free source.

Per generated primitive program (x w x fjm version) the REAL assembler is run (workers/asm.py); inside Coq
  * spec_holds   = the certified checker check_denotes (Proofs/DenoteProps.v: check_denotes_sound) on the image, segments
                   and label table the implementation produced (decides the property for this program), and
  * model_agrees = exact equality with the executable model Model/Layout.v (ties the universal theorems to the code).
Triage: spec false -> violation with the source text as replay; spec true but model differs -> broken tie
(no-failing-input-found).  Replays = the .fj text + w + version."""
import json
import re
from concurrent.futures import ThreadPoolExecutor

from .. import dump_tree as dt
from .. import framework as fw
from .. import progGen as pg

HEADER = ('From FJ Require Import Lib.Base Spec.MachineSpec Model.Ast Spec.DenoteSpec Model.DenoteCheck Model.Layout.\n'
          'Local Open Scope string_scope.\nLocal Open Scope N_scope.\n')

MAX_DIAG = 64
# True = /repo since the fix of finding F8 (b770ddf): out-of-range op / wflip words are rejected with the
# 'Not enough space ... in op' exception (KWflipValue in Layout.v); False = the code before that fix
STRICT_RANGE = True
LIBKINDS = ['KLabelTwice', 'KPadEval', 'KPadNonPositive', 'KPadUnaligned', 'KSegmentEval', 'KSegmentUnaligned',
            'KReserveEval', 'KReserveUnaligned', 'KExprFold', 'KOpEval', 'KWflipValue', 'KBoundsUnaligned', 'KNoSpace',
            'KAddSegment', 'KNoFirstOp', 'KFirstNotSegment', 'KNotPrimitive', 'KPadTooHigh', 'KWriterWordRange',
            'KReserveNegative']

# recorded defects of the unchanged tree: the theorems carry these guards; a case failing the specification only
# because of one of them is reported as that finding (KNOWN-FINDING when listed in known_findings.json)
# fixed in /repo: never guarded, a reappearance is a violation with the old signature
FIXED = {'aux-op-on-io-cell', 'jump-word-wrapped', 'generated-label-collision', 'negative-reserve-accepted'}
DEFECTS = {
    'aux-op-on-io-cell': 'REGRESSION of fixed finding F16: a wflip chain op is placed in the pad hole / wflip area at address 2w (the op holding the '
                         'input cell): executing the wflip consumes input and may corrupt its own jump word',
    'jump-word-wrapped': 'REGRESSION of fixed finding F8: fjm versions 2/3 store a jump word outside [0,2^w) modulo 2^w '
                         'instead of rejecting the program',
    'negative-reserve-accepted': 'REGRESSION of fixed finding F18 (825c6f7): a `reserve` of a negative size that moves the address back to the start of the current '
                                 'segment piece is accepted: the ops before it stay in the image and shift every later op',
    'generated-label-collision': "REGRESSION of fixed finding F17 (07c8d15): a user label whose full name is '_.wflip_area_start_<k>' (label wflip_area_start_<k> in "
                                 "namespace _) is silently overwritten by the k-th `segment` statement (no duplicate check)",
}


def classify_error(err):
    """exception of assemble() -> ('lib', kind) | ('raw', kind) | ('other', text)"""
    cls, msg, cause = err['class'], err['message'], err.get('cause')
    if cls == 'FlipJumpPreprocessorException':
        for pat, k in (('label declared twice', 'KLabelTwice'), ("Can't evaluate how much to pad", 'KPadEval'),
                       ("'pad' must get a positive", 'KPadNonPositive'),
                       ("'pad' requires the current address to be op-aligned", 'KPadUnaligned'),
                       ('padding ops, which exceeds the', 'KPadTooHigh'),
                       ('segment ops must have a w-aligned', 'KSegmentUnaligned'), ('segment failed', 'KSegmentEval'),
                       ('reserve must get a non-negative size', 'KReserveNegative'),
                       ('reserve ops must have a w-aligned', 'KReserveUnaligned'), ('reserve failed', 'KReserveEval')):
            if pat in msg:
                return 'lib', k
    if cls == 'FlipJumpWriteFjmException' and msg.startswith('data word ') and "doesn't fit in" in msg:
        return 'lib', 'KWriterWordRange'      # Writer.add_data, not wrapped by add_segment_to_fjm
    if cls == 'FlipJumpExprException':
        return 'lib', 'KExprFold'
    if cls == 'FlipJumpAssemblerException':
        if msg.startswith('Unknown exception during assembling'):
            if cause == 'struct.error':
                return 'raw', 'RStructError'
            return 'other', f'catch-all from {cause}'
        if ' in op ' in msg:
            return 'lib', 'KWflipValue' if msg.startswith('Not enough space') else 'KOpEval'
        for pat, k in (('segment boundaries are unaligned', 'KBoundsUnaligned'), ('Not enough space', 'KNoSpace'),
                       ('failed to add the segment', 'KAddSegment'), ('no first op at address 0', 'KNoFirstOp'),
                       ('The first op must be of type NewSegment', 'KFirstNotSegment')):
            if pat in msg:
                return 'lib', k
    return 'other', f'{cls}: {msg[:120]}'


def aux_on_io(job, res):
    """a wflip chain op (label ':wflips:k') sits on the op that holds the input cell (guard of the recorded defect)"""
    if 'ok' not in res:
        return False
    w = job['w']
    in_addr = 3 * w + w.bit_length()
    return any(k.startswith(':wflips:') and v <= in_addr < v + 2 * w for k, v in res['ok']['labels'])


def label_collision(res):
    return any(s['t'] == 'Label' and s['name'].startswith('_.wflip_area_start_') for s in dt.main_ops(res['tree']))


def coq_labels(lbls):
    return '[' + '; '.join(f'({dt.coq_string(k)}, {dt.coq_z(v)})' for k, v in lbls) + ']'


def coq_case(job, res):
    ww = job['w'].bit_length() - 1
    # the program's AST: the parser's own tree, except for the harness-owned expression trees (job['ast']), whose
    # expected words are thereby computed from the harness's tree by the spec and not from a re-parse
    prog = dt.stmts_to_coq(job.get('ast') or dt.main_ops(res['tree']), ';\n  ')
    if 'ok' in res:
        o = res['ok']
        obs = f'ObsOk {fw.npairs(o["segments"])} {fw.npairs(o["words"])} {coq_labels(o["labels"])}'
    else:
        kind, k = classify_error(res['error'])
        obs = f'ObsLib {k}' if kind == 'lib' else f'ObsRaw {k}'
    return f'mkc02 {ww} {job["version"]} {"true" if STRICT_RANGE else "false"} {prog}\n  ({obs})'


def parse_diag(out):
    """output of `Eval vm_compute in case_diag c`"""
    m = re.search(r'd_agree := (\w+); d_spec := (\w+); d_aux_on_io := (\w+); d_in_range := (\w+); '
                  r'd_res_nonneg := (\w+); d_model := (\d+)', out)
    if not m:
        return None
    d = {'agree': m.group(1) == 'true', 'spec': m.group(2) == 'true', 'aux_on_io': m.group(3) == 'true',
         'in_range': m.group(4) == 'true', 'reserves_nonneg': m.group(5) == 'true', 'model': int(m.group(6))}
    r = re.search(r'r_placed := (\w+); r_loadable := (\w+); r_failing := \[([^\]]*)\]', out)
    if r:
        d['placed'] = r.group(1) == 'true'
        d['loadable'] = r.group(2) == 'true'
        d['failing_statements'] = [int(x) for x in re.findall(r'\d+', r.group(3))]
    return d


def model_name(code):
    if code == 0:
        return 'Ok'
    if code == 200:
        return 'RawExn struct.error'
    return 'LibError ' + LIBKINDS[code - 101]


def run_jobs(ctx, jobs):
    k = fw.NCPU
    size = max(1, (len(jobs) + k - 1) // k)
    chunks = [jobs[i:i + size] for i in range(0, len(jobs), size)]
    outs = fw.run_workers_parallel(ctx, 'asm', [{'jobs': c} for c in chunks])
    res = []
    for o in outs:
        res += o
    return res


def listed(ctx, kind):
    return any(f.get('property') == ctx.prop and f.get('match', {}).get('kind') == kind
               for f in ctx.findings.get('findings', []))


def stmt_text(res, idx):
    ops = dt.main_ops(res['tree'])
    if 0 <= idx < len(ops):
        s = ops[idx]
        return f'statement #{idx} {s["t"]} at line {s["pos"]["line"]}'
    return f'statement #{idx}'


def replay_of(job, res, extra=None):
    r = {'src': job['src'], 'w': job['w'], 'version': job['version'],
         'observed': res.get('ok') or res.get('error'),
         'how': 'write src to f1.fj; fj --asm --no_stl -w W -v VERSION f1.fj -o out.fjm (or ./check C02 --replay <this file>)'}
    if job.get('ast'):
        r['ast'] = job['ast']      # harness-owned expression trees: the expected words come from THIS tree, not from a re-parse
        r['how'] += '; the expected jump words are the values of the expression trees in "ast" (printed into src with minimal parentheses)'
    if extra:
        r.update(extra)
    return r


def evaluate(ctx, name, jobs, results, count=True):
    """Coq evaluation + triage of assembled cases. returns number of problems"""
    terms, idx, gterms, gidx, gkind = [], [], [], [], {}
    bad = 0
    for i, (j, r) in enumerate(zip(jobs, results)):
        if 'parse_error' in r:
            ctx.hist('outcome', 'parse-error (discarded)')
            continue
        if 'unloadable' in r:
            bad += 1
            ctx.hist('outcome', 'assembled-but-unloadable')
            ctx.violation({'kind': 'assembled-output-does-not-load', 'what': r['unloadable']['class']},
                          f'the assembler reported success but the reader refuses its output: {r["unloadable"]["message"]}',
                          {'src': j['src'], 'w': j['w'], 'version': j['version'], 'observed': r['unloadable']})
            continue
        if 'error' in r:
            kind, k = classify_error(r['error'])
            if kind == 'other':
                bad += 1
                ctx.hist('outcome', 'unclassified-exception')
                ctx.violation({'kind': 'unclassified-exception', 'what': k.split(':')[0]},
                              f'assembling a primitive program raised an exception outside the modelled classes: {k}',
                              replay_of(j, r))
                continue
            ctx.hist('outcome', f'rejected:{k}')
        else:
            ctx.hist('outcome', 'assembled')
        g = None
        if label_collision(r) and 'generated-label-collision' not in FIXED and not listed(ctx, 'generated-label-collision'):
            g = 'generated-label-collision'
        if g:
            gkind[i] = g
        (gterms if g else terms).append(coq_case(j, r))
        (gidx if g else idx).append(i)
    # cases under the guard of a recorded defect: only the correspondence with the model is required of them
    goks = fw.coq_eval_shards(ctx, name + 'g', HEADER, gterms, 'model_agrees', shard=40) if gterms else []
    for t, i, ok in zip(gterms, gidx, goks):
        j, r = jobs[i], results[i]
        ctx.hist('guarded_defects', gkind[i])
        ctx.sample({'guarded_defect': gkind[i], 'src': j['src'], 'w': j['w'], 'version': j['version']}, limit=8)
        if count:
            ctx.count((j['src'], j['w'], j['version']), nontrivial=True)
            ctx.hist('width', j['w'])
            ctx.hist('version', j['version'])
            for f in j.get('features', []):
                ctx.hist('features', f)
        if ok is not None and not ok:
            bad += 1
            ctx.broken_tie('Layout.v correspondence (assemble_model vs assembler.assemble) on a guarded case',
                           f'observed: {json.dumps(r.get("ok") or r.get("error"))[:600]}; w={j["w"]} v={j["version"]}\n{j["src"]}')
    oks = fw.coq_eval_shards(ctx, name, HEADER, terms, 'case_ok', shard=max(20, min(120, len(terms) // fw.NCPU + 1)))
    failing = []
    for t, i, ok in zip(terms, idx, oks):
        j, r = jobs[i], results[i]
        if count:
            feats = j.get('features', [])
            ctx.count((j['src'], j['w'], j['version']), nontrivial=len(dt.main_ops(r['tree'])) >= 3)
            for f in feats:
                ctx.hist('features', f)
            ctx.hist('width', j['w'])
            ctx.hist('version', j['version'])
        if ok is not None and not ok:
            failing.append((t, i))
    if len(failing) > MAX_DIAG:
        ctx.hist('outcome', 'failing-cases-not-diagnosed', len(failing) - MAX_DIAG)
        # smallest sources first: the replay is then the most readable one
        failing.sort(key=lambda ti: len(jobs[ti[1]]['src']))
        failing = failing[:MAX_DIAG]
    with ThreadPoolExecutor(max_workers=fw.NCPU) as ex:
        diags = list(ex.map(lambda ti: fw.coq_eval_term(ctx, f'{name}_diag{ti[1]}', HEADER, f'case_diag ({ti[0]})'), failing))
    for (t, i), (rc, out) in zip(failing, diags):
        j, r = jobs[i], results[i]
        d = parse_diag(out) if rc == 0 else None
        if d is None:
            bad += 1
            ctx.broken_tie(f'coq diagnosis of case {i}', out)
            continue
        if not d['spec']:
            where = '; '.join(stmt_text(r, k) for k in d.get('failing_statements', [])[:4])
            if not d.get('placed', True):
                where = 'the statement addresses are not computable from the saved label table'
            elif not d.get('loadable', True):
                where = 'segments overlap / are not word-pair aligned; ' + where
            defect = None
            if d['aux_on_io']:
                defect = 'aux-op-on-io-cell'
            elif label_collision(r):
                defect = 'generated-label-collision'
            elif not d['reserves_nonneg']:
                defect = 'negative-reserve-accepted'
            elif not d['in_range'] and j['version'] >= 2:
                defect = 'jump-word-wrapped'
            sig = {'kind': defect or 'denotation-violated'}
            what = (f'the assembled image (w={j["w"]}, fjm v{j["version"]}) is not the denotation of the source: {where}'
                    + (f' [{DEFECTS[defect]}]' if defect else ''))
            if defect and defect not in FIXED and not listed(ctx, defect):
                ctx.hist('guarded_defects', defect)     # recorded defect, theorem guard in force (reported by the builder)
                ctx.sample({'guarded_defect': defect, 'src': j['src'], 'w': j['w'], 'version': j['version']}, limit=8)
            else:
                bad += 1
                ctx.violation(sig, what, replay_of(j, r, {'certified_checker': d, 'model_result': model_name(d['model'])}))
        elif not d['agree']:
            bad += 1
            ctx.hist('outcome', 'model-differs-spec-holds')
            ctx.broken_tie('Layout.v correspondence (assemble_model vs assembler.assemble)',
                           f'model: {model_name(d["model"])}; observed: {json.dumps(r.get("ok") or r.get("error"))[:600]}; '
                           f'w={j["w"]} v={j["version"]}\n{j["src"]}')
    return bad


def run(ctx):
    fw.static_proofs(ctx, ['Properties/C02.v'])
    n = ctx.n(2000, 40000)
    jobs = pg.gen_jobs(ctx.rng, n)
    batch = 6000
    for b in range(0, len(jobs), batch):
        part = jobs[b:b + batch]
        results = run_jobs(ctx, part)
        for j, r in list(zip(part, results))[:2]:
            if 'tree' in r:
                ctx.sample({'src': j['src'], 'w': j['w'], 'version': j['version'],
                            'observed': r.get('ok') or r.get('error')})
        evaluate(ctx, f'c02_{b}', part, results)
    ctx.coverage['rule'] = (
        'generated primitive programs (op / label / constant / wflip / pad / segment / reserve interleavings; expressions '
        'with forward label references and $; shared wflip returns and suffixes; pad holes; reserve splits; abutting and '
        'overlapping segments; invalid layouts) x w in {8,16,32,64} x fjm version 0..3, assembled by the real assembler; '
        'every case: certified checker on the real output + exact comparison with Model/Layout.v; '
        'distinct = distinct (source, w, version); non-trivial = at least 3 statements')
    ctx.assumptions += [
        'lexing/LALR parsing is shared with the implementation through the AST dump (harness/fjverif/dump_tree.py)',
        'the wflip clause of Denotes is claimed under its stated side conditions (statement not on the input-cell op, '
        'target words exist and are not words of the chain itself)',
        'no defect guard is in force (all recorded C02 findings are fixed; their signatures stay as regression probes: '
        + ', '.join(sorted(DEFECTS)) + '); lexical_labels (no label spelled `:wflips:...`) is a property of lexer output',
    ]


def replay(ctx, path):
    blob = json.loads(open(path).read())
    rp = blob.get('replay', blob)
    if 'src' not in rp:
        print(f'[C02] replay file names a theorem/correspondence, not an input: {rp.get("theorem_or_correspondence")}')
        print(rp.get('detail', '')[-2000:])
        return 1
    job = {'src': rp['src'], 'w': rp['w'], 'version': rp['version'], 'ast': rp.get('ast')}
    res = run_jobs(ctx, [job])[0]
    print(f'[C02] replaying w={job["w"]} version={job["version"]} against {fw.REPO}\n{job["src"]}')
    print('observed:', json.dumps(res.get('ok') or res.get('error') or res.get('parse_error'))[:1500])
    if 'tree' not in res:
        return 1
    rc, out = fw.coq_eval_term(ctx, 'replay', HEADER, f'case_diag ({coq_case(job, res)})')
    d = parse_diag(out)
    print('required: check_denotes = true (Denotes: every statement at the address the sequence gives it, op words = '
          'expression values, wflip chains flip exactly the set bits and return, aux ops off user code) and, for an '
          'impossible layout, a library exception')
    print('certified checker / model:', d if d else out[-800:])
    if d and d['spec'] and d['agree']:
        print('[C02] replay: no violation on this tree')
        return 0
    print(f'VIOLATION property=C02 replay={path}')
    return 1
