"""C03: macro expansion is hygienic inlining.

Per generated macro program (macroGen) the REAL assembler of fw.REPO assembles
  (a) the macro program (one file),
  (b) the macro-free program produced by inliner.py (mirror of Spec/InlineSpec.v `inline`; labels renamed apart),
  (c) the macro program split over several files at random top-level boundaries;
Reader(...).memory / memory_segments / zeros_boundaries must be IDENTICAL between (a), (b), (c): this is the property
itself, evaluated on the real code.  In addition, in Coq (vm_compute) on the tree dumped from the real parser:
  * Model/Macro.v `resolve_macros` must reproduce the op list and label table (or the error) of the real resolve_macros,
  * the conclusion of theorem C03_inline is evaluated on the model,
  * the Python inliner is compared with the specification's inliner,
  * the tree must satisfy the well-formedness hypotheses of the theorems."""
import hashlib
import json
import random
import re
from concurrent.futures import ThreadPoolExecutor

from .. import dump_tree as dt
from .. import framework as fw
from .. import inliner as il
from .. import macroGen as mg

HEADER = (dt.COQ_HEADER + 'From FJ Require Import Model.Expr Model.Macro.\n'
          'Definition p0 := mkpos "" "" 0.\n')
TAGS = {'unknown_macro': 1, 'depth': 2, 'dup_label': 3, 'rep_times': 4, 'pad_eval': 5, 'pad_nonpositive': 6,
        'pad_unaligned': 7, 'segment_eval': 8, 'segment_unaligned': 9, 'reserve_eval': 10, 'reserve_unaligned': 11,
        'bad_label_swap': 12, 'rep_args': 13, 'eval_new': 14, 'pad_too_far': 17, 'reserve_negative': 18}


# ---- Python -> Coq --------------------------------------------------------------------------------------------------

def _e(e):
    return '(' + dt.expr_to_coq(e) + ')'


def lop_to_coq(o):
    t = o[0]
    if t == 'fj':
        return f'LFlipJump {_e(o[1])} {_e(o[2])}'
    if t == 'wf':
        return f'LWordFlip {_e(o[1])} {_e(o[2])} {_e(o[3])}'
    if t == 'pad':
        return f'LPadding {dt.coq_z(o[1])}'
    if t == 'seg':
        return f'LNewSegment {dt.coq_z(o[1])} {dt.coq_z(o[2])}'
    if t == 'res':
        return f'LReserveBits {dt.coq_z(o[1])}'
    raise dt.DumpError(f'bad last-phase op {o!r}')


def expected_to_coq(res):
    if res['ok']:
        ops = '[' + '; '.join(lop_to_coq(o) for o in res['ops']) + ']'
        lbls = '[' + '; '.join(f'({dt.coq_string(k)}, {dt.coq_z(v)})' for k, v in res['labels']) + ']'
        return f'(ExpOk {ops} {lbls})'
    return f'(ExpErr {TAGS.get(res["error"]["kind"], 99)})'


def prim_to_coq(s):
    t = s['t']
    if t == 'FlipJump':
        return f'SFlipJump {_e(s["flip"])} {_e(s["jump"])} p0'
    if t == 'WordFlip':
        return f'SWordFlip {_e(s["addr"])} {_e(s["value"])} {_e(s["ret"])} p0'
    if t == 'Pad':
        return f'SPad {_e(s["align"])} p0'
    if t == 'Segment':
        return f'SSegment {_e(s["start"])} p0'
    if t == 'Reserve':
        return f'SReserve {_e(s["size"])} p0'
    if t == 'Label':
        return f'SLabel {dt.coq_string(s["name"])} p0'
    raise dt.DumpError(f'bad prim {s!r}')


def mirror_to_coq(prims):
    if prims is None:
        return '(Some None)'
    return '(Some (Some [' + '; '.join(prim_to_coq(s) for s in prims) + ']))'


def case_to_coq(w, depth, tree, res, mirror):
    return (f'mkmcase {dt.coq_z(w)} {int(depth)} {dt.tree_to_coq(tree)} {expected_to_coq(res)} {mirror}')


# ---- Coq evaluation (one number per case) ---------------------------------------------------------------------------

def coq_codes(ctx, name, terms, shard=40):
    shards = [terms[i:i + shard] for i in range(0, len(terms), shard)]

    def one(idx_cs):
        idx, cs = idx_cs
        path = ctx.scratch / f'{name}_{idx}.v'
        path.write_text(HEADER + '\nDefinition cases : list mcase := [\n' + ';\n'.join(cs) + '\n].\n'
                        'Eval vm_compute in (map check_mcase cases).\n')
        rc, out = fw.coqc_file(path, 900)
        if rc == 0:
            m = re.search(r'=\s*\[([^\]]*)\]', out)
            if m:
                codes = [int(x) for x in re.findall(r'\d+', m.group(1))]
                if len(codes) == len(cs):
                    return codes, ''
        if len(cs) > 1:                      # isolate the case(s) that do not even evaluate
            codes, errs = [], ''
            for k, c in enumerate(cs):
                cc, e = one((f'{idx}_{k}', [c]))
                codes += cc
                errs = errs or e
            return codes, errs
        return [None], out
    res, errs = [], []
    with ThreadPoolExecutor(max_workers=fw.NCPU) as ex:
        for codes, err in ex.map(one, list(enumerate(shards))):
            res += codes
            if err:
                errs.append(err)
    if errs:
        ctx.broken_tie(f'coq evaluation of {name}', errs[0])
    return res


# ---- one program ----------------------------------------------------------------------------------------------------

def make_job(seed_key, idx):
    rng = random.Random(f'{seed_key}:{idx}')
    prog = mg.generate(rng)
    chunks = mg.render(prog, rng)
    a = [['f1', ''.join(chunks)]]
    try:
        prims = il.inline_program(prog, prog.depth)
        b = [['f1', il.render_flat(prims)[0]]]
        stuck = None
    except il.InlineStuck as e:
        prims, b, stuck = None, None, e.reason
    nfiles = rng.choice([2, 2, 3, 4])
    c = [[f'f{i + 1}', t] for i, t in enumerate(mg.split_files(chunks, rng, nfiles))]
    job = {'id': idx, 'w': prog.w, 'depth': prog.depth, 'variants': {'a': a, 'b': b, 'c': c},
           'dump': ['a', 'c'] if idx % 4 == 0 else ['a']}
    return job, prog, prims, stuck


def strip_pos(x):
    if isinstance(x, dict):
        return {k: strip_pos(v) for k, v in x.items() if k != 'pos'}
    if isinstance(x, list):
        return [strip_pos(v) for v in x]
    return x


def img_key(img):
    return ('ok', img['hash']) if img['ok'] else ('fail',)


# hand-written programs for constructs the generator keeps out of the random programs (name, macro program, its textual
# inlining, signature kind used for known_findings.json)
DIRECTED = [
    ('dollar-as-argument', 'def m x {\n    ;x\n}\nm $\n;0\n', ';$\n;0\n', 'dollar-argument'),
    ('dollar-in-argument-expression', 'def m x {\n    x;\n    ;0\n}\nm ($ + 64)\n', '($ + 64);\n;0\n', 'dollar-argument'),
    ('dollar-as-rep-argument', 'def m x {\n    ;x\n}\nrep(2, i) m ($ + i)\n;0\n', ';($ + 0)\n;($ + 1)\n;0\n',
     'dollar-argument'),
]


def check_directed(ctx):
    jobs = [{'id': i, 'w': 64, 'depth': 900, 'variants': {'a': [['f1', a]], 'b': [['f1', b]], 'c': None}, 'dump': []}
            for i, (_, a, b, _) in enumerate(DIRECTED)]
    outs = fw.run_worker(ctx, 'macro', {'jobs': jobs})
    for (name, _, _, kind), job, out in zip(DIRECTED, jobs, outs):
        ok = judge_images(ctx, job, out, None, kind=kind, name=name)
        ctx.hist('directed_cases', f'{name}: {"agree" if ok else "differ"}')


def judge_images(ctx, job, out, stuck, kind=None, name=None):
    """the property on the real code; returns True when (a),(b),(c) agree"""
    directed_kind, directed_name = kind, name
    ia = out['a']['image']
    ok = True
    replay = {'w': job['w'], 'max_recursion_depth': job['depth'], 'a_macro_program': job['variants']['a'],
              'b_inlined_program': job['variants']['b'], 'c_split_program': job['variants']['c'],
              'how': './check C03 --replay <this file>'}
    for name, what in (('b', 'its hand-inlined equivalent'), ('c', 'the same source split over several files')):
        if name not in out or out[name] is None:
            continue
        ix = out[name]['image']
        if img_key(ia) == img_key(ix):
            continue
        ok = False
        if ia['ok'] and ix['ok']:
            kind, desc = 'image-differs', 'assemble to different images'
        elif ia['ok']:
            kind, desc = f'only-{name}-fails', f'the macro program assembles but {what} is rejected ({ix["error"]["class"]}: {ix["error"]["kind"]})'
        else:
            kind, desc = 'only-a-fails', f'{what} assembles but the macro program is rejected ({ia["error"]["class"]}: {ia["error"]["kind"]})'
        sig = {'kind': kind, 'pair': f'a-{name}', 'a_error': None if ia['ok'] else ia['error']['kind'],
               'x_error': None if ix['ok'] else ix['error']['kind']}
        if directed_kind is not None:
            sig = {'kind': directed_kind}
            desc = f'[{directed_name}] {desc}' + (': ' + re.sub(r',? at file .*', '', ia['error']['msg'])[:120] if not ia['ok'] else '')
        ctx.violation(sig, f'macro program and {what}: {desc}',
                      dict(replay, observed={'a': ia, name: ix},
                           required='identical Reader(...).memory, memory_segments and zero ranges'))
    # no inlining exists (unknown macro / arity, nesting deeper than allowed, a number where a label is declared):
    # the macro program must be rejected
    if stuck is not None and ia['ok'] and (stuck.startswith('unknown macro') or stuck.startswith('nesting deeper')
                                           or stuck.startswith('a non-name')):
        ok = False
        ctx.violation({'kind': 'assembles-without-inlining', 'why': stuck.split(' (')[0][:30]},
                      f'the macro program assembles although it has no inlining ({stuck})',
                      dict(replay, observed={'a': ia}, required='rejected'))
    return ok


def check_namespaces(ctx):
    """Model/Macro.v base_name_to_ns_full_name (and the generator's own resolution) against the real parser"""
    rng = random.Random(f'C03-ns:{ctx.seed}')
    jobs = []
    for _ in range(ctx.n(160, 1500)):
        curr = [rng.choice(mg.NS_NAMES) for _ in range(rng.randrange(0, 4))]
        dots = rng.choice([0, 1, 1, 2, 2, 3, 4, 5])
        rest = '.'.join(rng.choice(mg.IDS) for _ in range(rng.randrange(1, 4)))
        if dots == 0 and '.' not in rest:
            rest = rest + '.' + rng.choice(mg.IDS)          # a bare identifier is not a DOT_ID; `x.y` is
        jobs.append({'curr': curr, 'spelled': '.' * dots + rest})
    res = fw.run_worker(ctx, 'macro', {'ns_jobs': jobs})
    terms = []
    for j, r in zip(jobs, res):
        exp = 'None' if r['name'] is None else f'(Some {dt.coq_string(r["name"])})'
        terms.append(f'({dt.strs_to_coq(j["curr"])}, {dt.coq_string(j["spelled"])}, {exp})')
        try:
            mine = il.ns_resolve(j['spelled'], j['curr'])
        except il.InlineStuck:
            mine = None
        ctx.hist('namespace_cases', 'resolved' if r['name'] is not None else 'too-many-dots')
        if mine != r['name']:
            ctx.violation({'kind': 'namespace-resolution'},
                          f'inside namespaces {j["curr"]} the parser resolves {j["spelled"]!r} to {r["name"]!r}; '
                          f'k leading dots strip k-1 levels gives {mine!r}', {'case': j, 'observed': r, 'required': mine})
    oks = fw.coq_eval_shards(ctx, 'c03ns', HEADER, terms, 'check_ns')
    bad = [j for j, ok in zip(jobs, oks) if ok is False]
    if bad:
        ctx.broken_tie('Model/Macro.v base_name_to_ns_full_name vs the parser', json.dumps(bad[:5]))
    ctx.coverage['namespace_cases_checked'] = len(jobs)


def run_batch(ctx, seed_key, first, count, totals):
    """generate, assemble (a)(b)(c), judge, and evaluate in Coq the programs first .. first+count-1"""
    made = [make_job(seed_key, i) for i in range(first, first + count)]
    jobs = [m[0] for m in made]
    k = max(1, (count + fw.NCPU * 2 - 1) // (fw.NCPU * 2))
    chunks = [jobs[i:i + k] for i in range(0, count, k)]
    outs = []
    for o in fw.run_workers_parallel(ctx, 'macro', [{'jobs': c} for c in chunks]):
        outs += o
    terms, owners = [], []
    images_ok = {}
    for (job, prog, prims, stuck), out in zip(made, outs):
        assert out['id'] == job['id']
        a = out['a']
        images_ok[job['id']] = judge_images(ctx, job, out, stuck)
        res = a.get('resolve')
        nexp = sum(1 for o in res['ops'] if o[0] in ('fj', 'wf')) if res and res['ok'] else 0
        nontrivial = a['image']['ok'] and bool(prog.macros) and nexp >= 3
        ctx.count(hashlib.sha1(json.dumps(job['variants']).encode()).hexdigest(), nontrivial)
        outcome = 'assembled' if a['image']['ok'] else 'rejected:' + a['image']['error']['kind']
        ctx.hist('macro_program_outcome', outcome)
        ctx.hist('inliner', 'defined' if stuck is None else 'undefined: ' + stuck.split(' (')[0][:40])
        ctx.hist('width', job['w'])
        ctx.hist('files_in_split', len(job['variants']['c']))
        ctx.hist('expanded_ops', '0-9' if nexp < 10 else '10-49' if nexp < 50 else '50-199' if nexp < 200 else '200+')
        for t in sorted(prog.tags):
            ctx.hist('generator_tags', t)
        if len(ctx.coverage['samples']) < 3 and nontrivial and 'rep' in prog.tags and 'namespaces' in prog.tags:
            ctx.sample({'macro_program': job['variants']['a'][0][1], 'inlined_program': job['variants']['b'] and
                        job['variants']['b'][0][1], 'files_in_split': len(job['variants']['c']),
                        'image': a['image']})
        if 'c' in job['dump'] and a.get('tree') is not None and out['c'].get('tree') is not None:
            same = strip_pos(a['tree']) == strip_pos(out['c']['tree'])
            ctx.hist('split_tree_is_same_tree_at_other_positions', same)
            if not same:
                ctx.broken_tie('C03_split hypothesis: the tree parsed from several files is not the one-file tree at other '
                               'code positions', json.dumps({'a': job['variants']['a'], 'c': job['variants']['c']})[:2500])
        for name in job['dump']:
            v = out[name]
            if v.get('tree') is None:
                ctx.hist('parse', 'rejected')
                continue
            mirror = mirror_to_coq(prims) if name == 'a' else 'None'
            terms.append(case_to_coq(job['w'], job['depth'], v['tree'], v['resolve'], mirror))
            res = v['resolve']
            owners.append((job['id'], {'variant': name, 'w': job['w'], 'depth': job['depth'],
                                       'sources': job['variants'][name],
                                       'observed_resolve': res if not res['ok'] else {'ok': True, 'n_ops': len(res['ops'])}}))
    del outs, made
    codes = coq_codes(ctx, f'c03_{first}', terms)
    for code, (jid, detail) in zip(codes, owners):
        if code is None:
            continue
        ctx.hist('coq_case_bits', f'{code:05b}')
        if not code & 1:
            totals['bad'] += 1
            if images_ok[jid]:
                ctx.broken_tie('Model/Macro.v resolve_macros vs the real resolve_macros',
                               json.dumps(detail)[:2500])
        if not code & 2:
            ctx.broken_tie('wf_tree: the parser produced a tree outside the hypotheses of the C03 theorems',
                           json.dumps(detail)[:2500])
        if not code & 8:
            ctx.broken_tie('C03_inline evaluated on the model: expansion differs from the expansion of the inlined program',
                           json.dumps(detail)[:2500])
        if not code & 16:
            ctx.broken_tie('harness/fjverif/inliner.py vs Spec/InlineSpec.v inline', json.dumps(detail)[:2500])
    totals['cases'] += len(terms)
    for f in ctx.scratch.glob(f'c03_{first}_*'):
        f.unlink()


def run(ctx):
    fw.static_proofs(ctx, ['Properties/C03.v'])
    n = ctx.n(512, 12000)
    seed_key = f'C03:{ctx.seed}'
    totals = {'cases': 0, 'bad': 0}
    check_namespaces(ctx)
    check_directed(ctx)
    batch = 1024                                    # bounds the memory held at any time
    for first in range(0, n, batch):
        run_batch(ctx, seed_key, first, min(batch, n - first), totals)
    terms_n, nbad = totals['cases'], totals['bad']
    ctx.coverage['model_cases'] = terms_n
    ctx.coverage['model_disagreements'] = nbad
    ctx.coverage['rule'] = (
        'generated macro programs (macros in levels up to nesting depth 6, arity overloading, nested re-opened namespaces, '
        'dotted/relative names, p / N.p alias spellings, globals named like parameters/locals/iterators of other macros, '
        'labels passed to be declared by the callee, @ < > lists, rep counts 0..3 incl. rep in rep with the same iterator, '
        'wflip/pad/segment/reserve, ~8% deliberately broken) x w in {64,32,16} x splits into 2..4 files; each assembled '
        'by the real assembler as (a) macro program, (b) inliner.py output, (c) split files: images must be identical; '
        'plus Macro.v / C03_inline / inliner mirror evaluated in Coq on the dumped tree. distinct = distinct source sets; '
        'non-trivial = the macro program assembles, defines macros and expands to >= 3 ops')
    ctx.assumptions += [
        'file short names are identifiers (f1, f2, ...: what the CLI produces); the theorems exclude short names containing - : { }',
        'rep counts that depend on label addresses are outside the specification (inline undefined); none is generated',
        'the sly lexer/LALR parser is shared with the implementation through the tree dump; only its name resolution is '
        'checked independently (generator-side resolution vs parser)',
        'Python-level resource limits (RecursionError, MemoryError) are not modelled',
    ]


# ---- replay ---------------------------------------------------------------------------------------------------------

def replay(ctx, path):
    rec = json.load(open(path))
    r = rec['replay']
    if 'a_macro_program' not in r:
        print(f'[C03] {path} names a theorem/correspondence, not an input: re-run ./check C03')
        print(json.dumps(r, indent=1)[:3000])
        return 1
    job = {'id': 0, 'w': r['w'], 'depth': r['max_recursion_depth'],
           'variants': {'a': r['a_macro_program'], 'b': r['b_inlined_program'], 'c': r['c_split_program']}, 'dump': []}
    out = fw.run_worker(ctx, 'macro', {'jobs': [job]})[0]
    print('required: identical Reader(...).memory, memory_segments and zero ranges for (a) macro program, '
          '(b) inlined program, (c) split files')
    bad = 0
    for name in ('a', 'b', 'c'):
        if out.get(name):
            print(f'observed ({name}):', json.dumps(out[name]['image']))
    for name in ('b', 'c'):
        if out.get(name) and img_key(out['a']['image']) != img_key(out[name]['image']):
            bad = 1
    print('VIOLATION reproduced' if bad else 'no difference on this input')
    return bad
