"""C19: devices see the same program memory under every engine; the screen decodes its command stream as documented."""
import hashlib
import json

from .. import enginecamp as ec
from .. import framework as fw
from .. import imagegen as ig
from . import c07

HEADER = ('From FJ Require Import Lib.Base Spec.MachineSpec Model.DevMem Model.Screen.\n'
          'Local Open Scope N_scope.\n')
MAGIC = 0xBB67AE8584CAA73B
PAGE = 1 << 14
WATCHDOG_FUEL = 30000        # a run stopped by the 3 s watchdog has executed far more ops than this on every engine
OBS_KEYS = ('cause', 'ops', 'fault', 'out', 'log', 'mem')


# ======================================================================================================
# (a) scripted device over the engines
# ======================================================================================================

def bucket(n):
    for lo, hi in ((0, 0), (1, 1), (2, 3), (4, 7), (8, 15), (16, 31)):
        if n <= hi:
            return f'{lo}-{hi}' if lo != hi else str(lo)
    return '32+'


def valid_word(segs, a):
    return any(s <= a < s + l for s, l, *_ in segs)


def io_chain(rng, w, geometry):
    """a program whose ops mostly output bits (so that the device is called), with ops placed in several segments,
    at segment ends and around page edges, and flips that retarget later jump words"""
    ww = w.bit_length() - 1
    dw = 2 * w
    mask = (1 << w) - 1
    segs = ig.gen_segments(rng, w, geometry)
    if segs[0][1] < 8:
        segs[0][1] = 8
        segs = [segs[0]] + [s for s in segs[1:] if s[0] >= 8]
    img = ig.Image(w, segs)
    cand = []
    for s, l in segs:
        offs = set(range(0, min(l, 96), 2)) | {l - 2}
        p = (s // PAGE + 1) * PAGE
        while p < s + l and len(offs) < 64:
            offs |= {p - s - 2, p - s}
            p += PAGE
        cand += [(s + o) << ww for o in offs if 0 <= o <= l - 2 and (s + o) << ww < (1 << w)]
    cand = sorted(set(cand) - {0})
    n = min(len(cand), rng.choice([3, 4, 6, 8, 12, 16, 24, 32, 48]))
    ops = [0] + rng.sample(cand, n)
    if dw in cand and rng.random() < 0.5 and dw not in ops:
        ops.insert(rng.randrange(1, len(ops) + 1), dw)           # the op that covers the input bit
    tags = {'io-chain'}
    in_addr = 3 * w + ww + 1
    call_ops = []                 # (address of the op making the k-th device call, is_read) when the chain runs straight
    for k, a in enumerate(ops):
        nxt = ops[k + 1] if k + 1 < len(ops) else rng.choice([a, a, 0, dw - 1, rng.choice(ops)])
        r = rng.random()
        if r < 0.55:
            f = rng.choice([dw, dw + 1])
        elif r < 0.63 and k + 1 < len(ops):
            t = rng.choice(ops[k + 1:])
            f = t + w + rng.choice([ww + 1, ww + 2, 0])
        elif r < 0.88:
            f = rng.choice(ops[:k + 1]) + rng.randrange(w)      # the flip word of an op already fetched: harmless
        elif r < 0.95:
            s, l = rng.choice(segs)
            f = ((s + rng.choice([0, 1, l - 1, l - 2, rng.randrange(l)])) << ww) + rng.randrange(w)
        elif r < 0.98:
            f = rng.randrange(1 << w)
        else:
            s, l = rng.choice(segs)
            f = (s + l) << ww
        if img.place_op(a, f & mask, nxt & mask):
            if (a >> ww) >= PAGE:
                tags.add('op-above-first-page')
            if f in (dw, dw + 1):
                call_ops.append((a, False))
            if a <= in_addr < a + dw:
                call_ops.append((a, True))
    return w, img.to_case(rng), sorted(tags), (call_ops, ops)


def gen_values(rng, w, words):
    mask = (1 << w) - 1
    r = rng.random()
    if r < 0.3 and words:
        return rng.choice(list(words.values()))
    if r < 0.45:
        return rng.randrange(0, 40) * 2 * w                      # an op address
    if r < 0.6:
        return rng.randrange(1 << w)
    if r < 0.68:
        return rng.choice([0, 1, mask, 1 << (w - 1), MAGIC & mask, MAGIC])
    if r < 0.8:
        return (1 << w) + rng.randrange(1 << w)                  # must be masked to w bits by write_word
    if r < 0.86:
        return rng.choice([1 << 63, (1 << 64) - 1, (1 << 70) - 1, (1 << 64) + 5])
    return rng.randrange(256)


def gen_script(rng, w, segs, fm, oos, chain=None):
    ww = w.bit_length() - 1
    words = {s + i: v for s, l, d in segs for i, v in enumerate(d) if v}
    code = sorted(words)
    tags = set()

    def inseg():
        for _ in range(20):
            s, l, _d = rng.choice(segs)
            r = rng.random()
            if r < 0.35 and code:
                a = rng.choice(code) + rng.choice([0, 0, 1, -1])
            elif r < 0.55:
                a = rng.choice([s, s + 1, s + l - 1, s + l - 2])
            elif r < 0.7:
                a = (rng.randrange(s // PAGE, (s + l - 1) // PAGE + 1)) * PAGE + rng.choice([-1, 0, 1])
            elif r < 0.85 and fm:
                a = fm + rng.choice([-2, -1, 0, 1])
            else:
                a = s + rng.randrange(min(l, 64))
            if a >= 0 and valid_word(segs, a):
                if a % PAGE in (0, PAGE - 1):
                    tags.add('page-edge')
                if fm and abs(a - fm) <= 2:
                    tags.add('window-edge')
                if any(a in (s, s + l - 1) for s, l, _d in segs):
                    tags.add('segment-edge')
                return a
        return 0

    def outseg():
        for _ in range(20):
            s, l, _d = rng.choice(segs)
            r = rng.random()
            if r < 0.4:
                a = rng.choice([s + l, s + l + 1, s - 1, s - 2])
            elif r < 0.55:
                a = (1 << w) + rng.choice([0, 1, 2, 3, s, s + l - 1])      # wraps in the Reader adapter only
            elif r < 0.7:
                a = max(s + l for s, l, _d in segs) + rng.choice([0, 5, PAGE, 1 << 20])
            elif r < 0.8:
                a = rng.choice([(1 << 63), (1 << 64) - 1, (1 << 58) + 1, (1 << 62) - 3])
            else:
                a = rng.randrange(0, max(s + l for s, l, _d in segs) + 4)
            if a >= 0 and not valid_word(segs, a) and a < (1 << 64):
                return a
        return max(s + l for s, l, _d in segs)

    def action():
        a = outseg() if (oos and rng.random() < 0.35) else inseg()
        r = rng.random()
        byte_p = 0.45 if w >= 16 else 0.12
        if r < byte_p and a >= 1:
            op = ((a - 1) << ww) + (rng.randrange(w) if rng.random() < 0.3 else 0)
            if rng.random() < 0.5:
                return ['rb', op]
            return ['wb', op, rng.choice([rng.randrange(256), rng.randrange(256), 255, 0, 256 + rng.randrange(1 << 12)])]
        if rng.random() < 0.5:
            return ['r', a]
        return ['w', a, gen_values(rng, w, words)]

    def current_op_action(k):
        """an access to the words of the op that is executing when the k-th call is made (its flip word was already
        fetched, its jump word is read after the call), or to the word the engine is about to modify"""
        call_ops, ops = chain
        a, is_read = call_ops[k]
        wa = a >> ww
        in_word = (3 * w + ww + 1) >> ww
        r = rng.random()
        tags.add('current-op')
        if r < 0.35:
            return ['w', wa + 1, rng.choice(ops)]                              # retarget the jump of the running op
        if r < 0.5 and w >= 16:
            return ['wb', a, (rng.choice(ops) >> (ww + 1)) & 255]              # the same through the packed byte
        if r < 0.6:
            return ['w', wa, rng.choice([2 * w, 2 * w + 1, rng.choice(ops) + w + ww + 1])]   # its (already fetched) flip word
        if r < 0.75:
            return ['w', 2, rng.choice([0, 1, 2, 3, rng.randrange(1 << w)])]   # the word the output flip is about to change
        if r < 0.9 and is_read:
            return ['w', in_word, rng.randrange(1 << w)]                       # the word the input bit is about to be stored in
        return ['r', wa + 1]

    script = {}
    for k in range(rng.choice([1, 2, 3, 4, 8, 16, 32])):
        if k < 2 or rng.random() < 0.75:
            script[str(k)] = [action() for _ in range(rng.choice([1, 1, 2, 3, 5]))]
        if chain and k < len(chain[0]) and rng.random() < 0.5:
            script.setdefault(str(k), []).insert(rng.randrange(len(script.get(str(k), [])) + 1), current_op_action(k))
    attach = [action() for _ in range(rng.choice([1, 2, 4]))] if rng.random() < 0.3 else []
    return attach, script, sorted(tags)


def action_word(w, act):
    ww = w.bit_length() - 1
    return act[1] if act[0] in ('r', 'w') else (act[1] >> ww) + 1


def gen_dev_groups(ctx, n):
    rng = ctx.rng
    groups = []
    while len(groups) < n:
        geometry = 'sparse' if rng.random() < 0.6 else 'plain'
        r = rng.random()
        chain = None
        if r < 0.65:
            w, segs, tags, chain = io_chain(rng, rng.choice([16, 16, 32, 32, 64, 64, 64]), geometry)
        elif r < 0.8:
            w, segs, tags = ig.chain_program(rng, rng.choice([16, 32, 64]), rng.choice([4, 8, 16]))
        else:
            w, segs, tags = ig.gen_image(rng, w=rng.choice([8, 16, 32, 64, 64]), geometry=geometry)
        top = max(s + l for s, l, _ in segs)
        fm = min(1 << 23, rng.choice([2, 4, 6, 8, 16, 30, 64, 1000, PAGE - 1, PAGE, PAGE + 1, max(2, top - 2), max(2, top // 2)]))
        if w == 64 and rng.random() < 0.3:
            for s in segs:
                if s[2] and rng.random() < 0.5:
                    s[2][rng.randrange(len(s[2]))] = MAGIC
        oos = rng.random() < 0.25
        attach, script, stags = gen_script(rng, w, segs, fm, oos, chain)
        acts = attach + [a for v in script.values() for a in v]
        inseg_only = all(valid_word(segs, action_word(w, a)) for a in acts)
        extra = sorted({action_word(w, a) for a in acts} | {a for a in (fm - 1, fm, PAGE - 1, PAGE) if valid_word(segs, a)})
        inp = bytes(rng.randrange(256) for _ in range(rng.choice([0, 1, 1, 2, 3])))
        base = {'w': w, 'segs': segs, 'input': inp.hex(), 'version': rng.choice([1, 2, 3]), 'watchdog': 3.0,
                'tags': tags + stags + [geometry, 'in-segment-only' if inseg_only else 'with-out-of-segment'],
                'attach': attach, 'script': script, 'inseg_only': inseg_only,
                'read_mem': sorted(set(c07.mem_addresses(segs)) | set(extra))}
        variants = [dict(base, engine='featured'), dict(base, engine='fast'),
                    dict(base, engine='native'),                                   # default window: flat
                    dict(base, engine='native', flat_max_words=fm),                # hybrid when a segment reaches above fm
                    dict(base, engine='native', no_flat=True)]                     # forced paged
        groups.append(variants)
    return groups


def coq_action(a):
    if a[0] == 'r':
        return f'ARead {a[1]}'
    if a[0] == 'w':
        return f'AWrite {a[1]} {a[2]}'
    if a[0] == 'rb':
        return f'AReadByte {a[1]}'
    return f'AWriteByte {a[1]} {a[2]}'


def coq_actions(acts):
    return '[' + ';'.join(coq_action(a) for a in acts) + ']'


def coq_dcase(case, res):
    ww = case['w'].bit_length() - 1
    segs = [(s, l) for s, l, _ in case['segs']]
    inp = list(bytes.fromhex(case.get('input', '')))
    timed_out = res.get('cause') == 6
    fuel = WATCHDOG_FUEL if timed_out else res['ops'] + 2
    nscript = max([int(k) for k in case['script']] + [-1]) + 1
    script = '[' + ';'.join(coq_actions(case['script'].get(str(k), [])) for k in range(nscript)) + ']'
    outn, outb, outv = res['out']
    log = '[' + ';'.join('None' if isinstance(v, str) else f'Some {v}' for v in res['log']) + ']'
    mem = fw.npairs(sorted((int(a), v) for a, v in (res.get('mem') or {}).items()))
    if timed_out or outb is None:
        outn, outb, outv, log, mem = 0, [], 0, '[]', '[]'
    ad = 1 if case['engine'] == 'native' else 0
    return (f'mkdcase {ad} {ww} {fw.npairs(segs)} {fw.npairs(ec.case_words(case))} {fw.nlist(inp)} {fuel} '
            f'{coq_actions(case["attach"])} {script} {res["cause"]} {0 if timed_out else res["ops"]} {res.get("fault") or 0} '
            f'{outn} {fw.nlist(outb)} {outv} {log} {mem}')


def run_dev(ctx, cases, so):
    n = len(cases)
    k = max(1, min(fw.NCPU * 2, n))
    chunks = [cases[i::k] for i in range(k)]
    outs = fw.run_workers_parallel(ctx, 'devmem', chunks, extra_env={'FJVERIF_FJCORE_SO': str(so)})
    res = [None] * n
    for i, o in enumerate(outs):
        for j, r in enumerate(o):
            res[i + j * k] = r
    return res


def variant_name(c):
    if c['engine'] != 'native':
        return c['engine']
    return 'native-paged' if c.get('no_flat') else (f'native-window{c["flat_max_words"]}' if c.get('flat_max_words') else 'native-default')


def slim(c):
    return {k: c.get(k) for k in ('w', 'segs', 'input', 'version', 'engine', 'no_flat', 'flat_max_words', 'attach', 'script',
                                  'read_mem', 'inseg_only', 'watchdog')}


def evaluate_dev(ctx, groups, results, name='c19dev'):
    """returns a list of problems: dicts with 'genuine' (spec false) or not (model only), 'sig', 'what', 'replay'"""
    problems = []
    flat = [(g, i) for g in range(len(groups)) for i in range(len(groups[g]))]
    terms, idx = [], []
    for g, i in flat:
        c, r = groups[g][i], results[g][i]
        if 'exc' in r:
            problems.append({'genuine': True, 'sig': {'kind': 'engine-exception', 'engine': c['engine'], 'exc': r['exc'].split(':')[0]},
                             'what': f'{variant_name(c)} (w={c["w"]}) raised {r["exc"]} while a device accessed memory through its DeviceMemory',
                             'replay': {'kind': 'dev', 'group': [slim(x) for x in groups[g]], 'observed': results[g]}})
            continue
        bad_log = [v for v in r['log'] if isinstance(v, str) and v != 'exc:ValueError']
        if bad_log or (any(isinstance(v, str) for v in r['log']) and c['w'] >= 16) or \
                any(isinstance(v, str) for v in (r.get('mem') or {}).values()):
            problems.append({'genuine': True, 'sig': {'kind': 'device-access-raised', 'engine': c['engine']},
                             'what': f'{variant_name(c)} (w={c["w"]}): a DeviceMemory access raised {bad_log or r["log"]}',
                             'replay': {'kind': 'dev', 'group': [slim(x) for x in groups[g]], 'observed': results[g]}})
            continue
        terms.append(coq_dcase(c, r))
        idx.append((g, i))
    oks = fw.coq_eval_shards(ctx, name, HEADER, terms, 'check_dcase', shard=min(150, max(10, -(-len(terms) // (2 * fw.NCPU)))))
    model_bad = {}
    for (g, i), ok, term in zip(idx, oks, terms):
        if ok is False:
            model_bad.setdefault(g, []).append((i, term))
    # the specification, evaluated on the observed behaviour: equal observations within an adapter always, across all
    # engines and storage modes when every device access is inside a segment
    for g, (vs, rs) in enumerate(zip(groups, results)):
        live = [(c, r) for c, r in zip(vs, rs) if 'exc' not in r and r.get('cause') != 6]
        differs = None
        for scope in ('reader', 'native', 'all'):
            sel = [(c, r) for c, r in live if scope == 'all' or (c['engine'] == 'native') == (scope == 'native')]
            if scope == 'all' and not vs[0]['inseg_only']:
                continue
            obs = [json.dumps([r.get(k) for k in OBS_KEYS], sort_keys=True) for _, r in sel]
            if len(set(obs)) > 1:
                j = next(k for k in range(len(obs)) if obs[k] != obs[0])
                differs = (scope, sel[0], sel[j])
                break
        if differs:
            scope, (c0, r0), (c1, r1) = differs
            what_differs = [k for k in OBS_KEYS if r0.get(k) != r1.get(k)]
            memdiff = [(a, r0['mem'].get(a), r1['mem'].get(a)) for a in sorted(r0.get('mem') or {}, key=int)
                       if (r1.get('mem') or {}).get(a) != r0['mem'].get(a)][:4]
            problems.append({'genuine': True,
                             'sig': {'kind': 'engines-differ' if scope != 'native' else 'storage-modes-differ', 'w': c0['w'],
                                     'a': variant_name(c0).split('-window')[0], 'b': variant_name(c1).split('-window')[0],
                                     'field': what_differs[0]},
                             'what': f'w={c0["w"]}: {variant_name(c0)} and {variant_name(c1)} disagree on {what_differs} with the same program, '
                                     f'input and device script ({"all device accesses in-segment" if c0["inseg_only"] else "same adapter"}): '
                                     f'{ {k: r0.get(k) for k in what_differs if k != "mem"} } vs { {k: r1.get(k) for k in what_differs if k != "mem"} }'
                                     + (f'; words read back (address, first, second): {memdiff}' if memdiff else ''),
                             'replay': {'kind': 'dev', 'group': [slim(x) for x in vs], 'observed': rs}})
        if g in model_bad:
            i, term = model_bad[g][0]
            c, r = vs[i], rs[i]
            rc, model = fw.coq_eval_term(ctx, f'{name}_diag{g}', HEADER, f'dobserve ({term})')
            genuine = c['inseg_only'] or bool(differs)
            if differs and not c['inseg_only']:
                continue                                   # already reported above with the concrete pair
            problems.append({'genuine': genuine,
                             'sig': {'kind': 'device-view-differs' if genuine else 'adapter-model-out-of-segment',
                                     'engine': c['engine'], 'w': c['w'], 'storage': r.get('storage')},
                             'what': f'{variant_name(c)} (w={c["w"]}, storage={r.get("storage")}): device log {r["log"][:12]} cause={r.get("cause")} '
                                     f'ops={r.get("ops")}; DevMem.v requires {model[-400:]}',
                             'replay': {'kind': 'dev', 'group': [slim(x) for x in vs], 'observed': rs, 'model': model,
                                        'theorem_or_correspondence': 'Model/DevMem.v dstep/read_word/write_word vs the engines'}})
    return problems


# ======================================================================================================
# (b) the screen command decoder
# ======================================================================================================

def u16(x):
    return [x & 255, (x >> 8) & 255]


def addr_bytes(a, w):
    return [(a >> (8 * i)) & 255 for i in range(w // 8)]


def gen_stream(rng, w, run_mode=False, lo_addr=0, hi_addr=None, cycle=False):
    """returns (bytes, words, tags); words = jump words holding the packed bytes the stream refers to"""
    wv = w or 16
    ww = wv.bit_length() - 1
    dw = 2 * wv
    dbit = ww + 1
    tags = set()
    words = {}
    out = []
    state = {'W': 0, 'H': 0, 'ps': 0}

    def fill(addr, count):
        for k in range(count):
            wa = ((addr + k * dw) >> ww) + 1
            if rng.random() < 0.9:
                b = rng.randrange(256)
                words[wa] = ((rng.randrange(1 << wv) & ~(255 << dbit)) | (b << dbit)) & ((1 << wv) - 1)

    def addr(count):
        if run_mode:
            span = max(1, (hi_addr - lo_addr - count * dw) // dw)
            return lo_addr + rng.randrange(span) * dw + (rng.randrange(dw) if rng.random() < 0.15 else 0)
        r = rng.random()
        if r < 0.6:
            a = rng.randrange(0, 64) * dw
        elif r < 0.8:
            a = rng.randrange(min(1 << wv, 1 << 20))
        elif r < 0.9:
            a = (1 << wv) - 1 - rng.randrange(4 * dw)           # top of the address range
        else:
            a = rng.randrange(1 << wv)
        return a

    def init(valid=True):
        W, H = rng.choice([1, 2, 3, 4, 5, 8, 12]), rng.choice([1, 2, 3, 4, 6, 10])
        bpp, ps = rng.choice([4, 8]), rng.choice([0, 1, 2, 3, 16, 20])
        if not valid:
            r = rng.random()
            if r < 0.4:
                bpp = rng.choice([0, 1, 2, 3, 5, 7, 9, 16, 255])
                tags.add('bad-bpp')
                if rng.random() < 0.3:
                    W = 0
            elif r < 0.7:
                W = 0
                tags.add('zero-size')
            else:
                H = 0
                tags.add('zero-size')
        else:
            state.update(W=W, H=H, ps=ps)
        return [1] + u16(W) + u16(H) + [bpp] + u16(ps)

    def fill_vals(a, vals):
        for k, b in enumerate(vals):
            wa = ((a + k * dw) >> ww) + 1
            words[wa] = ((rng.randrange(1 << wv) & ~(255 << dbit)) | (b << dbit)) & ((1 << wv) - 1)

    if cycle:
        # palette cycling / fades: the same pixel indices presented again and again while only the palette changes
        # (set_palette between the presents, or a re-init that resets palette and pixels)
        W, H = rng.choice([1, 2, 3, 4, 6]), rng.choice([1, 2, 3, 4])
        bpp, ps = rng.choice([4, 8]), rng.choice([2, 3, 4, 8, 16])
        rounds = rng.choice([2, 2, 3, 4, 5])
        base = addr(W * H + rounds * 3 * ps + 2)
        base -= base % dw if rng.random() < 0.8 else 0
        fb = base
        pix = [min(rng.randrange(ps + (1 if rng.random() < 0.3 else 0)), (1 << bpp) - 1) for _ in range(W * H)]   # ps itself: black
        fill_vals(fb, pix)
        out += [1] + u16(W) + u16(H) + [bpp] + u16(ps)
        tags.add('palette-cycle')
        zero_first = rng.random() < 0.25
        if zero_first:                                          # the all-zero frame of a fresh init, presented by an empty rectangle
            pal0 = base + (W * H) * dw
            fill_vals(pal0, [rng.randrange(1, 256) for _ in range(3 * ps)])
            out += [2] + addr_bytes(pal0, wv)
            out += [4] + u16(0) + u16(0) + u16(0) + u16(0) + addr_bytes(fb, wv)
            out += [1] + u16(W) + u16(H) + [bpp] + u16(ps)       # re-init: palette back to black, pixels back to 0
            out += [4] + u16(rng.randrange(W + 1)) + u16(rng.randrange(H + 1)) + u16(0) + u16(0) + addr_bytes(fb, wv)
            tags.add('reinit-then-present')
        for k in range(rounds):
            pal = base + (W * H + k * 3 * ps) * dw
            fill_vals(pal, [rng.randrange(256) for _ in range(3 * ps)])
            out += [2] + addr_bytes(pal, wv)
            r = rng.random()
            if k == 0 or r < 0.45:
                out += [3] + addr_bytes(fb, wv)
            elif r < 0.75:
                x, y = rng.randrange(W + 1), rng.randrange(H + 1)
                rw, rh = rng.randrange(W - x + 1), rng.randrange(H - y + 1)
                out += [4] + u16(x) + u16(y) + u16(rw) + u16(rh) + addr_bytes(fb, wv)
            else:
                out += [5] + [p | (rng.randrange(16) << bpp if bpp == 4 else 0) for p in pix]
        if w is None:
            tags.add('no-memory')
        return out, words, sorted(tags)

    ncmd = rng.choice([1, 2, 3, 4, 6, 8, 12])
    bad_at = rng.randrange(ncmd) if rng.random() < 0.5 else None
    if rng.random() < 0.85:
        out += init()
    for k in range(ncmd):
        bad = k == bad_at
        r = rng.random()
        W, H = state['W'], state['H']
        if bad and r < 0.2:
            out += [rng.choice([0, 6, 7, 9, 0x10, 0x80, 255])]
            tags.add('unknown-command')
        elif bad and r < 0.45:
            out += init(valid=False)
        elif bad and r < 0.75 and W:
            x, y = rng.randrange(W + 1), rng.randrange(H + 1)
            rw, rh = W - x + rng.choice([1, 1, 2, 300]), rng.randrange(H - y + 1)
            if rng.random() < 0.5:
                rw, rh = rng.randrange(W - x + 1), H - y + rng.choice([1, 2, 65535 - H])
            out += [4] + u16(x) + u16(y) + u16(rw & 0xFFFF) + u16(rh & 0xFFFF) + addr_bytes(addr(1), wv)
            tags.add('rect-out-of-bounds')
        elif r < 0.12:
            out += init()
        elif r < 0.3:
            a = addr(3 * state['ps'])
            fill(a, 3 * state['ps'])
            out += [2] + addr_bytes(a, wv)
            tags.add('set-palette')
        elif r < 0.5:
            a = addr(W * H)
            fill(a, W * H)
            out += [3] + addr_bytes(a, wv)
            tags.add('update-screen' if W else 'update-before-init')
        elif r < 0.8:
            if W:
                x, y = rng.randrange(W + 1), rng.randrange(H + 1)
                rw, rh = rng.randrange(W - x + 1), rng.randrange(H - y + 1)
                if rng.random() < 0.3:
                    rw, rh = W - x, H - y
            else:
                x, y, rw, rh = rng.randrange(3), rng.randrange(3), rng.randrange(3), rng.randrange(3)
            a = addr(max(1, W * H))
            fill(a, W * H)
            out += [4] + u16(x) + u16(y) + u16(rw) + u16(rh) + addr_bytes(a, wv)
            tags.add('update-rectangle' if W else 'rect-before-init')
        else:
            out += [5] + [rng.randrange(256) for _ in range(W * H)]
            tags.add('raw-frame' if W else 'raw-before-init')
    if rng.random() < 0.15 and out:
        out = out[:len(out) - rng.randrange(1, min(6, len(out)) + 1)]          # the stream ends inside a command
        tags.add('truncated')
    if w is None:
        tags.add('no-memory')
    return out, words, sorted(tags)


def gen_stream_cases(ctx, n):
    rng = ctx.rng
    cases = []
    for _ in range(n):
        r = rng.random()
        w = None if r < 0.08 else (8 if r < 0.11 else rng.choice([16, 32, 64]))
        bs, words, tags = gen_stream(rng, w, cycle=w in (16, 32, 64) and rng.random() < 0.15)
        cases.append({'kind': 'stream', 'w': w, 'words': sorted(words.items()) if w else [], 'bytes': bs, 'tags': tags})
    return cases


def gen_run_groups(ctx, n):
    rng = ctx.rng
    groups = []
    tries = 0
    while len(groups) < n and tries < 20 * n:
        tries += 1
        w = rng.choice([16, 32, 64])
        ww = w.bit_length() - 1
        dw = 2 * w
        mask = (1 << w) - 1
        # data segment: around a page edge, after the code, or (w > 16) far away
        data_len = rng.choice([600, 1000, 2000])
        max_code_words = 1400 if w == 16 else 3000
        place = rng.choice(['after-code', 'page-edge', 'far']) if w > 16 else 'after-code'
        bs, words, tags = None, None, None
        cyc = rng.random() < 0.4
        for _ in range(10):
            if place == 'after-code':
                data_start = max_code_words + rng.choice([0, 2, 100])
            elif place == 'page-edge':
                data_start = PAGE - rng.choice([2, 10, 300])
            else:
                data_start = rng.choice([1 << 20, (1 << 20) - 4, 3 * PAGE - 6])
            lo, hi = data_start << ww, (data_start + data_len - 2) << ww
            if hi >= (1 << w):
                continue
            b, wd, tg = gen_stream(rng, w, run_mode=True, lo_addr=lo, hi_addr=hi, cycle=cyc)
            if 2 * (8 * len(b) + 3) <= max_code_words and all(data_start <= a < data_start + data_len for a in wd):
                bs, words, tags = b, wd, tg
                break
        if bs is None:
            continue
        nbits = 8 * len(bs)
        code_len = 2 * (nbits + 3)
        img = ig.Image(w, [[0, code_len + (code_len & 1)], [data_start, data_len]])
        bits = [(b >> i) & 1 for b in bs for i in range(8)]
        img.place_op(0, 3 * w, 2 * dw)                          # flips a bit of word 3 (never executed, never a buffer)
        a = 2 * dw
        for bit in bits:
            img.place_op(a, dw + bit, a + dw)
            a += dw
        img.place_op(a, 3 * w + 1, a)                           # halts: jumps to itself, flipping elsewhere
        for wa, v in words.items():
            img.words[wa] = v & mask
        segs = img.to_case(rng, trim=False)
        fm = rng.choice([4, 8, 64, code_len // 2, code_len, data_start, data_start + 2, data_start + data_len // 2, PAGE])
        base = {'kind': 'run', 'w': w, 'segs': segs, 'input': '', 'version': rng.choice([1, 3]), 'watchdog': 10.0,
                'bytes': bs, 'tags': tags + ['run', 'data-' + place]}
        groups.append([dict(base, engine='featured'), dict(base, engine='fast'), dict(base, engine='native'),
                       dict(base, engine='native', flat_max_words=max(2, fm)), dict(base, engine='native', no_flat=True)])
    return groups


def coq_rgbs(ps):
    return '[' + ';'.join(f'({r},{g},{b})' for r, g, b in ps) + ']'


def coq_scase(c, r):
    if c['kind'] == 'stream':
        memt = 'None' if c['w'] is None else f'(Some ({c["w"].bit_length() - 1}, {fw.npairs(c["words"])}))'
    else:
        # the words of the data segment (the code words are never a buffer; a read of one would show as a mismatch)
        memt = f'(Some ({c["w"].bit_length() - 1}, {fw.npairs(ec.case_words(dict(c, segs=c["segs"][1:])))}))'
    frames = '[' + ';'.join(f'({fw.nlist(f[0])},{coq_rgbs(f[1])},{fw.nlist(f[2])})' for f in r['frames']) + ']'
    return (f'mkscase {memt} {fw.nlist(c["bytes"])} {r["err"]} {frames} {fw.nlist(r["pix"])} {coq_rgbs(r["pal"])} '
            f'{fw.nlist(r["rgb"])} {fw.nlist(r["geom"])}')


def screen_spec_problems(c, r):
    """the specification evaluated on the observed behaviour of one screen case"""
    out = []
    if r['err'] == 2 and c.get('w') in (None, 16, 32, 64):
        out.append(('non-device-exception', f'the screen raised {r.get("exc")} (not an IODeviceException) on a command stream'))
    hs = [hashlib.sha256(bytes(f[0]) + b''.join(bytes(col) for col in f[1])).hexdigest() for f in r['frames']]
    if hs != r['hashes'] or r['frame_count'] != len(r['frames']):
        out.append(('frame-hash', f'frame_hashes/frame_count do not describe the presented frames: {len(r["hashes"])} hashes, '
                                  f'frame_count={r["frame_count"]}, {len(r["frames"])} presents observed'))
    if r['frames'] and r['rgb_len'] != len(r['frames'][-1][0]) and r['err'] == 0:
        out.append(('rgb-frame-size', 'last_frame_rgb does not have one entry per pixel'))
    # the PNG written at each present (frames_dir) must hold that present's expanded frame
    want = [[f[3], f[4], f[2]] for f in r['frames']]
    if r.get('pngs') != want or r.get('png_names', []) != [f'frame_{i:06d}.png' for i in range(len(want))]:
        k = next((i for i, (a, b) in enumerate(zip(r.get('pngs', []), want)) if a != b), min(len(r.get('pngs', [])), len(want)))
        out.append(('png-frame', f'the PNG files of frames_dir do not hold the presented RGB frames (first difference at present {k}: '
                                 f'{str(r["pngs"][k])[:120] if k < len(r.get("pngs", [])) else "missing"} vs width/height/last_frame_rgb '
                                 f'{str(want[k])[:120] if k < len(want) else "none"})'))
    return out


def scase_key(c):
    return (c['kind'], c['w'], c['bytes'], c.get('words') if c['kind'] == 'stream' else c['segs'], c.get('engine'),
            c.get('flat_max_words'), c.get('no_flat'))


def evaluate_screen(ctx, cases, results, name='c19scr'):
    problems = []
    terms = [coq_scase(c, r) for c, r in zip(cases, results)]
    oks = fw.coq_eval_shards(ctx, name, HEADER, terms, 'check_scase', shard=min(120, max(5, -(-len(terms) // (3 * fw.NCPU)))))
    for i, (c, r, ok) in enumerate(zip(cases, results, oks)):
        rep = {'kind': 'screen', 'case': {k: v for k, v in c.items() if k != 'tags'}, 'observed': r}
        for kind, what in screen_spec_problems(c, r):
            problems.append({'genuine': True, 'sig': {'kind': kind, 'w': c['w'], 'engine': c.get('engine')},
                             'what': f'w={c["w"]} {c.get("engine") or "dict-backed memory"}: {what}', 'replay': rep})
        if ok is False:
            rc, model = fw.coq_eval_term(ctx, f'{name}_diag{i}', HEADER,
                                         f'let r := decode (case_view ({terms[i]})) sinit {fw.nlist(c["bytes"])} in '
                                         f'(err_code (snd r), map (fun f => (fst f, map rgb_code (snd f))) (rev (s_frames (fst r))), '
                                         f's_pix (fst r), s_palette (fst r), map rgb_code (s_rgb (fst r)))')
            rep['model'] = model
            problems.append({'genuine': True,
                             'sig': {'kind': 'screen-decoding-differs', 'w': c['w'], 'engine': c.get('engine'),
                                     'err': r['err']},
                             'what': f'w={c["w"]} {c.get("engine") or "dict-backed memory"}: stream {c["bytes"][:24]}... presented '
                                     f'{len(r["frames"])} frame(s), err={r["err"]} {r.get("exc", "")}, final pixels {r["pix"][:16]}, last_frame_rgb '
                                     f'{[hex(x) for x in r["rgb"][:8]]}; the documented '
                                     f'layout (Screen.v) requires {model[-300:]}', 'replay': rep})
    return problems


def evaluate_run_groups(groups, results):
    problems = []
    for vs, rs in zip(groups, results):
        obs = [json.dumps([r.get(k) for k in ('err', 'frames', 'hashes', 'pix', 'pal', 'rgb', 'pngs', 'geom', 'cause', 'ops')]) for r in rs]
        if len(set(obs)) > 1:
            j = next(k for k in range(len(obs)) if obs[k] != obs[0])
            problems.append({'genuine': True, 'sig': {'kind': 'screen-frames-differ-between-engines', 'w': vs[0]['w'],
                                                      'a': variant_name(vs[0]).split('-window')[0], 'b': variant_name(vs[j]).split('-window')[0]},
                             'what': f'w={vs[0]["w"]}: the same screen-driving program presents different frames/results under '
                                     f'{variant_name(vs[0])} ({len(rs[0]["frames"])} frames, err={rs[0]["err"]}) and {variant_name(vs[j])} '
                                     f'({len(rs[j]["frames"])} frames, err={rs[j]["err"]} {rs[j].get("exc", "")})',
                             'replay': {'kind': 'screen-run', 'group': [{k: v for k, v in c.items() if k != 'tags'} for c in vs], 'observed': rs}})
    return problems


def run_screen_workers(ctx, cases, so):
    n = len(cases)
    if not n:
        return []
    k = max(1, min(fw.NCPU * 2, n))
    chunks = [cases[i::k] for i in range(k)]
    outs = fw.run_workers_parallel(ctx, 'screen', chunks, extra_env={'FJVERIF_FJCORE_SO': str(so)})
    res = [None] * n
    for i, o in enumerate(outs):
        for j, r in enumerate(o):
            res[i + j * k] = r
    return res


# ======================================================================================================

def report(ctx, problems):
    for p in problems:
        if p['genuine']:
            ctx.violation(p['sig'], p['what'], p['replay'])
        else:
            ctx.broken_tie(p['sig']['kind'] + ': ' + p['replay'].get('theorem_or_correspondence', ''), p['what'])
            ctx.violation(p['sig'], p['what'], p['replay'], no_input=True)


def run(ctx):
    fw.static_proofs(ctx, ['Properties/C19.v'])
    so = fw.build_fjcore(ctx)

    # (a) scripted device
    groups = gen_dev_groups(ctx, ctx.n(260, 5000))
    cases = [c for g in groups for c in g]
    flat_res = run_dev(ctx, cases, so)
    results, k = [], 0
    for g in groups:
        results.append(flat_res[k:k + len(g)])
        k += len(g)
    for g, rs in zip(groups, results):
        for c, r in zip(g, rs):
            played = len(r.get('log', [])) > 0 or (r.get('calls', 0) > 0 and any(int(i) < r.get('calls', 0) for i in c['script']))
            ctx.count(('dev', c['w'], c['segs'], c['input'], c['attach'], c['script'], variant_name(c)), bool(played or c['attach']))
            ctx.hist('dev_storage_mode', f"{c['engine']}:{r.get('storage')}")
            ctx.hist('dev_cause', r.get('cause', 'exc'))
            ctx.hist('dev_io_calls', bucket(r.get('calls', 0)))
            ctx.hist('dev_adapter', r.get('adapter'))
        for t in g[0]['tags']:
            ctx.hist('dev_tags', t)
        ctx.hist('dev_values_logged', bucket(len(rs[0].get('log', []))))
    report(ctx, evaluate_dev(ctx, groups, results))
    shown = 0
    for g, rs in zip(groups, results):
        if shown < 3 and len(rs[3].get('log', [])) >= 2 and g[0]['inseg_only'] and sum(len(s[2]) for s in g[0]['segs']) <= 64:
            shown += 1
            ctx.sample({'case': {k: g[3].get(k) for k in ('w', 'segs', 'input', 'attach', 'script')}, 'variant': variant_name(g[3]),
                        'observed': {k: rs[3].get(k) for k in ('cause', 'ops', 'fault', 'log', 'storage', 'calls')}})

    # (b) screen command streams against the real InMemoryScreen
    scases = gen_stream_cases(ctx, ctx.n(1500, 24000))
    rgroups = gen_run_groups(ctx, ctx.n(40, 600))
    rcases = [c for g in rgroups for c in g]
    sres = run_screen_workers(ctx, scases + rcases, so)
    for c, r in zip(scases + rcases, sres):
        ctx.count(('scr',) + tuple(map(str, scase_key(c))), len(r['frames']) > 0 or r['err'] != 0)
        ctx.hist('screen_error_class', {0: 'none', 1: 'IODeviceException', 2: 'other'}[r['err']])
        ctx.hist('screen_frames', min(len(r['frames']), 10))
        ctx.hist('screen_width', c['w'])
        if r['err']:
            ctx.hist('screen_exception', ' '.join(r.get('exc', '').split('[')[0].split()[:4]))
        for t in c['tags']:
            ctx.hist('screen_tags', t)
        if c['kind'] == 'run':
            ctx.hist('screen_run_storage', f"{c['engine']}:{r.get('storage')}")
        pairs = sum(1 for a, b in zip(r['frames'], r['frames'][1:]) if a[0] == b[0] and a[1] != b[1] and a[2] != b[2])
        if pairs:
            ctx.hist('screen_same_indices_new_palette_pairs', f"w{c['w']}:{c.get('engine') or 'stream'}", pairs)
    report(ctx, evaluate_screen(ctx, scases + rcases, sres))
    rres, k = [], len(scases)
    for g in rgroups:
        rres.append(sres[k:k + len(g)])
        k += len(g)
    report(ctx, evaluate_run_groups(rgroups, rres))
    for c, r in [(c, r) for c, r in zip(scases, sres) if len(r['frames']) >= 1 and len(c['words']) <= 24][:2] + \
                [(c, r) for c, r in zip(scases, sres) if r['err'] == 1][:1]:
        ctx.sample({'case': {k: c[k] for k in ('w', 'bytes', 'words')}, 'observed': {k: r[k] for k in ('err', 'frames', 'hashes', 'geom')}})

    ctx.coverage['exhaustive'] = False
    ctx.coverage['rule'] = (
        '(a) generated programs (output-heavy op chains spread over segments / around 2^14-word page edges, imagegen ring and '
        'random images) x input x a device script (word and packed-byte reads/writes at attach time and at IO calls; addresses at '
        'segment, page and flat-window edges, on code words, on the words of the op executing at that call - its jump word, the word '
        'the flip / the input store is about to change; values above 2^w, the w=64 fill constant) x {featured, fast, native '
        'default window, native small window (hybrid), native forced paged}; observables: values the device read, words read back '
        'after the run, cause/ops/fault/output; each compared with Model/DevMem.v in Coq, and with each other (all five when every '
        'access is in-segment, within one adapter otherwise).  (b) random screen command streams (valid; unknown command, bpp not in '
        '{4,8}, zero size, rectangle out of bounds, raw/update before init, no memory, truncated) x w in {16,32,64} (+ none, + a few '
        'w=8) fed to the real InMemoryScreen over a dict-backed DeviceMemory, and programs emitting such streams run on the five '
        'engine configurations with the buffers in a data segment after the code / across a page edge / far away; observables: '
        'a snapshot (pixel_indices, palette, last_frame_rgb) at every present, frame_hashes, the PNG written per present, final '
        'pixel_indices/palette/last_frame_rgb/geometry, exception class; 15% of the streams (40% of the programs) are palette '
        'cycles: the same indices presented repeatedly with set_palette / re-init in between; compared with '
        'Model/Screen.v in Coq.  non-trivial = the device performed at least one access / the stream produced a frame or an error')
    ctx.assumptions += [
        'the pygame window (pygame_window.py) is out of scope: pygame is not installed; the PNG files of frames_dir are decoded by '
        'the harness and compared with the last_frame_rgb snapshot of the same present (the PNG encoder itself is not modelled in Coq)',
        'the engines are tied to the machine definition by C01/C07; here the interleaving of device accesses is tied by this campaign',
        'out-of-segment device accesses differ between the two adapters by design; they are compared with the per-adapter model and '
        'within one adapter across storage modes, not across adapters',
        'screen sizes in the campaign are at most 12x10 pixels (a 65535x65535 init_screen allocates 4G list entries: resource '
        'exhaustion is not modelled); in the run-mode screen cases the program only flips the output bits (word 2), which no buffer uses',
        'frame_hashes: the sha256 of each observed (pixel_indices, palette) snapshot is recomputed by the harness and compared',
        'last_frame_rgb is compared with Screen.v (expand: palette[index], black beyond the palette) after every present',
    ]


def replay(ctx, path):
    d = json.loads(open(path).read())
    rep = d['replay']
    so = fw.build_fjcore(ctx)
    if rep['kind'] == 'dev':
        group = rep['group']
        for c in group:
            c.setdefault('tags', [])
        res = run_dev(ctx, group, so)
        for c, r in zip(group, res):
            print(f'{variant_name(c):>22}: cause={r.get("cause")} ops={r.get("ops")} fault={r.get("fault")} storage={r.get("storage")} '
                  f'log={r.get("log", [])[:16]} {r.get("exc", "")}')
        problems = evaluate_dev(ctx, [group], [res], name='replay_dev')
    elif rep['kind'] == 'screen':
        c = rep['case']
        c.setdefault('tags', [])
        res = run_screen_workers(ctx, [c], so)
        print('observed:', {k: res[0].get(k) for k in ('err', 'exc', 'frames', 'geom')})
        problems = evaluate_screen(ctx, [c], res, name='replay_scr')
    else:
        group = rep['group']
        for c in group:
            c.setdefault('tags', [])
        res = run_screen_workers(ctx, group, so)
        for c, r in zip(group, res):
            print(f'{variant_name(c):>22}: err={r["err"]} frames={len(r["frames"])} cause={r.get("cause")} {r.get("exc", "")}')
        problems = evaluate_screen(ctx, group, res, name='replay_scr') + evaluate_run_groups([group], [res])
    for p in problems:
        print('required vs observed:', p['what'])
    print('REPLAY:', 'STILL DIFFERS' if problems else 'agrees with the model and across engines')
    return 1 if problems else 0
