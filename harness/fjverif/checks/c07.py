"""C07: results and final memory do not depend on engine or storage layout."""
from .. import enginecamp as ec
from .. import framework as fw
from .. import imagegen as ig
from .. import nativecamp

MAGIC = 0xBB67AE8584CAA73B


def mem_addresses(segs):
    out = []
    for s, l, data in segs:
        if l <= 64:
            out += list(range(s, s + l))
        else:
            nz = [s + i for i, v in enumerate(data) if v][:200]
            out += nz + list(range(s, s + 8)) + list(range(s + l - 8, s + l))
            d = len(data)
            out += [a for a in range(s + d - 2, s + d + 3) if s <= a < s + l]
    return sorted(set(out))


def knobs(rng, w):
    k = {}
    r = rng.random()
    if r < 0.25:
        k['no_flat'] = True
    elif r < 0.75:
        k['flat_max_words'] = rng.choice([1, 2, 3, 4, 7, 8, 16, 30, 64, 1000, (1 << 14) - 1, 1 << 14, (1 << 14) + 1,
                                          1 << 20, 1 << 23])
    if rng.random() < 0.2:
        k['measure'] = True
    r = rng.random()
    if r < 0.45:
        k['last_ops'] = rng.choice([0, 1, 2, 3, 4, 5, 8, 50, 1000])
    return k


def gen_cases(ctx, n):
    rng = ctx.rng
    cases = []
    while len(cases) < n:
        r = rng.random()
        geometry = 'sparse' if rng.random() < 0.7 else 'plain'
        directed = None
        if r < 0.4:
            w, segs, tags, directed = ig.directed_native_case(rng)
        elif r < 0.88:
            w, segs, tags = ig.gen_image(rng, w=rng.choice([16, 32, 32, 64, 64, 64, 8]), geometry=geometry)
        else:
            w = rng.choice([16, 32, 64])
            w, segs, tags = ig.chain_program(rng, w, rng.choice([4, 8, 16, 40]))
        if w == 64 and rng.random() < 0.3:
            # words equal to the engine's fill constant
            for s in segs:
                if s[2] and rng.random() < 0.6:
                    s[2][rng.randrange(len(s[2]))] = MAGIC
        if w == 64 and rng.random() < 0.04:
            # an op in the last word(s) of the address space (finding F1)
            top = (1 << 58) - 2
            segs = [s for s in segs if s[0] + s[1] <= top]
            segs.append([top, 2, [rng.choice([0, 128, 5]), rng.choice([0, top * 64, 200])]])
            segs[0][2][:2] = [rng.choice([0, 128, 129]), (top + rng.choice([0, 1])) * 64]
            tags = tags + ['top-of-address-space']
        inp = bytes(rng.randrange(256) for _ in range(rng.choice([0, 0, 1, 2])))
        base = {'w': w, 'segs': segs, 'input': inp.hex(), 'version': rng.choice([1, 2, 3]), 'watchdog': 4.0,
                'tags': tags + [geometry], 'read_mem': mem_addresses(segs)}
        # one native configuration set per image + the fast engine as cross-check
        variants = [dict(base, engine='fast', last_ops=rng.choice([None, 3]))]
        if directed is not None:
            variants.append(dict(base, engine='native', **directed))
        for _ in range(2 if directed is not None else 3):
            variants.append(dict(base, engine='native', **knobs(rng, w)))
        cases.append(variants)
    return cases


def run(ctx):
    # T-gen: the constants the models hard-code are re-read from the current source (Tie/C01_tie.v proves them equal)
    from .. import gen_facts_c01
    facts_ok = True
    try:
        gen_facts_c01.write(fw.REPO)
    except (gen_facts_c01.GenError, OSError, SyntaxError) as e:
        fw.write_if_changed(fw.COQ / 'Gen' / 'Facts_C01.v', gen_facts_c01.stub(str(e)))
        ctx.broken_tie('gen_facts_c01 (source translator failed closed)', str(e))
        facts_ok = False
    # the fast Python engine is this campaign's cross-check: its transcription is re-derived from the current source
    from .. import engpy_source
    src_props, src_targets = engpy_source.prepare(ctx)
    fw.static_proofs(ctx, ['Properties/C07.v', 'Properties/C01_native.v'] + src_props,
                     extra_targets=(['Tie/C01_tie.vo'] if facts_ok else []) + src_targets)
    so = fw.build_fjcore(ctx)
    groups = gen_cases(ctx, ctx.n(700, 8000))
    cases = [c for g in groups for c in g]
    results = ec.run_engines(ctx, cases, so)
    for c, r in zip(cases, results):
        nontrivial = r.get('ops', 0) >= 2
        key = (c['w'], c['segs'], c['input'], c['engine'], c.get('no_flat'), c.get('flat_max_words'), c.get('measure'),
               c.get('last_ops'))
        ctx.count(key, nontrivial)
        ctx.hist('storage_mode', r.get('storage'))
        ctx.hist('cause', r.get('cause', 'exc'))
        ctx.hist('knobs', '+'.join(k for k in ('no_flat', 'flat_max_words', 'measure', 'last_ops') if c.get(k) is not None) or 'default')
        for t in c['tags']:
            ctx.hist('generator_tags', t)
    for c, r in list(zip(cases, results))[1:4]:
        ctx.sample({'case': {k: c.get(k) for k in ('w', 'segs', 'input', 'engine', 'no_flat', 'flat_max_words', 'measure', 'last_ops')},
                    'observed': {k: r.get(k) for k in ('cause', 'ops', 'fault', 'last_ops', 'storage')}})
    ec.compare_with_machine(ctx, 'c07', cases, results, what='storage layout / engine independence')
    ncases = [(c, r) for c, r in zip(cases, results) if c['engine'] == 'native']
    ncases = ncases[:ctx.n(900, 8000)]
    nativecamp.compare_native(ctx, [c for c, _ in ncases], [r for _, r in ncases], name='c07native')
    ctx.coverage['rule'] = ('generated images with sparse geometry (segments around 2^14k page edges, the flat-window limit, '
                            '2^20..2^57, words equal to the w=64 fill constant) x input x {fast, native with random '
                            'flat_max_words / forced paged / measurement loop / last-ops ring length}; observables: cause, ops, '
                            'fault address, output, last-ops list, final words read back through DeviceMemory; all compared '
                            'with the machine definition in Coq; non-trivial = >= 2 ops executed')
    ctx.assumptions += ['the C text is tied to the machine definition by this differential campaign',
                        'final memory is compared on all words of segments <= 64 words and on data + edges of longer ones']


def replay(ctx, path):
    return ec.replay(ctx, path)
