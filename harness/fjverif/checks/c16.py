"""C16: the debug label table is exact.

Proof part: coq/Properties/C16.v (naming is injective, table construction, start labels, save/load, breakpoints).
Tie: generated multi-file programs (macro call trees, reps, namespaces, label parameters, @-locals, externs, pad, segment,
reserve; w in {8,16,32,64}) are assembled by the REAL assembler with a debugging file.  Every op statement carries a
unique flip word computed by the assembler's own expression evaluator from a per-expansion id (id*K+k+2^(w-1)), so the
address of every op is recovered from Reader.memory without the label table.  An independent expander in this file
(it knows the program it generated) lists, in expansion order, every label declaration with its structured name
(expansion path, leaf), the address its own layout computation gives and the flip word of the op it precedes, plus the
start of every expansion.  Coq (Model/Labels.v) renders the names, builds the table as coded and compares it with
load_debugging_labels (content AND order); the specification (addresses = statement addresses in the image, keys exactly the
declared/segment/start labels, start labels only where no other label sits) is evaluated on the observed table.
BreakpointHandler.breakpoints for random address/exact/substring queries is compared with the model and the domain
specification; save/load is exercised on the generated and on hostile tables."""
import json
import re

from .. import framework as fw

HEADER = ('From FJ Require Import Lib.Base Model.Labels.\nFrom Coq Require Import String.\n'
          'Local Open Scope string_scope.\nLocal Open Scope list_scope.\nLocal Open Scope N_scope.\n')


# ---- program generator -------------------------------------------------------------------------------
class Macro:
    def __init__(self, full, ns, base):
        self.full, self.ns, self.base = full, ns, base
        self.lparams, self.locals, self.externs = [], [], []
        self.body = []          # statements
        self.file = None
        self.nargs = 1


def ns_full(ns, name):
    return '.'.join(ns + [name])


class Program:
    """source files + an independent account of what the preprocessor has to produce"""

    def __init__(self, rng, w, invalid=False):
        self.rng, self.w = rng, w
        self.small = w == 8
        self.macros = []
        self.top = []               # (file index, ns list, stmt)
        self.nfiles = 1 if self.small else rng.choice([1, 2, 2, 3])
        self.gcount = 0
        self.route = None
        self.gen()
        if invalid:
            self.route = self.inject_duplicate()

    def inject_duplicate(self):
        """turn the (valid) program into one that declares some label twice, through a randomly chosen route"""
        rng = self.rng
        labelled = [t for t in self.top if t[2]['label'] is not None]
        calls = [t for t in self.top if t[2]['kind'] == 'call' and t[2]['largs']]
        with_lp = [m for m in self.macros if m.lparams]
        inner = [m for m in self.macros if sum(1 for st in m.body if st['kind'] == 'call' and st['largs']) >= 2]
        routes = []
        if labelled:
            routes += ['plain-twice', 'plain-twice-other-file']
        if labelled and calls:
            routes += ['plain+param', 'plain+param']
        if len(calls) >= 2 or any(len(t[2]['largs']) >= 2 for t in calls):
            routes += ['same-arg-twice', 'same-arg-twice']
        if with_lp:
            routes += ['rep-same-arg', 'param-then-plain']
        if inner:
            routes += ['nested-same-name']
        if not routes:
            return None
        route = rng.choice(routes)
        if route.startswith('plain-twice'):
            fidx, ns, st = rng.choice(labelled)
            f2 = fidx if route == 'plain-twice' else rng.randrange(self.nfiles)
            new = {'kind': 'label', 'label': st['label'], 'src_label': st['src_label']}
            self.top.insert(rng.randrange(1, len(self.top) + 1), (f2, ns, new))
        elif route == 'plain+param':
            _, _, st = rng.choice(labelled)
            _, _, c = rng.choice(calls)
            c['largs'][rng.randrange(len(c['largs']))] = st['label']
        elif route == 'same-arg-twice':
            two = [t for t in calls if len(t[2]['largs']) >= 2]
            if two and (len(calls) < 2 or rng.random() < 0.4):
                c = rng.choice(two)[2]
                c['largs'][1] = c['largs'][0]
            else:
                a, b = rng.sample(calls, 2)
                b[2]['largs'][rng.randrange(len(b[2]['largs']))] = rng.choice(a[2]['largs'])
        elif route in ('rep-same-arg', 'param-then-plain'):
            m = rng.choice(with_lp)
            ns = rng.choice([[], [], ['a'], ['lib']])
            slot = 1 + max([0] + [t[2]['slot'] + max(t[2].get('n', 1), 1) - 1 for t in self.top if t[2]['kind'] in ('call', 'rep')])
            largs = [('G', self.fresh_global(ns if rng.random() < 0.3 else [])) for _ in m.lparams]
            if route == 'rep-same-arg':
                new = {'kind': 'rep', 'label': None, 'callee': m, 'slot': slot, 'n': rng.choice([2, 2, 3]), 'it': 'i', 'largs': largs}
                self.top.insert(rng.randrange(1, len(self.top) + 1), (rng.randrange(self.nfiles), ns, new))
            else:
                new = {'kind': 'call', 'label': None, 'callee': m, 'slot': slot, 'largs': largs}
                pos = rng.randrange(1, len(self.top) + 1)
                f1 = rng.randrange(self.nfiles)
                self.top.insert(pos, (f1, ns, new))
                g = rng.choice(largs)
                gns, gbase = g[1].split('.')[:-1], g[1].split('.')[-1]
                later = {'kind': 'label', 'label': g, 'src_label': gbase}
                self.top.append((rng.randrange(f1, self.nfiles), gns, later))
        elif route == 'nested-same-name':
            m = rng.choice(inner)
            cs = [st for st in m.body if st['kind'] == 'call' and st['largs']]
            cs[1]['largs'][0] = cs[0]['largs'][0]
        return route

    # statements: dict(kind=..., label=name or None, ...)
    def gen_body(self, m, idx, depth_left):
        rng = self.rng
        n = rng.choice([1, 2, 2, 3] if self.small else [1, 2, 3, 3, 4, 5, 6])
        callable_ = self.macros[idx + 1:] if depth_left > 0 else []
        body = []
        nops = nslots = 0
        max_ops, max_slots = (2, 2) if self.small else (4, 4)
        for _ in range(n):
            r = rng.random()
            if r < 0.5 or not callable_:
                if nops < max_ops:
                    nops += 1
                    body.append({'kind': 'op', 'label': None, 'k': nops})
                else:
                    body.append({'kind': 'label', 'label': None})
            elif r < 0.78 and nslots < max_slots:
                callee = rng.choice(callable_)
                nslots += 1
                body.append({'kind': 'call', 'label': None, 'callee': callee, 'slot': nslots, 'largs': []})
            elif r < 0.92 and nslots < max_slots:
                cands = [c for c in callable_ if not c.lparams]
                if not cands:
                    continue
                cnt = rng.choice([0, 1, 2, 2, 3] if not self.small else [0, 1, 2])
                if nslots + max(cnt, 1) > max_slots:
                    cnt = 1
                body.append({'kind': 'rep', 'label': None, 'callee': rng.choice(cands), 'slot': nslots + 1, 'n': cnt,
                             'it': rng.choice(['i', 'k', 'idx', 'x'])})
                nslots += max(cnt, 1)
            elif r < 0.96:
                body.append({'kind': 'pad', 'label': None, 'n': rng.choice([1, 2, 4])})
            else:
                body.append({'kind': 'label', 'label': None})
        return body

    def gen(self):
        rng = self.rng
        nm = rng.choice([1, 1, 2] if self.small else [2, 3, 4, 5, 6])
        nss = [[], [], ['a'], ['a', 'b'], ['lib'], ['_']]
        for i in range(nm):
            ns = rng.choice(nss)
            base = rng.choice(['m', 'mac', 'f', 'rep3', 'q_1']) + str(i)
            m = Macro(ns_full(ns, base), ns, base)
            m.file = rng.randrange(self.nfiles)
            self.macros.append(m)
        # signatures first (bodies refer to callee signatures)
        for m in self.macros:
            m.lparams = rng.sample(['L', 'out', 'ret'], rng.choice([0, 0, 1, 1, 2]))
            m.locals = rng.sample(['x', 'y', 'z', 't', 'u1', 'v_2', 'start', 'end'], rng.choice([0, 1, 2, 3, 4]))
            m.externs = ['e' + m.base] if rng.random() < 0.08 else []
            m.nargs = 1 + len(m.lparams)
        depth = 1 if self.small else 3
        for i in reversed(range(len(self.macros))):
            m = self.macros[i]
            m.body = self.gen_body(m, i, depth)
            self.assign_labels(m)
        # top level
        ntop = rng.choice([2, 3, 3] if self.small else [3, 4, 6, 8, 10, 12])
        nops = nslots = 0
        addr_big = 1 << min(self.w - 2, 16)
        for t_i in range(ntop):
            fidx = rng.randrange(self.nfiles) if t_i else 0
            ns = rng.choice(nss[:5])
            r = rng.random() if t_i else 0.0        # the program starts with an op at address 0 (first statement of f1)
            st = None
            if r < 0.25 or not self.macros:
                nops += 1
                st = {'kind': 'op', 'label': None, 'k': nops}
            elif r < 0.7:
                callee = rng.choice(self.macros)
                nslots += 1
                st = {'kind': 'call', 'label': None, 'callee': callee, 'slot': nslots, 'largs': []}
                for _p in callee.lparams:
                    st['largs'].append(('G', self.fresh_global(ns if rng.random() < 0.3 else [])))
            elif r < 0.8:
                cands = [c for c in self.macros if not c.lparams]
                if cands:
                    cnt = rng.choice([0, 1, 2, 3] if not self.small else [0, 1, 2])
                    st = {'kind': 'rep', 'label': None, 'callee': rng.choice(cands), 'slot': nslots + 1, 'n': cnt,
                          'it': rng.choice(['i', 'k', 'j'])}
                    nslots += max(cnt, 1)
            elif r < 0.86:
                st = {'kind': 'pad', 'label': None, 'n': rng.choice([1, 2, 4, 8])}
            elif r < 0.92 and not self.small:
                st = {'kind': 'segment', 'label': None}
            elif r < 0.96 and not self.small:
                st = {'kind': 'reserve', 'label': None, 'ops': rng.choice([1, 2, 3])}
            else:
                st = {'kind': 'label', 'label': None}
            if st is None:
                continue
            if rng.random() < (0.55 if st['kind'] != 'label' else 1.0):
                st['label'] = ('G', self.fresh_global(ns))
                st['src_label'] = st['label'][1].split('.')[-1]
            self.top.append((fidx, ns, st))
            if st['label'] is not None and ns and rng.random() < 0.35:
                # a near miss of the namespaced name: `a.b.lab3` and the plain label `a_b_lab3` in the same table
                twin = st['label'][1].replace('.', '_')
                self.top.append((rng.randrange(self.nfiles), [], {'kind': 'label', 'label': ('G', twin), 'src_label': twin}))

    def fresh_global(self, ns):
        self.gcount += 1
        base = self.rng.choice(['g', 'lab', 'loop', 'end', 'start', 'x']) + str(self.gcount)
        return ns_full(ns, base)

    def assign_labels(self, m):
        """decide which @-locals / label params / externs are declared in the body and which are passed down"""
        rng = self.rng
        names = [('L', n) for n in m.locals] + [('P', n) for n in m.lparams] + [('E', n) for n in m.externs]
        rng.shuffle(names)
        # calls that need label arguments take names first
        for st in m.body:
            if st['kind'] == 'call':
                for _p in st['callee'].lparams:
                    pick = None
                    for cand in names:
                        if cand[0] in ('L', 'P'):
                            pick = cand
                            break
                    if pick is None:
                        st['largs'].append(None)       # no name available: the call is dropped at emission
                    else:
                        names.remove(pick)
                        st['largs'].append(pick)
        m.body = [st for st in m.body if not (st['kind'] == 'call' and None in st['largs'])]
        # the rest is declared in front of random statements (or on their own line)
        for cand in names:
            if rng.random() < 0.15:
                continue                                # never declared (an unused name)
            free = [st for st in m.body if st['label'] is None]
            if free and rng.random() < 0.8:
                rng.choice(free)['label'] = cand
            else:
                m.body.insert(rng.randrange(len(m.body) + 1), {'kind': 'label', 'label': cand})

    # ---- emission ----
    def constants(self):
        self.K = 1 + max([sum(1 for s in m.body if s['kind'] == 'op') for m in self.macros] +
                         [sum(1 for _, _, s in self.top if s['kind'] == 'op')])
        slots = [max([0] + [s['slot'] + max(s.get('n', 1), 1) - 1 for s in m.body if s['kind'] in ('call', 'rep')])
                 for m in self.macros]
        slots.append(max([0] + [s['slot'] + max(s.get('n', 1), 1) - 1 for _, _, s in self.top if s['kind'] in ('call', 'rep')]))
        self.F = 1 + max(slots)
        self.TOP = 1 << (self.w - 1)

    def stmt_text(self, st, in_macro, ns):
        lab = ''
        if st['label'] is not None:
            kind, name = st['label']
            lab = (st.get('src_label') or name) + ': ' if kind == 'G' else name + ': '
        k = st['kind']
        ide = 'id' if in_macro else None
        if k == 'op':
            e = f'id*{self.K}+{st["k"]}+{self.TOP}' if in_macro else f'{st["k"] + self.TOP}'
            return lab + e + ';'
        if k == 'label':
            return lab.rstrip()
        if k in ('call', 'rep'):
            callee = st['callee']
            cname = callee.full
            if callee.ns and callee.ns == ns and self.rng.random() < 0.3:
                cname = '.' + callee.base                      # relative form inside the same namespace
            idarg = f'id*{self.F}+{st["slot"]}' if in_macro else f'{st["slot"]}'
            if k == 'rep':
                extra = ''.join(', ' + la[1] for la in st.get('largs', []))
                return lab + f'rep({st["n"]}, {st["it"]}) {cname} {idarg}+{st["it"]}{extra}'
            args = [idarg]
            for la in st['largs']:
                args.append(la[1])
            return lab + f'{cname} ' + ', '.join(args)
        if k == 'pad':
            return lab + f'pad {st["n"]}'
        if k == 'segment':
            return lab + f'segment {st["addr"]}'
        if k == 'reserve':
            return lab + f'reserve {st["ops"]}*2*w'
        raise AssertionError(k)

    def emit(self):
        """writes the sources; records line numbers into the statements; fixes segment addresses via the layout pass"""
        self.constants()
        self.layout_segments()
        files = [[] for _ in range(self.nfiles)]
        for m in self.macros:
            lines = files[m.file]
            for n in m.ns:
                lines.append(f'ns {n} {{')
            sig = ', '.join(['id'] + m.lparams)
            if m.locals:
                sig += ' @ ' + ', '.join(m.locals)
            if m.externs:
                sig += ' > ' + ', '.join(m.externs)
            lines.append(f'def {m.base} {sig} {{')
            if not m.body:
                lines.append('')
            for st in m.body:
                lines.append('  ' + self.stmt_text(st, True, m.ns))
                st['line'] = len(lines)
                st['file'] = m.file
            lines.append('}')
            for _ in m.ns:
                lines.append('}')
        # top-level statements follow the definitions of their file (file order = assembly order)
        for fidx, ns, st in self.top:
            lines = files[fidx]
            for n in ns:
                lines.append(f'ns {n} {{')
            lines.append(self.stmt_text(st, False, ns))
            st['line'] = len(lines)
            st['file'] = fidx
            for _ in ns:
                lines.append('}')
        self.files = [[f'f{i + 1}', '\n'.join(ls) + '\n'] for i, ls in enumerate(files)]
        # top-level statements execute in FILE order (all of f1, then f2, ...), keeping their order inside a file
        self.top_order = sorted(range(len(self.top)), key=lambda i: (self.top[i][0], i))

    def layout_segments(self):
        """segment start addresses: 64 ops past everything laid out so far (sizes do not depend on the addresses)"""
        order = sorted(range(len(self.top)), key=lambda i: (self.top[i][0], i))
        ex = Expander(self, order, assign_segments=True)
        self.too_big = ex.max_addr >= (1 << (self.w - 1))


class Expander:
    """independent account of the preprocessing of a generated Program: label declarations, expansion starts, op markers"""

    def __init__(self, prog, order, assign_segments=False):
        self.p = prog
        self.w = prog.w
        self.cur = 0
        self.max_addr = 0
        self.events = []        # ['decl', name_struct, addr, marker|None] / ['silent', name, addr]
        self.starts = []        # (path tuple, addr)
        self.markers = {}       # marker -> addr
        self.pending = []
        self.seg_index = 0
        self.assign_segments = assign_segments
        self.starts.append(((), 0))
        for i in order:
            fidx, ns, st = prog.top[i]
            self.stmt(st, (), 0, {}, None, ns, top=True)
        self.max_addr = max(self.max_addr, self.cur)

    def decl(self, name):
        self.events.append(['decl', name, self.cur, None])
        self.pending.append(len(self.events) - 1)

    def stmt(self, st, path, idv, binding, macro, ns, top=False):
        p = self.p
        w = self.w
        if st['label'] is not None:
            kind, name = st['label']
            if kind == 'G':
                self.decl(('G', name))
            elif kind == 'L':
                self.decl(('L', path, name))
            elif kind == 'P':
                self.decl(binding[name])
            elif kind == 'E':
                self.decl(('G', ns_full(macro.ns, name)))
        k = st['kind']
        if k == 'op':
            code = idv * p.K + st['k']
            marker = code + p.TOP
            for i in self.pending:
                self.events[i][3] = marker
            self.pending = []
            self.markers.setdefault(marker, []).append(self.cur)
            self.cur += 2 * w
        elif k == 'label':
            pass
        elif k in ('call', 'rep'):
            callee = st['callee']
            fshort = f'f{st.get("file", 0) + 1}'
            line = st.get('line', 0)
            if k == 'call':
                b2 = {}
                for pname, la in zip(callee.lparams, st['largs']):
                    kind, name = la
                    if kind == 'G':
                        b2[pname] = ('G', name)
                    elif kind == 'L':
                        b2[pname] = ('L', path, name)
                    else:
                        b2[pname] = binding[name]
                comp = (fshort, line, None, callee.full, callee.nargs)
                self.expand(callee, path + (comp,), idv * p.F + st['slot'], b2)
            else:
                b2 = {}
                for pname, la in zip(callee.lparams, st.get('largs', [])):
                    b2[pname] = ('G', la[1]) if la[0] == 'G' else (('L', path, la[1]) if la[0] == 'L' else binding[la[1]])
                for i in range(st['n']):
                    comp = (fshort, line, i, callee.full, callee.nargs)
                    self.expand(callee, path + (comp,), idv * p.F + st['slot'] + i, b2)
        elif k == 'pad':
            self.pending = []
            ops = (-self.cur // (2 * w)) % st['n']
            self.cur += ops * 2 * w
        elif k == 'segment':
            self.pending = []
            self.events.append(['silent', f'_.wflip_area_start_{self.seg_index}', self.cur])
            self.seg_index += 1
            self.max_addr = max(self.max_addr, self.cur)
            if self.assign_segments:
                st['addr'] = (self.max_addr // (2 * w) + 64) * 2 * w
            self.cur = st['addr']
        elif k == 'reserve':
            self.pending = []
            self.cur += st['ops'] * 2 * w
        self.max_addr = max(self.max_addr, self.cur)

    def expand(self, m, path, idv, binding):
        self.starts.append((path, self.cur))
        for st in m.body:
            self.stmt(st, path, idv, binding, m, m.ns)


# ---- Coq terms -------------------------------------------------------------------------------------
def slit(s):
    """a Coq term of type str (list of character codes); printable ASCII goes through a string literal (cheap to parse)"""
    if s and all(32 <= ord(ch) < 127 and ch != '"' for ch in s):
        return f'(S_ "{s}")'
    return '[' + ';'.join(str(ord(ch)) for ch in s) + ']'


def zlit(x):
    return f'({int(x)})%Z' if x < 0 else f'{int(x)}%Z'


def comp_lit(c):
    f, line, rep, name, nargs = c
    return f'mkcomp {slit(f)} {line} {"(Some " + str(rep) + ")" if rep is not None else "None"} {slit(name)} {nargs}'


def name_lit(n):
    if n[0] == 'G':
        return f'Global {slit(n[1])}'
    return f'Local [{";".join(comp_lit(c) for c in n[1])}] {slit(n[2])}'


def lcase_term(case, res):
    evs = []
    for e in case['events']:
        if e[0] == 'decl':
            mk = f'(Some {e[3]})' if e[3] is not None else 'None'
            evs.append(f'XDecl ({name_lit(e[1])}) {zlit(e[2])} {mk}')
        else:
            evs.append(f'XSilent {slit(e[1])} {zlit(e[2])}')
    starts = ';'.join(f'([{";".join(comp_lit(c) for c in p)}], {zlit(a)})' for p, a in case['starts'])
    table = ';'.join(f'({slit(k)}, {zlit(v)})' for k, v in res.get('table_nowflips', []))
    words = fw.npairs(res.get('words', []))
    ww = case['w'].bit_length() - 1
    return f'mklcase {ww} [{";".join(evs)}] [{starts}] {res["outcome"]} [{table}] {words}'


def eval_both(ctx, name, defs, terms, check, spec, shard):
    """one coqc per shard evaluating both functions on every case; returns (check results, spec results)"""
    from concurrent.futures import ThreadPoolExecutor
    shards = [terms[i:i + shard] for i in range(0, len(terms), shard)]

    def one(idx_cs):
        idx, cs = idx_cs
        path = ctx.scratch / f'{name}_{idx}.v'
        path.write_text(HEADER + defs + '\nDefinition cases := [\n' + ';\n'.join(cs) + '\n].\n'
                        f'Eval vm_compute in (map ({check}) cases).\nEval vm_compute in (map ({spec}) cases).\n')
        rc, out = fw.coqc_file(path, 1200)
        bs = fw.parse_bools(out) if rc == 0 else []
        if len(bs) != 2 * len(cs):
            return [None] * len(cs), [None] * len(cs), out
        return bs[:len(cs)], bs[len(cs):], ''

    a_all, s_all, errs = [], [], []
    with ThreadPoolExecutor(max_workers=fw.NCPU) as ex:
        for a, s_, err in ex.map(one, list(enumerate(shards))):
            a_all += a
            s_all += s_
            if err:
                errs.append(err)
    if errs:
        ctx.broken_tie(f'coq evaluation of {name}', errs[0])
    return a_all, s_all


BDEFS = ('Definition mkq (A : list Z) (L S : list str) (obs : list (Z * option str)) (wr : list str) (t : table) := '
         'mkbcase t A L S obs wr.\n'
         'Definition chk (p : table * list (table -> bcase)) := forallb (fun q => check_bcase (q (fst p))) (snd p).\n'
         'Definition spc (p : table * list (table -> bcase)) := forallb (fun q => spec_bcase (q (fst p))) (snd p).\n')


def bgroup_term(table, qs):
    t = ';'.join(f'({slit(k)}, {zlit(v)})' for k, v in table)
    items = []
    for q in qs:
        A = '[' + ';'.join(zlit(a) for a in q['A']) + ']'
        L = '[' + ';'.join(slit(s) for s in q['L']) + ']'
        S = '[' + ';'.join(slit(s) for s in q['S']) + ']'
        obs = '[' + ';'.join(f'({zlit(a)}, {"Some " + slit(lb) if lb is not None else "None"})' for a, lb in q['bps']) + ']'
        wr = '[' + ';'.join(slit(s) for s in q['warnings']) + ']'
        items.append(f'mkq {A} {L} {S} {obs} {wr}')
    return f'([{t}], [{";".join(items)}])'


def bcase_term(table, q):
    t = ';'.join(f'({slit(k)}, {zlit(v)})' for k, v in table)
    A = '[' + ';'.join(zlit(a) for a in q['A']) + ']'
    L = '[' + ';'.join(slit(s) for s in q['L']) + ']'
    S = '[' + ';'.join(slit(s) for s in q['S']) + ']'
    obs = '[' + ';'.join(f'({zlit(a)}, {"Some " + slit(lb) if lb is not None else "None"})' for a, lb in q['bps']) + ']'
    wr = '[' + ';'.join(slit(s) for s in q['warnings']) + ']'
    return f'mkbcase [{t}] {A} {L} {S} {obs} {wr}'


# ---- campaign ---------------------------------------------------------------------------------------
WFLIP_RE = re.compile(r'^:wflips:\d+$')


def dup_expected(events):
    """does some name get declared twice (structured names are equal iff their rendered names are: C16_unique_names)"""
    seen = set()
    for e in events:
        n = e[1] if e[0] == 'decl' else ('G', e[1])
        if n in seen:
            return True
        seen.add(n)
    return False


def gen_case(rng, invalid=False):
    """a generated program; invalid=True: one that declares a label twice through some route (must be REJECTED)"""
    for _ in range(200):
        w = rng.choice([8, 16, 16, 16, 32, 32, 32, 64, 64, 64])
        prog = Program(rng, w, invalid=invalid)
        if invalid and prog.route is None:
            continue
        prog.emit()
        if prog.too_big:
            continue
        ex = Expander(prog, prog.top_order)
        if any(len(v) > 1 for v in ex.markers.values()) or any(mk >= (1 << w) for mk in ex.markers):
            continue
        if ex.max_addr >= (1 << (w - 1)):
            continue
        dup = dup_expected(ex.events)
        if invalid and not dup:
            continue        # the mutated place is never expanded: still a valid program, not what is wanted here
        nlab = sum(1 for e in ex.events if e[0] == 'decl')
        return {'kind': 'asm', 'w': w, 'version': rng.choice([0, 1, 2, 3]), 'files': prog.files,
                'events': ex.events, 'starts': ex.starts, 'markers': {str(k): v[0] for k, v in ex.markers.items()},
                'nlabels': nlab, 'depth': max([len(p) for p, _ in ex.starts]),
                'nreps': sum(1 for p, _ in ex.starts if p and p[-1][2] is not None),
                'dup_expected': dup, 'route': prog.route if invalid else ('extern-twice' if dup else None)}
    raise RuntimeError('generator could not produce a fitting program')


def directed_cases():
    """hand-written shapes: duplicates, the segment-label collision in both orders (former findings F17/N2, now a
    "label declared twice" error: kept as regression probes), start labels on shared addresses"""
    out = []

    def mk(w, text, events, starts, tag):
        out.append({'kind': 'asm', 'w': w, 'version': 1, 'files': [['f1', text]], 'events': events, 'starts': starts,
                    'markers': {}, 'nlabels': len(events), 'depth': 0, 'nreps': 0, 'tag': tag,
                    'dup_expected': dup_expected(events), 'route': tag if tag.startswith('dup') else None})
    T = 1 << 15
    mk(16, f'a: {T + 1};\na: {T + 2};\n', [['decl', ('G', 'a'), 0, T + 1], ['decl', ('G', 'a'), 32, T + 2]], [((), 0)], 'dup-global')
    mk(16, f'def m id > e {{\n  e: id+{T};\n}}\nm 1\nm 2\n',
       [['decl', ('G', 'e'), 0, T + 1], ['decl', ('G', 'e'), 32, T + 2]],
       [((), 0), ((('f1', 4, None, 'm', 1),), 0), ((('f1', 5, None, 'm', 1),), 32)], 'dup-extern')
    # duplicates through a macro parameter (the argument is a caller-chosen global name) and their valid controls
    def at(line):
        return (('f1', line, None, 'mark', 1),)
    mk(16, f'def mark lbl {{\n  lbl: {T + 1};\n}}\nmark a\nmark a\n',
       [['decl', ('G', 'a'), 0, T + 1], ['decl', ('G', 'a'), 32, T + 1]], [((), 0), (at(4), 0), (at(5), 32)], 'dup-same-arg-twice')
    mk(16, f'def mark lbl {{\n  lbl:\n}}\nspot: {T + 1};\nmark spot\n',
       [['decl', ('G', 'spot'), 0, T + 1], ['decl', ('G', 'spot'), 32, None]], [((), 0), (at(5), 32)], 'dup-plain-then-param')
    mk(16, f'def mark lbl {{\n  lbl:\n}}\n{T + 1};\nmark spot\nspot: {T + 2};\n',
       [['decl', ('G', 'spot'), 32, T + 2], ['decl', ('G', 'spot'), 32, T + 2]], [((), 0), (at(5), 32)], 'dup-param-then-plain')
    mk(16, f'def mark lbl {{\n  lbl: {T + 1};\n}}\nns a {{\n  x: {T + 2};\n}}\nmark a.x\n',
       [['decl', ('G', 'a.x'), 0, T + 2], ['decl', ('G', 'a.x'), 32, T + 1]], [((), 0), (at(7), 32)], 'dup-namespace')
    mk(16, f'def mark lbl {{\n  lbl: {T + 1};\n}}\nrep(2, i) mark q\n',
       [['decl', ('G', 'q'), 0, T + 1], ['decl', ('G', 'q'), 32, T + 1]],
       [((), 0), ((('f1', 4, 0, 'mark', 1),), 0), ((('f1', 4, 1, 'mark', 1),), 32)], 'dup-rep')
    po = ('f1', 8, None, 'outer', 1)
    mk(16, f'def mark lbl {{\n  lbl: {T + 1};\n}}\ndef outer id @ x {{\n  mark x\n  mark x\n}}\nouter 1\n',
       [['decl', ('L', (po,), 'x'), 0, T + 1], ['decl', ('L', (po,), 'x'), 32, T + 1]],
       [((), 0), ((po,), 0), ((po, ('f1', 5, None, 'mark', 1)), 0), ((po, ('f1', 6, None, 'mark', 1)), 32)], 'dup-local-passed-twice')
    mk(16, f'def mark lbl {{\n  lbl: {T + 1};\n}}\nmark a\nmark b\n',
       [['decl', ('G', 'a'), 0, T + 1], ['decl', ('G', 'b'), 32, T + 1]], [((), 0), (at(4), 0), (at(5), 32)], 'control-distinct-args')
    mk(16, f'def mark lbl {{\n  lbl:\n}}\nspot: {T + 1};\nmark spot2\n',
       [['decl', ('G', 'spot'), 0, T + 1], ['decl', ('G', 'spot2'), 32, None]], [((), 0), (at(5), 32)], 'control-plain-and-param')
    mk(16, f'def m id {{\n  id+{T};\n}}\ndef n id {{\n  m id\n}}\nn 1\nn 2\n', [],
       [((), 0), ((('f1', 7, None, 'n', 1),), 0), ((('f1', 7, None, 'n', 1), ('f1', 5, None, 'm', 1)), 0),
        ((('f1', 8, None, 'n', 1),), 32), ((('f1', 8, None, 'n', 1), ('f1', 5, None, 'm', 1)), 32)], 'nested-starts')
    mk(16, f'ns _ {{\n  wflip_area_start_0: {T + 5};\n}}\n{T + 6};\nsegment 0x1000\n{T + 7};\n',
       [['decl', ('G', '_.wflip_area_start_0'), 0, T + 5], ['silent', '_.wflip_area_start_0', 64]], [((), 0)], 'segment-label-overwrite')
    mk(16, f'{T + 5};\nsegment 0x1000\nns _ {{\n  wflip_area_start_0: {T + 7};\n}}\n',
       [['silent', '_.wflip_area_start_0', 32], ['decl', ('G', '_.wflip_area_start_0'), 4096, T + 7]], [((), 0)], 'segment-label-keyerror')
    return out


META = ['(', ')', '.', '[', ']', '*', '+', '?', '|', '\\', '^', '$', '{', '}']
UNBALANCED = ['(2', '2)', 'm(', '[a', 'a{2', '(?', '*x', '+', '\\', 'a\\', '(|', '|', 'a|b', '^f', 'x$', '.*', 'l.:', '[^:]+', '---.', 'f1:l\\d+']


def name_slices(rng, k):
    """substrings of an actual label name, preferring cuts through its punctuation: '(2)', '.', '---', ':l27:'"""
    out = []
    marks = [i for i, ch in enumerate(k) if ch in '().:-']
    if marks and rng.random() < 0.7:
        m = rng.choice(marks)
        i = max(0, m - rng.randrange(0, 5))
        j = min(len(k), m + 1 + rng.randrange(0, 5))
        out.append(k[i:j])
    else:
        i = rng.randrange(len(k))
        j = rng.randrange(i, len(k)) + 1
        out.append(k[i:j])
    return out


def make_queries(rng, table):
    """queries built from the OBSERVED table: exact names; substrings = literal slices of the actual names (cutting through
    '(n)', '.', '---', ':lN:'), near misses ('.' <-> '_'), every regex metacharacter alone, unbalanced/regex-looking
    strings; misses; addresses.  Containment is LITERAL and resolution never raises."""
    keys = [k for k, _ in table]
    addrs = [v for _, v in table]
    qs = []
    for _ in range(4):
        A = set()
        for _ in range(rng.choice([0, 0, 1, 2, 3])):
            A.add(rng.choice(addrs) if addrs and rng.random() < 0.7 else rng.randrange(1 << 12))
        L = set()
        for _ in range(rng.choice([0, 0, 1, 2, 3])):
            r = rng.random()
            if keys and r < 0.7:
                L.add(rng.choice(keys))
            elif keys and r < 0.85:
                k = rng.choice(keys)
                L.add(k[:-1] if len(k) > 1 else k + 'x')
            else:
                L.add(rng.choice(['nope', 'f1:l1:m---x', '---:start:', '']))
        S = set()
        for _ in range(rng.choice([0, 1, 1, 1, 2, 3])):
            r = rng.random()
            if keys and r < 0.5:
                S.update(name_slices(rng, rng.choice(keys)))
            elif keys and r < 0.6:
                k = rng.choice(keys)                      # a near miss of a real name: '.' <-> '_', '(' -> '_'
                S.add(k.replace('.', '_') if '.' in k and rng.random() < 0.6 else k.replace('_', '.') if '_' in k else k + '_')
            elif r < 0.72:
                S.add(rng.choice(META))
            elif r < 0.82:
                S.add(rng.choice(UNBALANCED))
            elif r < 0.9:
                S.add(rng.choice(['---', ':start:', ':l', 'rep', 'x', '(1)', '(2)', '.g', ':rep0:']))
            elif r < 0.93:
                S.add('')
            else:
                S.add(rng.choice(['zzz', '----', 'start::', 'f9:']))
        qs.append({'A': sorted(A), 'L': sorted(L), 'S': sorted(S)})
    return qs


HOSTILE_KEYS = ['', ' ', '"', '\\', '\\"', '\n', '\t', '\x00', '\x1f', '\x7f', 'é', 'λ---:start:', '😀', '\ud800', 'a' * 5000,
                '{"a": 1}', 'null', '---', ':start:', "it's", ' ', 'f1:l1:m(2)---x']


def gen_roundtrip_tables(rng, n):
    out = []
    for _ in range(n):
        t = {}
        for _ in range(rng.choice([0, 1, 2, 5, 20, 200])):
            r = rng.random()
            if r < 0.3:
                k = rng.choice(HOSTILE_KEYS)
            elif r < 0.6:
                k = ''.join(chr(rng.choice([rng.randrange(32, 127), rng.randrange(0, 0x2FF), rng.randrange(0x10000, 0x10FFF)]))
                            for _ in range(rng.randrange(0, 12)))
            else:
                k = f'f{rng.randrange(3)}:l{rng.randrange(99)}:m{rng.randrange(9)}---x{rng.randrange(99)}'
            v = rng.choice([0, 1, -1, rng.randrange(1 << 16), rng.randrange(1 << 64), (1 << 64) - 1, 1 << 70, -(1 << 70), 1 << 4000])
            t[k] = v
        out.append([[k, v] for k, v in t.items()])
    return out


def run_jobs(ctx, jobs):
    n = len(jobs)
    batch = max(1, (n + fw.NCPU * 2 - 1) // (fw.NCPU * 2))
    chunks = [jobs[i:i + batch] for i in range(0, n, batch)]
    outs = fw.run_workers_parallel(ctx, 'labels', chunks)
    return [r for o in outs for r in o]


def strip_job(c):
    return {'kind': 'asm', 'w': c['w'], 'version': c['version'], 'files': c['files']}


def how():
    return ('PYTHONPATH=$REPO:/verif/harness /venv/bin/python -m fjverif.workers.labels <in.json with [job]> out.json ; '
            'or ./check C16 --replay <this file>')


def evaluate_asm(ctx, cases, results, name='c16'):
    terms, idx = [], []
    for i, (c, r) in enumerate(zip(cases, results)):
        if r['outcome'] == 3:
            ctx.violation({'kind': 'assembler-error', 'error': r['error'].split(':')[0]},
                          f'the assembler rejected a generated program of the supported class: {r["error"][:300]}',
                          {'job': strip_job(c), 'observed': r, 'how': how()})
            continue
        if c.get('dup_expected'):
            ctx.hist('duplicate_route', f'{c.get("route")}:{"rejected" if r["outcome"] == 1 else "outcome" + str(r["outcome"])}')
            if r['outcome'] == 0:
                ctx.violation({'kind': 'duplicate-label-accepted'},
                              f'a program that declares a label twice (route {c.get("route")}) was assembled instead of being rejected '
                              f'with "label declared twice"; the table has one entry for two statements: {r["table"][:10]}',
                              {'job': strip_job(c), 'expected_events': c['events'], 'observed_table': r['table'],
                               'required': 'FlipJumpPreprocessorException "label declared twice" (model: build = BDup)', 'how': how()})
                continue
        tbl = r.get('table', [])
        r['table_nowflips'] = [[k, v] for k, v in tbl if not WFLIP_RE.match(k)]
        # ':wflips:' entries are appended after everything else
        tail = [k for k, _ in tbl][len(r['table_nowflips']):]
        if any(not WFLIP_RE.match(k) for k in tail):
            ctx.violation({'kind': 'wflip-labels-not-last'}, 'a :wflips: label is not at the end of the table',
                          {'job': strip_job(c), 'observed': r, 'how': how()})
        terms.append(lcase_term(c, r))
        idx.append(i)
        ctx.count((c['w'], tuple(map(tuple, c['files']))), c['nlabels'] >= 2)
        ctx.hist('width', c['w'])
        ctx.hist('outcome', r['outcome'])
        ctx.hist('labels', min(c['nlabels'] // 5 * 5, 40))
        ctx.hist('expansion_depth', c['depth'])
        ctx.hist('rep_expansions', min(c['nreps'], 6))
        ctx.hist('start_labels_in_table', min(sum(1 for k, _ in tbl if k.endswith('---:start:')), 8))
        ctx.hist('files', len(c['files']))
    agree, spec = eval_both(ctx, name, '', terms, 'check_lcase', 'spec_lcase', shard=45)
    nrep = 0
    for k, a, s in zip(idx, agree, spec):
        c, r = cases[k], results[k]
        if r['outcome'] != 0:
            # an assembly error: the model has to predict the class; a catch-all error is never acceptable for the property
            if r['outcome'] == 2:
                ctx.violation({'kind': 'label-table-catch-all'},
                              f'assembling a program whose label collides with a segment label raised the catch-all error: {r["error"][:200]}',
                              {'job': strip_job(c), 'observed': r, 'required': 'a label table or a "label declared twice" diagnostic',
                               'how': how()})
            elif a is False:
                ctx.violation({'kind': 'unexpected-duplicate'},
                              f'the assembler reports a duplicate label where every rendered name is distinct: {r["error"][:300]}',
                              {'job': strip_job(c), 'observed': r, 'how': how()})
            continue
        if s is False:
            nrep += 1
            if nrep <= 3:
                rc, mb = fw.coq_eval_term(ctx, f'{name}_d{k}', HEADER, f'model_build ({lcase_term(c, r)})')
                overwritten = any(e[0] == 'silent' and any(d[0] == 'decl' and d[1] == ('G', e[1]) for d in c['events'])
                                  for e in c['events'])
                sig = {'kind': 'segment-label-overwrite'} if overwritten else {'kind': 'label-table-wrong'}
                ctx.violation(sig, 'the loaded label table does not map every declared label to the address of its statement in the '
                              f'image / has unexpected keys / misplaces a start label; observed table {r["table"][:12]}...',
                              {'job': strip_job(c), 'expected_events': c['events'], 'expected_starts': c['starts'],
                               'observed_table': r['table'], 'observed_words': r['words'], 'model_table': mb[-1500:], 'how': how()})
        elif a is False:
            nrep += 1
            if nrep <= 3:
                rc, mb = fw.coq_eval_term(ctx, f'{name}_d{k}', HEADER, f'model_build ({lcase_term(c, r)})')
                ctx.broken_tie('C16 correspondence Model/Labels.v build vs load_debugging_labels',
                               json.dumps({'job': strip_job(c), 'observed_table': r['table'], 'model': mb[-1500:]})[:2900])


def evaluate_queries(ctx, cases, results, name='c16_bp'):
    groups, meta = [], []
    for c, r in zip(cases, results):
        if r['outcome'] != 0 or not r.get('queries'):
            continue
        for q in r['queries']:
            if q.get('exc'):
                ctx.violation({'kind': 'breakpoint-resolution-raised'},
                              f'resolving breakpoints raised {q["exc"]} for the substrings {q["S"]} (containment is literal; any '
                              'characters are allowed)',
                              {'job': strip_job(c) | {'queries': [{'A': q['A'], 'L': q['L'], 'S': q['S']}]}, 'observed': q,
                               'table': r['table'][:40], 'how': how()})
            if q['other_output'] or not q['l2a_equal']:
                ctx.violation({'kind': 'breakpoint-handler-output'}, f'get_breakpoint_handler printed {q["other_output"]} / '
                              'loaded a different table', {'job': strip_job(c), 'query': q, 'how': how()})
            ctx.count(('q', tuple(q['A']), tuple(q['L']), tuple(q['S']), tuple(map(tuple, c['files']))), bool(q['bps']))
            ctx.hist('breakpoints_resolved', min(len(q['bps']), 10))
            ctx.hist('warnings', len(q['warnings']))
        ok_qs = [q for q in r['queries'] if not q.get('exc')]
        if not ok_qs:
            continue
        groups.append(bgroup_term(r['table'], ok_qs))
        meta.append((c, r))
    agree, spec = eval_both(ctx, name, BDEFS, groups, 'chk', 'spc', shard=45)
    # the same queries through the regenerated update_breakpoints_* functions (PyIR.exec in Coq)
    from .. import breakpoints_source
    breakpoints_source.compare(ctx, HEADER + BDEFS, groups, [len([q for q in r['queries'] if not q.get('exc')]) for _, r in meta])
    # isolate the failing query of a failing group
    terms, tmeta = [], []
    for (c, r), a, s in zip(meta, agree, spec):
        if a is False or s is False:
            for q in [q for q in r['queries'] if not q.get('exc')]:
                terms.append(bcase_term(r['table'], q))
                tmeta.append((c, r, q))
    terms, tmeta = terms[:40], tmeta[:40]
    if not terms:
        return
    agree, spec = eval_both(ctx, name + '_iso', '', terms, 'check_bcase', 'spec_bcase', shard=10)
    nrep = 0
    order = sorted(range(len(tmeta)), key=lambda i: (spec[i] is not False, i))      # specification failures first
    for (c, r, q), a, s in [(tmeta[i], agree[i], spec[i]) for i in order]:
        if s is False:
            nrep += 1
            if nrep <= 3:
                ctx.violation({'kind': 'breakpoints-domain'},
                              f'BreakpointHandler.breakpoints {q["bps"][:8]} (warnings {q["warnings"]}) is not exactly addresses + exact labels + labels '
                              f'containing a substring, with a warning exactly for the unknown exact labels, for A={q["A"]} L={q["L"]} S={q["S"]}',
                              {'job': strip_job(c) | {'queries': [{'A': q['A'], 'L': q['L'], 'S': q['S']}]}, 'observed': q,
                               'table': r['table'], 'how': how()})
        elif a is False:
            nrep += 1
            if nrep <= 3:
                rc, mb = fw.coq_eval_term(ctx, f'{name}_d{nrep}', HEADER, f'let c := {bcase_term(r["table"], q)} in '
                                          '(get_breakpoints c.(b_A) c.(b_L) c.(b_S) c.(b_table), bp_warnings c.(b_L) c.(b_table))')
                ctx.broken_tie('C16 correspondence Model/Labels.v get_breakpoints vs BreakpointHandler.breakpoints',
                               json.dumps({'query': q, 'table': r['table'][:40], 'model': mb[-1200:]})[:2900])


def run(ctx):
    # T-gen for the breakpoint part of Model/Labels.v: the update_breakpoints_* functions are re-translated from the current
    # source into the IR of Model/PyIR.v and proved equal to the hand model (Tie/Breakpoints_tie.v, Properties/C16_source.v)
    from .. import breakpoints_source
    src_props, src_targets = breakpoints_source.prepare(ctx)
    fw.static_proofs(ctx, ['Properties/C16.v'] + src_props, extra_targets=src_targets)
    rng = ctx.rng
    cases = (directed_cases() + [gen_case(rng) for _ in range(ctx.n(700, 8000))] +
             [gen_case(rng, invalid=True) for _ in range(ctx.n(160, 2000))])
    res1 = run_jobs(ctx, [strip_job(c) for c in cases])
    # second pass: breakpoint queries are built from the observed tables
    jobs2 = []
    for c, r in zip(cases, res1):
        j = strip_job(c)
        j['queries'] = make_queries(rng, r['table']) if r.get('outcome') == 0 else []
        jobs2.append(j)
    res2 = run_jobs(ctx, jobs2)
    for c, r1, r2 in zip(cases, res1, res2):
        if r1.get('table') != r2.get('table') or r1.get('words') != r2.get('words'):
            ctx.violation({'kind': 'assembly-not-repeatable'}, 'two assemblies of the same sources gave different label tables/images',
                          {'job': strip_job(c), 'how': how()})
    evaluate_asm(ctx, cases, res2)
    evaluate_queries(ctx, cases, res2)
    # save/load round trip on hostile and on generated tables
    tables = gen_roundtrip_tables(rng, ctx.n(300, 3000)) + [r['table'] for r in res2[:ctx.n(100, 1000)] if r.get('outcome') == 0]
    # large tables (JSON above the 8 MiB default LZMA2 dictionary / above 16 MiB), a distinctive block of names at the start
    # recurring at the end, random names in between: built, saved, loaded and queried inside the worker
    big = [{'kind': 'roundtrip_big', 'mib': m, 'seed': rng.randrange(1 << 30)} for m in ctx.n([9], [7.5, 9, 12, 17, 20])]
    rts_all = run_jobs(ctx, big + [{'kind': 'roundtrip', 'tables': tables[i:i + 50]} for i in range(0, len(tables), 50)])
    for j, r in zip(big, rts_all[:len(big)]):
        x = r['results'][0]
        ctx.count(('rt-big', j['mib'], j['seed']), True)
        ok = x.get('equal') and x.get('same_order') and x.get('types_ok') and x.get('bp_ok')
        ctx.hist('roundtrip_big', f'{j["mib"]}MiB:' + ('ok' if ok else 'differs'))
        if not ok:
            ctx.violation({'kind': 'roundtrip', 'size': 'large'},
                          f'a {j["mib"]} MiB label table ({x.get("entries")} labels) does not survive save_debugging_labels/'
                          f'load_debugging_labels or its breakpoints do not resolve: {str(x)[:300]}',
                          {'big_table': j, 'observed': x, 'required': 'the loaded table equals the saved one (content and order); '
                           'breakpoints resolve against it', 'how': 'workers/labels.py job {"kind": "roundtrip_big", "mib", "seed"}; '
                           './check C16 --replay <this file>'})
    rts = rts_all[len(big):]
    flat = [x for r in rts for x in r['results']]
    for t, x in zip(tables, flat):
        ctx.count(('rt', json.dumps(t)[:2000]), len(t) >= 1)
        ctx.hist('roundtrip', 'ok' if x.get('equal') and x.get('same_order') and x.get('types_ok') else 'differs')
        if not (x.get('equal') and x.get('same_order') and x.get('types_ok')):
            ctx.violation({'kind': 'roundtrip'}, f'save_debugging_labels/load_debugging_labels changed the table: {str(x)[:300]}',
                          {'table': t[:100], 'observed': x, 'how': 'workers/labels.py roundtrip job'})
    for c, r in list(zip(cases, res2))[5:8]:
        ctx.sample({'files': c['files'], 'w': c['w'], 'observed_table': r.get('table', [])[:30],
                    'first_query': (r.get('queries') or [None])[0]})
    ctx.coverage['rule'] = (
        'generated programs (1-3 files, namespaces, macros with id/label parameters, @-locals, externs, nested calls to depth 3, '
        'rep 0..3, pad, segment, reserve; w in 8/16/32/64; every op carries a unique flip word so its address is read off the image) '
        'assembled by the real assembler with a debugging file: load_debugging_labels (content and order) vs Model/Labels.v, '
        'specification on the observed table+image; 4 random address/exact/substring breakpoint queries per program through '
        'get_breakpoint_handler vs model and domain specification (substrings: literal slices of the real names cutting through (n) . --- :lN:, '
        'near misses . <-> _, every regex metacharacter, unbalanced strings; resolution must not raise); save/load on hostile and '
        'generated tables and on large tables (9 MiB of JSON quick, up to 20 MiB thorough, text recurring beyond 8 MiB); an INVALID family: '
        'programs declaring a label twice through every route (plain twice / other file, plain + macro parameter in both orders, '
        'two expansions or a rep with the same argument, namespaces, the same name passed down twice inside a macro, extern in a '
        'macro expanded twice) which must be rejected with "label declared twice" (model: BDup); directed shapes with valid '
        'controls (duplicates, segment-label collision in both orders, nested starts). distinct = distinct sources / queries / tables; '
        'non-trivial = >= 2 declared labels / >= 1 resolved breakpoint / non-empty table')
    ctx.assumptions += [
        'json/lzma are external: C16_roundtrip is proved under their round-trip laws (section hypotheses), exercised by the campaign',
        "the independent expander of the harness covers the generated program class only (no wflip statements, no stl)",
        'set iteration order of the breakpoint arguments is taken from the same python process (PYTHONHASHSEED=0)']


def replay(ctx, path):
    blob = json.loads(open(path).read())
    rp = blob['replay']
    if 'big_table' in rp:
        x = run_jobs(ctx, [rp['big_table']])[0]['results'][0]
        print('[C16] replay against', fw.REPO, '- large label table', rp['big_table'])
        print('  observed:', x)
        print('  required: loaded table == saved table (content and order), breakpoints resolve')
        return 0 if x.get('equal') and x.get('same_order') and x.get('types_ok') and x.get('bp_ok') else 1
    if 'job' not in rp:
        print(f'[C16] replay names a theorem/correspondence or a table, not a program: {list(rp)[:4]}')
        print(json.dumps(rp)[:2000])
        return 1
    job = rp['job']
    res = run_jobs(ctx, [job])[0]
    print('[C16] replay against', fw.REPO)
    print('  outcome :', res['outcome'], res.get('error', '')[:300])
    print('  table   :', res.get('table'))
    print('  queries :', res.get('queries'))
    if 'expected_events' in rp:
        print('  required: every declared label at the address of its statement:',
              [(e[1], e[2]) for e in rp['expected_events'] if e[0] == 'decl'][:20])
        want = {}
        bad = False
        tbl = dict(map(tuple, res.get('table', [])))
        for e in rp['expected_events']:
            if e[0] == 'decl' and e[1][0] == 'G' and tbl.get(e[1][1]) != e[2]:
                print(f'  STILL WRONG: {e[1][1]} -> {tbl.get(e[1][1])}, statement at {e[2]}')
                bad = True
        return 1 if bad or res['outcome'] != 0 else 0
    if any(q.get('exc') for q in res.get('queries', [])):
        print('  STILL WRONG: resolving the breakpoints raised')
        return 1
    return 1 if res['outcome'] in (2, 3) else 0
