"""C06: writing then reading an .fjm preserves the memory image in every version.

Static part: Properties/C06.v (universal theorems about the model Model/Fjm.v).
Tie: random writer call sequences run through the REAL Writer/Reader (workers/fjm.py); every observation is
compared with the model evaluated inside Coq (check06) and the spec is evaluated on the real behaviour
(spec06 in Coq, and `judge` below, which also names the defect class for known_findings.json).
"""
import json

from .. import framework as fw

HEADER = 'From FJ Require Import Lib.Base Lib.Bytes Spec.ImageSpec Model.Fjm.\nLocal Open Scope N_scope.\n'
WIDTHS = (8, 16, 32, 64)
U64 = 1 << 64


# ---- Coq literals ----------------------------------------------------------------------------------
def zl(x):
    return f'({int(x)})%Z' if x < 0 else f'{int(x)}%Z'


def zlist(xs):
    return '[' + ';'.join(zl(x) for x in xs) + ']'


def blist(b):
    """byte string as `of_chunks len [32-byte little-endian numbers]` (Lib/Bytes.v)"""
    b = bytes(b)
    if len(b) <= 8:
        return '[' + ';'.join(str(x) for x in b) + ']'
    chunks = [hex(int.from_bytes(b[i:i + 32], 'little')) for i in range(0, len(b), 32)]
    return f'(of_chunks {len(b)} [{";".join(chunks)}])'


def memlit(pairs):
    """sorted (address, value) pairs as `expand_mem [(start, values, zeros-that-follow)]` (Model/Fjm.v glue)"""
    runs = []
    i, n = 0, len(pairs)
    while i < n:
        start = pairs[i][0]
        vals = []
        j = i
        nz = 0
        while j < n and pairs[j][0] == start + (j - i):
            if pairs[j][1] == 0:
                k = j
                while k < n and pairs[k][0] == start + (k - i) and pairs[k][1] == 0:
                    k += 1
                if k - j >= 6:
                    nz = k - j
                    j = k
                    break
            vals.append(pairs[j][1])
            j += 1
        runs.append(f'({start},{fw.nlist(vals)},{nz})')
        i = j
    return f'(expand_mem [{";".join(runs)}])'


def triples(ts):
    return '[' + ';'.join(f'({a},{b},{c})' for a, b, c in ts) + ']'


def quads(ts):
    return '[' + ';'.join(f'({a},{b},{c},{d})' for a, b, c, d in ts) + ']'


def op_term(op):
    if op[0] == 'd':
        return f'AddData {zlist(op[1])}'
    return 'AddSeg ' + ' '.join(zl(x) for x in op[1:5])


def coq_case06(c, o):
    rd = o['read']
    img = rd['cls'] == 0
    lz = 'None'
    if o.get('lz'):
        lz = f'(Some ({blist(bytes.fromhex(o["lz"][0]))}, {blist(bytes.fromhex(o["lz"][1]))}))'
    opres = '[' + ';'.join(f'({a},{zl(b)})' for a, b in o['opres']) + ']'
    return (f'mk06 {zl(c["w"])} {zl(c["ver"])} {zl(c["flags"])} {zl(c["preset"])} '
            f'[{"; ".join(op_term(op) for op in c["ops"])}] {"true" if o["ctor"] else "false"} {opres} {o["write"]} '
            f'{blist(bytes.fromhex(o["file"]))} {lz} {rd["cls"]} '
            f'{fw.npairs(rd["segs"]) if img else "[]"} {memlit(rd["mem"]) if img else "[]"} '
            f'{fw.npairs(rd["zeros"]) if img else "[]"} {triples(rd["probes"]) if img else "[]"}')


# ---- generator -------------------------------------------------------------------------------------
def rand_word(rng, w, near=None):
    r = rng.random()
    if r < 0.15:
        return 0
    if r < 0.25:
        return (1 << w) - 1
    if r < 0.35 and near is not None:
        return (near + rng.randrange(-3, 4)) % (1 << w)        # close to the re-basing value: relative value wraps
    if r < 0.5:
        return rng.randrange(min(1 << w, 256))
    return rng.randrange(1 << w)


def seg_start_candidates(rng, w):
    ww = w.bit_length() - 1
    space = 1 << (w - ww)                      # words addressable with w-bit bit-addresses
    c = [0, 0, 2 * rng.randrange(0, 8), 2 * rng.randrange(0, 64)]
    if w >= 16:
        c += [(1 << 14) * rng.randrange(1, 4) + 2 * rng.randrange(-4, 5), 2 * rng.randrange(0, space // 2)]
    if w == 32:
        c += [space - 2 * rng.randrange(1, 2000), (1 << 20) + 2 * rng.randrange(0, 100)]
    if w == 64:
        c += [(1 << rng.randrange(40, 58)) + 2 * rng.randrange(0, 1000), space - 2 * rng.randrange(1, 3000),
              (1 << 63) + 2 * rng.randrange(0, 1 << 20), U64 - 2 * rng.randrange(1, 1200)]
    if rng.random() < 0.04:
        c = [(1 << 40) + 2 * rng.randrange(0, 50)]      # beyond the w-bit address space at small widths
    return c


def tail_choice(rng, w):
    r = rng.random()
    if r < 0.35:
        return 0
    if r < 0.6:
        return 2 * rng.randrange(1, 12)
    if r < 0.80:
        return rng.choice([996, 998, 1000, 1002, 1004])
    if r < 0.9:
        return 2 * rng.randrange(500, 3000)
    return 2 * rng.randrange(1 << 10, 1 << 30) if w >= 32 else 2 * rng.randrange(1 << 10, 1 << 12)


def gen_case(rng, allow_bad=True):
    """one writer call sequence.  returns the case dict (+ 'tags')"""
    w = rng.choice(WIDTHS)
    ver = rng.choice((0, 1, 2, 2, 3, 3))
    flags = 0 if ver == 0 else rng.choice((0, 0, 1, rng.randrange(U64), U64 - 1))
    preset = rng.randrange(10)
    tags = set()
    if allow_bad and rng.random() < 0.02:
        which = rng.randrange(5)
        if which == 0:
            w = rng.choice((0, 7, 9, 24, 128))
        elif which == 1:
            flags = rng.choice((-1, U64))
        elif which == 2:
            ver, flags = 0, 1
        elif which == 3:
            ver, preset = 3, rng.choice((-1, 10, 17))
        else:
            ver, preset = rng.choice((0, 1, 2)), rng.choice((-1, 10))    # preset ignored below version 3
        tags.add('ctor-args')
    wordw = w if w in WIDTHS else 8
    nseg = rng.choice((0, 1, 1, 2, 2, 3, 4, 6))
    mode = rng.choice(('interleaved', 'interleaved', 'pool-first'))
    bad = (lambda p: allow_bad and rng.random() < p)
    ops = []
    pool_len = 0
    declared = []
    plan = []
    for _ in range(nseg):
        start = rng.choice(seg_start_candidates(rng, wordw))
        dl = 2 * rng.choice((0, 1, 1, 2, 3, 5, 8, 13, 20))
        if rng.random() < 0.03:
            dl = 2 * rng.randrange(40, 200)
        tail = tail_choice(rng, wordw)
        if dl == 0 and tail == 0:
            tail = 2
        plan.append([start, dl, tail])
    if mode == 'pool-first':
        total = sum(p[1] for p in plan) + rng.choice((0, 0, 1, 2, 5))
        words = [rand_word(rng, wordw) for _ in range(total)]
        if bad(0.04) and words:
            words[rng.randrange(len(words))] = rng.choice(((1 << wordw), (1 << wordw) + 44, -1, -(1 << wordw), 1 << 70))
            tags.add('bad-word')
        # sometimes in several add_data calls
        cut = rng.randrange(len(words) + 1)
        for chunk in ((words[:cut], words[cut:]) if rng.random() < 0.5 else (words,)):
            ops.append(['d', chunk])
        pool_len = total
        for start, dl, tail in plan:
            r = rng.random()
            if pool_len >= dl:
                if r < 0.5:
                    ds = rng.randrange(pool_len - dl + 1)                 # any offset (odd too), ranges may be shared
                else:
                    ds = 2 * rng.randrange((pool_len - dl) // 2 + 1)
            else:
                ds = 0
            ops.append(['s', start, dl + tail, ds, dl])
    else:
        for start, dl, tail in plan:
            near = (start + 1) * wordw
            words = [rand_word(rng, wordw, near) for _ in range(dl)]
            if bad(0.03) and words:
                words[rng.randrange(len(words))] = rng.choice(((1 << wordw), (1 << wordw) + 44, -1, 1 << 70))
                tags.add('bad-word')
            if rng.random() < 0.1:
                ops.append(['d', [rand_word(rng, wordw) for _ in range(rng.randrange(1, 4))]])   # unreferenced / odd offsets
                pool_len += len(ops[-1][1])
            ops.append(['d', words])
            ops.append(['s', start, dl + tail, pool_len, dl])
            pool_len += dl
    # perturbations: calls the writer must refuse, and calls outside what the format can represent
    i = 0
    while i < len(ops):
        op = ops[i]
        if op[0] == 's':
            if bad(0.03):       # F3: odd data length (segment length stays even)
                if op[4] >= 1:
                    op[4] -= 1
                    tags.add('odd-data-length')
            elif bad(0.025):    # F5: data range beyond the pool
                op[4] += 2 * rng.randrange(1, 4)
                op[2] = max(op[2], op[4])
                op[3] = max(0, pool_len - rng.randrange(0, 3))
                tags.add('range-beyond-pool')
            elif bad(0.02):     # F5: fields outside u64
                k = rng.randrange(4)
                if k == 0:
                    op[1] = rng.choice((U64, U64 + 2, -2, -(1 << 40)))
                elif k == 1:
                    op[2] = U64 + 2 * rng.randrange(0, 3)
                elif k == 2:
                    op[3] = rng.choice((-1, -2, -pool_len - 3))
                else:
                    op[4] = rng.choice((-2, -1, -4))
                tags.add('field-out-of-u64')
            elif bad(0.04):     # refused by the writer's own checks
                k = rng.randrange(5)
                if k == 0:
                    op[1] += 1
                elif k == 1:
                    op[2] += 1
                elif k == 2:
                    op[2] = rng.choice((0, -2))
                elif k == 3:
                    op[2] = max(0, op[4] - 2)
                else:
                    ops.insert(i + 1, ['s', op[1] + rng.choice((0, 2, op[2] - 2, -2)), rng.choice((2, 4, op[2] + 4)),
                                       op[3], op[4]])
                tags.add('refused-call')
        i += 1
    if rng.random() < 0.1 and ops:
        ops.append(['d', [rand_word(rng, wordw) for _ in range(rng.randrange(0, 5))]])
    # probes: around every declared segment (bit addresses), aligned and unaligned
    probes = []
    for op in ops:
        if op[0] == 's' and op[1] >= 0:
            s, l, dl = op[1], op[2], max(op[4], 0)
            for a in (s, s + 1, s + dl - 1, s + dl, s + l - 1, s + l, s - 1, s + dl + 997, s + dl + 1000):
                if a >= 0 and rng.random() < 0.5:
                    probes.append(a * wordw)
                    if rng.random() < 0.3:
                        probes.append(a * wordw + rng.randrange(1, wordw))
    probes = probes[:24] + [rng.randrange(1 << wordw)] * (rng.random() < 0.3)
    return {'w': w, 'ver': ver, 'flags': flags, 'preset': preset, 'ops': ops, 'probes': probes, 'tags': sorted(tags)}


# ---- the spec on the observed behaviour (python side: also names the defect class) -------------------
def domain_cause(c, o, upto=None):
    """first reason why an executed call is outside what the format can represent (None = all inside)"""
    w = c['w']
    pool = 0
    for idx, op in enumerate(c['ops']):
        res = o['opres'][idx] if idx < len(o['opres']) else None
        if res is None:
            break
        executed_ok = res[0] == 0
        raised = res[0] >= 2
        if not (executed_ok or raised):
            continue
        if op[0] == 'd':
            if any(not (0 <= x < (1 << w)) for x in op[1]):
                return 'word-out-of-range'
            pool += len(op[1])
        else:
            _, s, l, ds, dl = op
            if s < 0 or s >= U64 or l >= U64 or ds < 0 or dl < 0:
                return 'field-out-of-u64'
            if ds + dl > pool:
                return 'data-range-beyond-pool'
            if dl % 2:
                return 'odd-data-length'
    return None


def logical_image(c, o):
    """declared segments with their words, from the calls and which of them were accepted; None = meaningless"""
    pool = []
    L = []
    for op, res in zip(c['ops'], o['opres']):
        if res[0] != 0:
            continue
        if op[0] == 'd':
            if any(x < 0 for x in op[1]):
                return None
            pool += op[1]
        else:
            _, s, l, ds, dl = op
            if s < 0 or l < 0 or ds < 0 or dl < 0 or ds + dl > len(pool):
                return None
            L.append((s, l, pool[ds:ds + dl]))
    return L


def image_differs(L, rd):
    if rd['segs'] != [[s, l] for s, l, _ in L]:
        return 'segments'
    want = {}
    zeros = []
    mem = {a: v for a, v in rd['mem']}
    for s, l, ws in L:
        for i, v in enumerate(ws):
            want[s + i] = v
        zeros.append((s + len(ws), s + l))
    for a, v in want.items():
        if mem.get(a) != v:
            return 'words'
    covered = 0
    for a, v in mem.items():
        if a in want:
            continue
        if v != 0 or not any(lo <= a < hi for lo, hi in zeros):
            return 'words'
        covered += 1
    for lo, hi in rd['zeros']:
        if not lo < hi or not any(zl_ <= lo and hi <= zh for zl_, zh in zeros):
            return 'zero-ranges'
        if any(lo <= a < hi for a in mem):
            return 'zero-ranges'
        covered += hi - lo
    if covered != sum(hi - lo for lo, hi in zeros):
        return 'zero-tail-coverage'
    for ba, kind, v in rd['probes']:
        w = rd['w']
        if ba % w == 0 and ba // w < (1 << w):
            a = ba // w
            exp = None
            for s, l, ws in L:
                if s <= a < s + l:
                    exp = ws[a - s] if a - s < len(ws) else 0
            if (exp is None and kind != 1) or (exp is not None and (kind != 0 or v != exp)):
                return 'get_word'
    return None


def judge(c, o):
    """returns None (spec holds on the observed behaviour) or (signature, text)"""
    if not o['ctor']:
        if 'ctor_exc' in o:
            return {'kind': 'writer-raw-exception', 'exc': o['ctor_exc'], 'where': 'Writer.__init__'}, \
                f'Writer() raised {o["ctor_exc"]}'
        return None
    if 'raw_exc' in o:
        cause = domain_cause(c, o) or 'in-domain'
        return ({'kind': 'writer-raw-exception', 'exc': o['raw_exc'], 'cause': cause},
                f'{o["raw_where"]} raised {o["raw_exc"]} instead of FlipJumpWriteFjmException (cause: {cause}; '
                f'{len(bytes.fromhex(o["file"]))} bytes left on disk)')
    if o['write'] != 0:
        return None
    cause = domain_cause(c, o)
    L = logical_image(c, o)
    rd = o['read']
    if L is None:
        return ({'kind': f'writer-accepts-{cause}'}, f'the writer accepted and wrote an input with no meaning ({cause})')
    if rd['cls'] != 0:
        what = f'reader refuses the written file ({rd.get("msg") or rd.get("exc")})'
        diff = 'reader-rejects' if rd['cls'] == 1 else 'reader-raw-exception'
    else:
        diff = image_differs(L, rd)
        what = f'the image read back differs from the declared one ({diff})'
    if diff is None:
        return None
    if cause:
        return {'kind': f'writer-accepts-{cause}'}, f'the writer accepted an unrepresentable input ({cause}) and {what}'
    return {'kind': 'roundtrip-differs', 'sub': diff, 'ver': c['ver']}, f'representable input, but {what}'


# ---- assembled programs in all four versions ---------------------------------------------------------
def gen_program(rng, w):
    """a small stl-free program: ops with label/number operands, wflips, pads, extra segments, reserves"""
    dw = 2 * w
    space_ops = (1 << w) // dw                     # number of op slots in the address space
    nlab = rng.randrange(2, 7)
    labs = [f'L{i}' for i in range(nlab)]
    lines = ['  ;' + rng.choice(labs)]
    budget = min(12, max(2, space_ops // 4))
    for lab in labs:
        lines.append(f'{lab}:')
        for _ in range(rng.randrange(1, 3)):
            if budget <= 0:
                break
            budget -= 1
            r = rng.random()
            a = rng.choice(labs + [str(rng.randrange(0, min(1 << w, 1 << 12)))])
            b = rng.choice(labs)
            if r < 0.55:
                lines.append(f'  {a}+{rng.randrange(0, w)};{b}')
            elif r < 0.75 and w >= 16:
                lines.append(f'  wflip {rng.choice(labs)}+{w}, {rng.randrange(0, min(1 << w, 1 << 10))}, {b}')
            elif r < 0.85:
                lines.append(f'  pad {rng.choice((1, 2, 4))}')
            else:
                lines.append(f'  ;{b}')
    if w >= 16 and rng.random() < 0.7:
        base = rng.choice((64, 256, 1 << (w - 8))) if w > 16 else rng.choice((64, 128))
        lines.append(f'  segment {base * dw}')
        lines.append(f'X0:\n  ;X0')
        if rng.random() < 0.7:
            lines.append(f'  reserve {rng.choice((1, 3, 499, 500, 501, 2000)) * dw}')
    return '\n'.join(lines) + '\n'


def asm_campaign(ctx):
    """the assembler's output in versions 0..3 must load as the same image; the model reads the files alike"""
    rng = ctx.rng
    cases = []
    for _ in range(ctx.n(30, 400)):
        w = rng.choice((8, 16, 16, 32, 64))
        cases.append({'w': w, 'src': gen_program(rng, w), 'stl': False})
    for rel in ('programs/print_tests/hello_world.fj', 'programs/print_tests/hello_no-stl.fj')[:ctx.n(2, 2)]:
        pth = fw.REPO / rel
        if pth.exists():
            cases.append({'w': 64, 'src': '', 'path': str(pth), 'stl': 'no-stl' not in rel})
    n = len(cases)
    batch = max(1, (n + fw.NCPU - 1) // fw.NCPU)
    outs = fw.run_workers_parallel(ctx, 'fjm', [{'mode': 'asm', 'cases': cases[i:i + batch]} for i in range(0, n, batch)])
    outs = [o for out in outs for o in out]
    from . import c10
    terms, owners = [], []
    for c, vs in zip(cases, outs):
        errs = [v.get('asm_error') for v in vs]
        ctx.hist('assembled_programs', 'refused' if all(errs) else 'assembled')
        if any(errs):
            if not all(errs) or any(e.startswith('RAW') for e in errs if e):
                ctx.violation({'kind': 'assembly-differs-by-version'}, f'C06: assembling the same source gives {errs} in versions 0..3',
                              {'case': c, 'observed': errs, 'required': 'the same outcome in every version'})
            continue
        imgs = [(v['read'].get('segs'), v['read'].get('mem'), v['read'].get('zeros'), v['read']['cls']) for v in vs]
        ctx.count(json.dumps([c['w'], c['src'], c.get('path')]), imgs[0][3] == 0 and len(imgs[0][0]) >= 1)
        if any(i != imgs[0] for i in imgs) or imgs[0][3] != 0:
            ctx.violation({'kind': 'assembled-image-differs-by-version'},
                          f'C06: the same source (w={c["w"]}) loads as different images in versions 0..3 '
                          f'(reader classes {[i[3] for i in imgs]})',
                          {'case': c, 'observed': [{k: v[k] for k in v if k not in ("file", "lz")} for v in vs],
                           'required': 'the loaded image does not depend on the version'})
        for ver, v in enumerate(vs):
            big = len(v['file']) > 40000 and ver != 3
            if big:
                continue        # the stl programs are compared across versions above; only v3 (small) goes through Coq
            x = {'expr': blist(bytes.fromhex(v['file'])), 'kind': 'assembled'}
            terms.append(c10.coq_case10(x, v))
            owners.append((c, ver, v))
    codes = eval_codes(ctx, 'c06asm', HEADER, terms, 'code10', shard=max(10, len(terms) // (fw.NCPU * 2) + 1))
    for code, (c, ver, v) in zip(codes, owners):
        if code is not None and not code & 1:
            ctx.broken_tie('C06 correspondence on assembled files (Model/Fjm.v read vs Reader)',
                           json.dumps({'case': c, 'version': ver, 'observed': {k: v[k] for k in v if k not in ('file', 'lz')}})[:4000])
    ctx.coverage['assembled_files_through_model'] = len(terms)


# ---- large-window family (python side only: pools of millions of words do not go through Coq) ------------
MIB = 1 << 20


def large_window(ctx):
    """version 3: the same pseudo-random block (>= 5 MiB, and >= 9 MiB at preset 9) is the data of two segments, so the
    compressor emits a match farther back than small decoder dictionaries reach; the round trip must still hold"""
    rng = ctx.rng
    presets = (6,) if ctx.quick() else tuple(p for p in range(10) if p != 9)
    cases = [{'w': 64, 'preset': p, 'block_bytes': 5 * MIB + 8 * rng.randrange(0, 4096)} for p in presets]
    cases.append({'w': 64, 'preset': 9, 'block_bytes': 9 * MIB + 8 * rng.randrange(0, 4096)})
    cases += [{'w': 32, 'preset': p, 'block_bytes': 5 * MIB + 8 * rng.randrange(0, 4096)} for p in ((6,) if ctx.quick() else (6, 9))]
    if not ctx.quick():
        cases.append({'w': 64, 'preset': 9, 'block_bytes': 5 * MIB})
    for c in cases:
        c['seed'] = rng.getrandbits(64)
        c['second_start'] = (1 << 40) if c['w'] == 64 else (1 << 26)
    outs = fw.run_workers_parallel(ctx, 'fjm', [{'mode': 'large', 'cases': [c]} for c in cases])
    for c, (o,) in zip(cases, outs):
        n = o['words']
        ctx.count(('large-window', c['w'], c['preset'], c['seed'], c['block_bytes']), True)
        ctx.hist('large_window', f'w{c["w"]}-preset{c["preset"]}-{c["block_bytes"] // MIB}MiB:' +
                 ('write-failed' if o['write'] else ('image', 'read-error', 'other')[o['cls']]))
        replay = {'large_window_case': c, 'observed': o, 'required': 'the written file is read back with both segments holding '
                  'exactly the block', 'how': './check C06 --replay <this file>'}
        if o['write'] != 0:
            ctx.violation({'kind': 'writer-refuses-representable-input' if o['write'] == 1 else 'writer-raw-exception',
                           'family': 'large-window', 'preset': c['preset']},
                          f'C06 large-window w={c["w"]} preset={c["preset"]}: the writer failed on a representable input: {o.get("exc")}', replay)
        elif o['cls'] != 0:
            ctx.violation({'kind': 'reader-refuses-writer-output', 'family': 'large-window', 'preset': c['preset']},
                          f'C06 large-window w={c["w"]} preset={c["preset"]} block={c["block_bytes"]} bytes x2: the Reader refuses the '
                          f'file the Writer produced ({o.get("msg")})', replay)
        elif o['segs'] != [[0, n], [c['second_start'], n]] or o['zeros'] or not o['words_equal']:
            ctx.violation({'kind': 'roundtrip-differs', 'family': 'large-window'},
                          f'C06 large-window w={c["w"]} preset={c["preset"]}: the image read back differs from the declared one', replay)
    ctx.sample({'large_window_case': cases[0], 'observed': outs[0][0]})
    return cases, outs


# ---- campaign --------------------------------------------------------------------------------------
def run_cases(ctx, cases):
    n = len(cases)
    batch = max(1, (n + fw.NCPU * 2 - 1) // (fw.NCPU * 2))
    chunks = [{'mode': 'c06', 'cases': cases[i:i + batch]} for i in range(0, n, batch)]
    outs = fw.run_workers_parallel(ctx, 'fjm', chunks)
    return [o for out in outs for o in out]


def tie_constants(ctx, pr):
    rc, out = fw.coq_eval_term(ctx, 'fjm_consts', HEADER, 'fjm_consts')
    import re
    nums = [int(x) for x in re.findall(r'\d+', out.split('=')[-1].split(':')[0])] if rc == 0 else None
    ok = (nums == pr['consts'] and pr['formats'] == ['<HHQQ', '<QL', '<QQQQ'] and pr['widths'] == [8, 16, 32, 64]
          and pr['versions'] == [0, 1, 2, 3])
    if not ok:
        ctx.broken_tie('fjm constants', f'model {nums} vs source {pr}')
    return ok


WITNESS_SIG = {'F3_odd_data_length': {'kind': 'writer-accepts-odd-data-length'},
               'F4_word_out_of_range': {'kind': 'writer-accepts-word-out-of-range'},
               'F5_range_or_field': {'kind': 'writer-accepts-data-range-beyond-pool'},
               'F6_inconsistent_table': {'kind': 'reader-accepts-inconsistent-table'}}


def probe_tree(ctx):
    """constants of the tree under test + the four fixed-defect witnesses (F3-F6): each must be refused"""
    pr = fw.run_worker(ctx, 'fjm', {'mode': 'probe'})
    ctx.coverage['fixed_defect_witnesses_refused'] = pr['witnesses']
    for name, ok in pr['witnesses'].items():
        if not ok:
            ctx.violation(dict(WITNESS_SIG[name], witness=True),
                          f'{ctx.prop}: the witness of the fixed defect {name} is accepted again (see workers/fjm.py probe())',
                          {'witness': name, 'detail': pr['partial'], 'how': f'./check {ctx.prop}'})
    return pr


def run(ctx):
    # T-gen for the writer part of Model/Fjm.v: Writer.add_data / add_segment (+ helpers) are re-translated from the current
    # source into the IR of Model/PyIR.v and proved equal to the hand model (Tie/Writer_tie.v, Properties/C06_source.v)
    from .. import writer_source
    src_props, src_targets = writer_source.prepare(ctx)
    fw.static_proofs(ctx, ['Properties/C06.v'] + src_props, extra_targets=src_targets)
    pr = probe_tree(ctx)
    tie_constants(ctx, pr)
    cases = [gen_case(ctx.rng) for _ in range(ctx.n(1500, 30000))]
    obs = run_cases(ctx, cases)
    terms = []
    for c, o in zip(cases, obs):
        nontrivial = o['ctor'] and o['write'] == 0 and o['read']['cls'] == 0 and len(o['read']['segs']) >= 1
        ctx.count(json.dumps([c['w'], c['ver'], c['flags'], c['ops']]), nontrivial)
        ctx.hist('version', c['ver'])
        ctx.hist('width', c['w'])
        ctx.hist('outcome', 'ctor-refused' if not o['ctor'] else o.get('raw_exc') and f'raw:{o["raw_exc"]}' or
                 ('write-lib' if o['write'] == 1 else {0: 'image', 1: 'read-error', 2: 'read-raw'}[o['read']['cls']]))
        for t in c['tags']:
            ctx.hist('generator_tags', t)
        if o['read']['cls'] == 0:
            ctx.hist('zero_ranges', min(len(o['read']['zeros']), 3))
            for (s, l), op in zip(o['read']['segs'], [op for op, r in zip(c['ops'], o['opres']) if op[0] == 's' and r[0] == 0]):
                t = l - op[4]
                ctx.hist('tail', '0' if t == 0 else '<998' if t < 998 else str(t) if t <= 1002 else '>1002')
                ctx.hist('segment_start', 'low' if s < (1 << 20) else '2^20..2^40' if s < (1 << 40) else '2^40..2^58' if s < (1 << 58) else '>=2^58')
        v = judge(c, o)
        if v:
            sig, what = v
            ctx.violation(sig, f'C06 w={c["w"]} v{c["ver"]}: {what}',
                          {'case': c, 'observed': {k: o[k] for k in o if k not in ('file', 'lz')}, 'required':
                           'a call sequence is either refused with FlipJumpWriteFjmException or written to a file that '
                           'the Reader loads as exactly the declared image',
                           'how': './check C06 --replay <this file>'})
        terms.append(coq_case06(c, o))
    for c, o in list(zip(cases, obs))[:4]:
        ctx.sample({'case': {k: c[k] for k in ('w', 'ver', 'flags', 'preset', 'ops')},
                    'observed': {'opres': o['opres'], 'write': o['write'], 'read_class': o['read']['cls'],
                                 'segs': o['read'].get('segs'), 'zeros': o['read'].get('zeros')}})
    compare(ctx, 'c06', cases, obs, terms)
    writer_source.compare(ctx, HEADER, terms)     # the regenerated methods (PyIR.exec in Coq) against the same observations
    asm_campaign(ctx)
    large_window(ctx)
    ctx.coverage['rule'] = ('random Writer call sequences (interleaved or pool-first with shared/odd-offset data ranges, data '
                            'shorter than the segment, zero tails 996..1004 and lazy, starts near 2^14 multiples and at '
                            '2^40..2^64, re-basing wrap-around, refused calls, unrepresentable calls) x w in {8,16,32,64} x '
                            'versions 0..3 x lzma presets 0..9; plus generated stl-free programs and two repository programs assembled '
                            'by the real assembler in versions 0..3 (images compared across versions, files read by the model); plus the '
                            'large-window family (version 3, one >= 5 MiB / >= 9 MiB pseudo-random block as the data of two segments, '
                            'real Writer + Reader, spec evaluated in python only); '
                            'distinct = distinct (w, version, flags, calls) or (w, source); '
                            'non-trivial = written, read back as an image with >= 1 segment')
    ctx.assumptions += ['liblzma is an oracle: the model is given the real codec\'s answers (compress on the packed pool, '
                        'decompress on the payload); theorems assume decompress(compress x) = x',
                        'that liblzma premise is additionally exercised on the real code with match distances above every '
                        "preset's dictionary size that a smaller decoder window would miss (large-window family: repeats at "
                        '>= 5 MiB, and >= 9 MiB at preset 9; all presets in the thorough tier)',
                        'Z.of_nat(len(pool)), len(segments) < 2^64 (fits_u64) is a hypothesis of the theorems']


def eval_codes(ctx, name, header, terms, expr, shard):
    """like fw.coq_eval_shards, for a Coq function case -> N; returns a list of int (None = shard did not compile)"""
    import re
    from concurrent.futures import ThreadPoolExecutor
    shards = [terms[i:i + shard] for i in range(0, len(terms), shard)]

    def one(idx_cs):
        idx, cs = idx_cs
        path = ctx.scratch / f'{name}_{idx}.v'
        path.write_text(header + '\nDefinition cases := [\n' + ';\n'.join(cs) + '\n].\n' +
                        f'Eval vm_compute in (map ({expr}) cases).\n')
        rc, out = fw.coqc_file(path, 900)
        m = re.search(r'=\s*\[([^\]]*)\]\s*:\s*list N', out)
        if rc != 0 or not m:
            return [None] * len(cs), out
        vals = [int(x) for x in re.findall(r'\d+', m.group(1))]
        if len(vals) != len(cs):
            return [None] * len(cs), out
        return vals, ''

    res, errs = [], []
    with ThreadPoolExecutor(max_workers=fw.NCPU) as ex:
        for vals, err in ex.map(one, list(enumerate(shards))):
            res += vals
            if err:
                errs.append(err)
    if errs:
        ctx.broken_tie(f'coq evaluation of {name}', errs[0])
    return res


def compare(ctx, name, cases, obs, terms):
    codes = eval_codes(ctx, name, HEADER, terms, 'code06', shard=max(40, len(terms) // (fw.NCPU * 3) + 1))
    oks = [None if x is None else bool(x & 1) for x in codes]
    specs = [None if x is None else bool(x & 2) for x in codes]
    for k, (ok, sp) in enumerate(zip(oks, specs)):
        c, o = cases[k], obs[k]
        pj = judge(c, o)
        if sp is not None and sp != (pj is None):
            ctx.broken_tie('spec06 (Coq) vs judge (python) disagree', json.dumps({'case': c, 'coq_spec': sp, 'python': str(pj)})[:2500])
        if ok is None or ok:
            continue
        # model and implementation differ: triage with the spec
        rc, model = fw.coq_eval_term(ctx, f'{name}_diag{k}', HEADER,
                                     f'let c := {terms[k]} in (exec (mkcfg (k_w c) (k_ver c) (k_flags c) (k_preset c)) '
                                     f'(k_ops c) ws_empty)')
        if pj is not None:
            continue      # already reported as a violation of the spec with its own signature
        ctx.broken_tie('C06 correspondence (model Model/Fjm.v vs fjm_writer/fjm_reader)',
                       json.dumps({'case': c, 'observed': {k2: o[k2] for k2 in o if k2 not in ('file', 'lz')},
                                   'model_exec': model[-1500:]}, default=str)[:6000])


def replay(ctx, path):
    blob = json.loads(open(path).read())
    rp = blob['replay']
    if 'large_window_case' in rp:
        c = rp['large_window_case']
        o = fw.run_worker(ctx, 'fjm', {'mode': 'large', 'cases': [c]})[0]
        ok = o['write'] == 0 and o['cls'] == 0 and o.get('words_equal') and not o['zeros']
        print(f'[C06] replay of {path}: large-window w={c["w"]} preset={c["preset"]} block={c["block_bytes"]} bytes in two segments')
        print(f'  observed: {o}')
        print('  required: written, and read back with both segments holding exactly the block')
        print('  the spec holds on this input now' if ok else '  VIOLATION reproduced')
        return 0 if ok else 1
    if 'case' not in rp:
        print(f'[C06] replay: {blob["what"]}\n{json.dumps(rp)[:3000]}')
        return 1
    c = rp['case']
    o = run_cases(ctx, [c])[0]
    v = judge(c, o)
    print(f'[C06] replay of {path}')
    print(f'  calls: w={c["w"]} version={c["ver"]} flags={c["flags"]} ops={json.dumps(c["ops"])[:1500]}')
    print(f'  observed: per-call {o["opres"]} write={o["write"]} exception={o.get("raw_exc")} reader={o["read"].get("cls")} '
          f'{o["read"].get("msg", "")}')
    print('  required: refused with FlipJumpWriteFjmException, or written and read back as exactly the declared image')
    if v:
        print(f'  VIOLATION reproduced: {v[1]}  signature={v[0]}')
        return 1
    print('  the spec holds on this input now')
    return 0
