"""C14: every assembly failure is a specific library diagnostic.

1. static part: coq/Properties/C14.v (theorems over the pipeline model coq/Model/AsmErrors.v).
2. campaign: grammar-derived invalid programs (badProgGen, one generator per error class) and token/byte mutations of
   valid programs, at every width and version, with and without the stl, run through the REAL `flipjump.assemble`
   (workers/asmfail.py, one forked child per case under a wall-clock and address-space watchdog).
3. the spec is evaluated on every observation:  success, or a specific library assembly exception (not the catch-all, not a
   raw Python exception, not a hang), whose message names the construct, and no loadable output file left behind.
4. where the program parses (or the generator knows the un-folded tree) the Coq model's verdict is compared with the real one.
"""
import json
import re
import sys
import time
from concurrent.futures import ThreadPoolExecutor

from .. import badProgGen as bg
from .. import dump_tree as dt
from .. import progGen as pg
from .. import framework as fw

ASM_EXCEPTIONS = {'FlipJumpParsingException', 'FlipJumpPreprocessorException', 'FlipJumpExprException',
                  'FlipJumpAssemblerException', 'FlipJumpWriteFjmException'}
REQUIRED = ('success, or one of ' + ', '.join(sorted(ASM_EXCEPTIONS)) + ' (not the "Unknown exception ... please report this '
            'bug" catch-all, not a raw Python exception, no hang) whose message names the offending construct; no loadable '
            'output file after a failure; with a debugging file requested, a successful assembly leaves one that loads back')

# model limits used for the correspondence (see coq/Model/AsmErrors.v, `config`): the generators stay out of the bands in
# which the real outcome depends on the interpreter's stack / memory state
EXPR_FRAMES_OF_A_DEEP_TREE = 50     # frames of Expr methods on the stack of a RecursionError caused by a deep expression
WATCHDOG = 30.0           # seconds per assembly; FIRST_PASS is the limit of the first pass, expiries are re-run at WATCHDOG
FIRST_PASS = 6.0
EXPR_LIMIT = 450          # Expr traversals: deeper than this -> RecursionError (real threshold 496..500 at the default limit)
REP_LIMIT = 1 << 22       # a rep count above this never finishes within the watchdog
PAD_LIMIT = 1 << 24       # ops of padding that can still be materialised
BIT_LIMIT = 1 << 33       # shift / power results with more bits than this cannot be allocated


# ---- cases -----------------------------------------------------------------------------------------------------------

def build_cases(ctx):
    rng = ctx.rng
    import random
    DEBUG_RNG[0] = random.Random(f'C14-debug:{ctx.seed}')
    q = ctx.quick()
    mem = 1024 if q else 4096
    groups = [
        bg.gen_lexing(rng, ctx.n(60, 400)), bg.gen_unterminated(rng, ctx.n(400, 2000)), bg.gen_syntax(rng, ctx.n(260, 1500)), bg.gen_names(rng, ctx.n(120, 600)),
        bg.gen_layout(rng, ctx.n(176, 880)), bg.gen_range(rng, ctx.n(256, 2048)), bg.gen_arith(rng, ctx.n(360, 2880)),
        bg.gen_recursion(rng, ctx.n(90, 184)), bg.gen_rep_recursion(rng, ctx.n(80, 160)), bg.gen_collisions(rng, ctx.n(76, 304)),
        bg.gen_bigint(rng, ctx.n(760, 2300)), bg.gen_interleave(rng, ctx.n(320, 3200)), layout_family(ctx, ctx.n(260, 2600)), bg.gen_huge(rng, ctx.n(56, 112), mem),
    ]
    # several assemblies in one process: every distinct step is also assembled alone (an ordinary case)
    seqs = bg.gen_sequences(rng, ctx.n(150, 1500))
    solo = {}
    for sq in seqs:
        for st in sq['steps']:
            solo.setdefault(step_key(st), bg.case('seq-solo', st['text'], st['label'], w=st['w'], v=st['v'],
                                                  max_depth=st['max_depth'], debug=st['debug'], nomodel=True))
    groups.append(list(solo.values()))
    ctx.c14_sequences = seqs
    valid = bg.gen_valid(rng, ctx.n(150, 1500))
    groups.append(valid)
    corpus = [(f'nostl{i}', t, False) for i, t in enumerate(bg.NOSTL_SAMPLES)]
    corpus += [(f'stl{i}', t, True) for i, t in enumerate(bg.STL_SAMPLES)]
    corpus += [(f'gen{i}', c['text'], False) for i, c in enumerate(valid[:40])]
    corpus += [(n, t, True) for n, t in bg.repo_corpus(fw.REPO, rng, ctx.n(50, 400))]
    # the unmodified corpus is assembled first: only programs that assemble quickly are mutated (a mutant of a program
    # that needs seconds would make the watchdog meaningless)
    ccases = finish_cases([bg.case('corpus', t, f'unmodified {n}', stl=s, w=w) for n, t, s in corpus
                           for w in ((32, 64) if s else bg.WIDTHS)], 0)
    for c in ccases:
        c['timeout'] = FIRST_PASS
    cobs = run_cases(ctx, ccases)
    fast = [(c['hint'][11:], c['text'], c['stl'], c['w']) for c, o in zip(ccases, cobs) if o['result'] == 'ok' and o['secs'] <= 1.0]
    ctx.coverage['corpus'] = {'programs': len(corpus), 'assembled_quickly_and_mutated': len(fast), 'runs': len(ccases)}
    if not fast:
        raise RuntimeError('no program of the mutation corpus assembles: ' + json.dumps([o.get('msg', o['result'])[:200] for o in cobs[:3]]))
    groups.append(bg.gen_mutations(rng, ctx.n(1600, 24000), fast))
    cases = finish_cases([c for g in groups for c in g], len(ccases))
    return ccases + cases, cobs


def layout_family(ctx, n):
    """the C02 generator of primitive programs (progGen.py): pad / reserve / segment / wflip layouts, valid and with injected
    faults, plus its directed programs, at every width and version"""
    return [bg.case('layout-gen', j['src'], ', '.join(j['features'])[:120], w=j['w'], v=j['version'])
            for j in pg.gen_jobs(ctx.rng, n)]


DEBUG_RNG = [None]


# ---- sequences: several assemblies in one process -------------------------------------------------------------------------

def step_key(st):
    return (st['text'], st['w'], st['v'], st['max_depth'], bool(st['debug']))


def seq_worker_case(sq, cid):
    return {'id': cid, 'timeout': WATCHDOG,
            'seq': [{'w': st['w'], 'v': st['v'], 'stl': False, 'files': [['p.fj', st['text'].encode('utf-8').hex()]],
                     'max_depth': st['max_depth'], 'debug': st['debug']} for st in sq['steps']]}


def outcome_key(o):
    """what must not depend on what the process did before: the class of the outcome (paths in messages differ)"""
    return (o['result'], o.get('cls'), o.get('cause'), bool(o.get('catch_all')), real_code(o), bool(o.get('out_exists')),
            o.get('reader'), o.get('dbg_load'))


def judge_sequence(sq, steps_obs, solo_obs):
    """-> list of (step index, signature, what).  Every step obeys the spec of a single assembly, and its outcome equals
    the outcome of the same source assembled alone in a fresh process"""
    res = []
    for i, (st, o) in enumerate(zip(sq['steps'], steps_obs)):
        pseudo = {'cls': 'sequence', 'hint': st['label'], 'text': st['text']}
        for sig, what in judge(pseudo, o):
            res.append((i, sig, f'step {i + 1} of a sequence in one process: ' + what))
        alone = solo_obs.get(step_key(st))
        if alone is None or o['result'] in ('hang', 'crash') or alone['result'] in ('hang', 'crash'):
            continue
        if outcome_key(o) != outcome_key(alone):
            res.append((i, {'kind': 'history-dependent', 'alone': str(alone.get('cls') or alone['result']),
                            'in_sequence': str(o.get('cls') or o['result']), 'exc': o.get('cause')},
                        f'step {i + 1} ({st["label"]}) ends differently after the earlier assemblies of the same process than '
                        f'alone: alone {alone["result"]}/{alone.get("cls")}/{alone.get("cause")}, in sequence '
                        f'{o["result"]}/{o.get("cls")}/{o.get("cause")} (recursion limit left by the previous step: '
                        f'{steps_obs[i - 1].get("recursion_limit_after") if i else "n/a"})'))
    return res


def replay_of_sequence(sq, steps_obs, i, alone):
    return {'sequence': {'steps': sq['steps'], 'hint': sq['hint']}, 'step': i,
            'observed_steps': [{k: o.get(k) for k in ('result', 'cls', 'cause', 'catch_all', 'frame', 'stage', 'msg', 'out_exists',
                                                       'reader', 'recursion_limit_after', 'dbg_load')} for o in steps_obs],
            'observed_alone': None if alone is None else {k: alone.get(k) for k in ('result', 'cls', 'cause', 'catch_all', 'frame', 'msg')},
            'required': REQUIRED + '; and every assembly of a sequence performed in one process ends like the same assembly alone',
            'how': 'the steps are flipjump.assemble(...) calls made one after the other in one Python process'}


def run_sequences(ctx, cases, obs):
    seqs = getattr(ctx, 'c14_sequences', [])
    if not seqs:
        return
    solo_obs = {}
    for c, o in zip(cases, obs):
        if c['cls'] == 'seq-solo':
            solo_obs[(c['text'], c['w'], c['v'], c['max_depth'], bool(c['debug']))] = o
    sobs = run_cases(ctx, [seq_worker_case(sq, f'seq{i}') for i, sq in enumerate(seqs)])
    found = {}
    for sq, so in zip(seqs, sobs):
        for st, o in zip(sq['steps'], so['steps']):
            ctx.count(('seq', sq['hint'], st['text'], st['w'], st['v']), o['result'] != 'ok')
            ctx.hist('sequence_step_outcome', ('catch-all<-' + str(o.get('cause'))) if o.get('catch_all') else (o.get('cls') or o['result']))
            ctx.hist('recursion_limit_after_a_step', o.get('recursion_limit_after'))
        ctx.hist('sequence_length', len(sq['steps']))
        for i, sig, what in judge_sequence(sq, so['steps'], solo_obs):
            k = json.dumps(sig, sort_keys=True)
            size = sum(len(st['text']) for st in sq['steps'])
            if k not in found or size < found[k][0]:
                found[k] = (size, sq, so, i, sig, what)
    for k in sorted(found):
        _, sq, so, i, sig, what = found[k]
        srcs = ' | '.join(repr(st['text'][:60]) + f' (max_recursion_depth={st["max_depth"]})' for st in sq['steps'])
        ctx.violation(sig, f'{what}; sequence: {srcs[:500]}',
                      replay_of_sequence(sq, so['steps'], i, solo_obs.get(step_key(sq['steps'][i]))))
    ctx.coverage['sequences'] = len(seqs)


def finish_cases(raw, k0):
    cases = []
    k = k0
    for g in [raw]:
        for c in g:
            c = dict(c)
            c['id'] = f'c{k}'
            data = c['text'] if isinstance(c['text'], bytes) else c['text'].encode('utf-8')
            c['files'] = [['p.fj', data.hex()]]
            c.setdefault('w', bg.WIDTHS[k % 4])
            c.setdefault('v', bg.VERSIONS[(k // 4) % 4])
            # with and without the stl: classes built without it are also run with it for one case in four
            if not c['stl'] and not c['cls'].startswith('mutation') and c['cls'] not in ('corpus', 'valid') and k % 4 == 3 \
                    and not c.get('slow') and c.get('pre') is None:
                c['stl'] = True
            c['warm'] = bool(c['stl'] and (k // 16) % 2 == 0)
            c.setdefault('max_depth', None)
            # the debugging-labels file (written last, after the .fjm): a seed-chosen third of every family, and every
            # case that asks for it (the big-integer templates with labels / segment / reserve, the N7 regression)
            c.setdefault('debug', DEBUG_RNG[0].random() < 1 / 3)
            k += 1
            cases.append(c)
    return cases


def run_cases(ctx, cases, timeout=WATCHDOG):
    slow = [c for c in cases if c.get('slow')]
    fast = [c for c in cases if not c.get('slow')]
    nw = fw.NCPU
    chunks = [[] for _ in range(nw)]
    for i, c in enumerate(slow):
        chunks[i % nw].append(c)
    for i, c in enumerate(fast):
        chunks[(i + len(slow)) % nw].append(c)
    chunks = [ch for ch in chunks if ch]
    keys = ('id', 'w', 'v', 'stl', 'warm', 'files', 'max_depth', 'mem_mb', 'timeout', 'debug', 'seq')
    payloads = [{'dir': str(ctx.scratch), 'timeout': timeout,
                 'cases': [{k: c[k] for k in keys if k in c} for c in ch]} for ch in chunks]
    outs = fw.run_workers_parallel(ctx, 'asmfail', payloads, timeout=3000)
    by_id = {}
    for ch, o in zip(chunks, outs):
        for c, r in zip(ch, o):
            by_id[c['id']] = r
    return [by_id[c['id']] for c in cases]


HUGE_COUNT = re.compile(r"\(1<<70\)|\(1<<64\)|1{30}")


# ---- the spec on the real behaviour ----------------------------------------------------------------------------------

def names_construct(obs):
    msg = obs.get('msg', '')
    if obs.get('has_pos') or obs.get('idents'):
        return True
    if re.search(r'0x[0-9a-f]+', msg) or 'bad math operation' in msg or 'negative exponent' in msg:
        return True
    if 'no first op at address 0' in msg:       # a diagnostic about the whole program: there is no smaller construct
        return True
    if 'nests too deeply' in msg:               # python's recursion limit was hit somewhere in the source: no position exists
        return True
    return False


def judge(case, obs):
    """-> list of (signature, what); empty = the spec holds on this observation"""
    v = []
    res = obs['result']
    failed = res != 'ok'
    if res == 'hang':
        # a count nobody can materialise must be refused; a program that is merely large may legitimately need longer than
        # the watchdog, so an expiry without such a count in the source is recorded as inconclusive, not as a violation
        # (whatever the killed process had already written says nothing either)
        if obs.get('unconfirmed'):
            return []
        if case.get('must_finish'):
            # nothing in these sources is large: the lexer / parser has to refuse them at once.  Its own kind, so that the
            # listed finding about unbounded rep counts and exponents (kind "hang") cannot absorb it
            return [({'kind': 'hang-in-lexer', 'stage': 'lex', 'gen': case['cls']},
                     f'assembly of a {len(case["files"][0][1]) // 2}-byte source did not finish within seconds '
                     f'({case["hint"]})')]
        if not (case.get('slow') or HUGE_COUNT.search(case['hint'])):
            return []
        v.append(({'kind': 'hang', 'gen': case['cls']}, f'assembly did not finish within the watchdog ({case["hint"][:120]})'))
    elif res == 'ok' and case.get('require'):
        v.append(({'kind': 'wrong-diagnostic', 'required': case['require']['msg'], 'exc': None, 'cause': None},
                  f'the assembly of a cyclic macro recursion succeeded; required: "{case["require"]["msg"]} ..."'))
    elif res == 'crash':
        v.append(({'kind': 'crash', 'gen': case['cls']}, f'the assembling process died (status {obs.get("status")})'))
    elif res == 'exception':
        if obs['catch_all']:
            sig = {'kind': 'catch-all', 'exc': obs['cause'], 'stage': obs['stage'], 'frame': obs['frame']}
            if obs['cause'] == 'RecursionError' and obs.get('expr_frames', 0) < EXPR_FRAMES_OF_A_DEEP_TREE:
                # the stack overflowed without a deep expression tree on it (F10 is about deep trees): e.g. macro nesting
                # that costs more Python frames per level than the library's own depth limit accounts for
                sig['kind'] = 'catch-all-without-deep-expression'
                sig['macro_frames_over_100'] = obs.get('macro_frames', 0) > 100
            if obs['out_exists']:
                sig['partial_file'] = True
            v.append((sig, f'catch-all "Unknown exception ... please report this bug" caused by {obs["cause"]} in '
                           f'{obs["frame_file"]}:{obs["frame"]}' + (' and an output file is left behind' if obs['out_exists'] else '')))
        elif not obs['lib']:
            v.append(({'kind': 'raw', 'exc': obs['cls'], 'stage': obs['stage'], 'frame': obs['frame']},
                      f'raw Python exception {obs["cls"]} escapes flipjump.assemble from {obs["frame_file"]}:{obs["frame"]}'))
        elif case.get('require') and not (obs['cls'] == case['require']['cls'] and case['require']['msg'] in obs['msg']):
            # a cyclic macro recursion is what max_recursion_depth exists for: the preprocessor's own depth check has to
            # fire (before python's stack does), whatever kind of call closes the cycle
            v.append(({'kind': 'wrong-diagnostic', 'required': case['require']['msg'], 'exc': obs['cls'], 'cause': obs['cause']},
                      f'the required diagnostic is {case["require"]["cls"]} "{case["require"]["msg"]} ...", the assembly ended '
                      f'with {obs["cls"]} (cause {obs["cause"]}): {obs["msg"][:120]!r}'))
        elif obs['cls'] not in ASM_EXCEPTIONS:
            v.append(({'kind': 'unspecific', 'exc': obs['cls'], 'frame': obs['frame']},
                      f'{obs["cls"]} is not one of the specific assembly exceptions'))
        # a specific exception whose message names no file/line, identifier or address (names_construct) is counted in the
        # evidence (histogram diagnostic_site) only: such messages name the situation, which the property accepts
    if res == 'ok' and obs.get('debug') and obs.get('dbg_load') not in ('loads', None):
        v.append(({'kind': 'debug-labels-unreadable', 'exc': obs.get('dbg_load')},
                  f'the assembly succeeded but its debugging-labels file does not load back ({obs.get("dbg_load")})'))
    if res == 'ok' and obs.get('debug') and not obs.get('dbg_exists'):
        v.append(({'kind': 'debug-labels-missing'}, 'the assembly succeeded but wrote no debugging-labels file'))
    if failed and obs.get('out_exists') and obs.get('reader') == 'accepts':
        v.append(({'kind': 'loadable-file-after-failure', 'result': res, 'frame': obs.get('frame')},
                  'the assembly failed but the output path holds a file that fjm_reader.Reader accepts'))
    return v


def replay_of(case, obs):
    text = case['text']
    r = {'case': {k: case[k] for k in ('cls', 'hint', 'w', 'v', 'stl', 'warm', 'files', 'max_depth', 'debug', 'require', 'must_finish', 'watchdog')
                  if k in case},
         'source': text if isinstance(text, str) else text.decode('latin1'),
         'observed': {k: obs.get(k) for k in ('result', 'cls', 'cause', 'catch_all', 'frame', 'frame_file', 'stage', 'msg',
                                               'out_exists', 'out_size', 'reader', 'secs', 'debug', 'dbg_exists', 'dbg_load',
                                               'expr_frames', 'macro_frames')},
         'required': REQUIRED,
         'how': 'flipjump.assemble([p.fj], out, memory_width=w, use_stl=stl, fjm_version=FJMVersion(v), print_time=False[, debugging_file_path=out.fjd if debug])'}
    if case.get('mem_mb'):
        r['case']['mem_mb'] = case['mem_mb']
    return r


def shrink(ctx, case, sig):
    """greedy line / chunk removal keeping the same signature (bounded number of real runs)"""
    data = bytes.fromhex(case['files'][0][1])
    if len(data) <= 24 or case.get('slow'):
        return case

    def same(d):
        c = dict(case, files=[['p.fj', d.hex()]], id='shr', timeout=10.0)
        o = run_cases(ctx, [c])[0]
        return any(s == sig for s, _ in judge(c, o))

    budget = 40
    lines = data.split(b'\n')
    changed = True
    while changed and budget > 0 and len(lines) > 1:
        changed = False
        step = max(1, len(lines) // 2)
        while step >= 1 and budget > 0:
            i = 0
            while i < len(lines) and budget > 0:
                cand = lines[:i] + lines[i + step:]
                budget -= 1
                if cand and same(b'\n'.join(cand)):
                    lines = cand
                    changed = True
                else:
                    i += step
            step //= 2
    d = b'\n'.join(lines)
    c = dict(case, files=[['p.fj', d.hex()]])
    c['text'] = d.decode('utf-8', errors='surrogateescape') if isinstance(case['text'], str) else d
    try:
        c['text'] = d.decode('utf-8') if isinstance(case['text'], str) else d
    except UnicodeDecodeError:
        c['text'] = d
    return c


# ---- the Coq model on the same programs ------------------------------------------------------------------------------

COQ_HEADER = ('From FJ Require Import Lib.Base Model.Ast Model.AsmErrors.\n'
              'Local Open Scope string_scope.\nLocal Open Scope N_scope.\n'
              # builders of the deep expression trees of badProgGen.gen_recursion (n wrappers around the leaf)
              'Fixpoint deep_left (n : nat) (l : expr) : expr := match n with O => l | S k => EOp OAdd [deep_left k l; l] end.\n'
              'Fixpoint deep_right (n : nat) (l : expr) : expr := match n with O => l | S k => EOp OAdd [l; deep_right k l] end.\n'
              'Fixpoint deep_unary (n : nat) (l : expr) : expr := match n with O => l | S k => EOp ONot [deep_unary k l] end.\n'
              'Fixpoint deep_cond (n : nat) (l : expr) : expr := match n with O => l | S k => EOp OCond [l; EInt 1%Z; deep_cond k l] end.\n')

LIB_CODE = [  # (exception class, regex on the message) -> libkind code of AsmErrors.libkind_code
    ('FlipJumpExprException', r'bad math operation', 2), ('FlipJumpExprException', r'negative exponent', 1),
    ('FlipJumpExprException', r'Bad label swap', 3), ('FlipJumpExprException', r"Can't calculate rep arguments", 4),
    ('FlipJumpPreprocessorException', r"is used but isn't defined", 10), ('FlipJumpPreprocessorException', r'maximal macro-expansion', 11),
    ('FlipJumpPreprocessorException', r'label declared twice', 12), ('FlipJumpPreprocessorException', r"Can't evaluate how many times", 13),
    ('FlipJumpPreprocessorException', r"Can't evaluate how much to pad", 14), ('FlipJumpPreprocessorException', r"'pad' must get a positive", 15),
    ('FlipJumpPreprocessorException', r"'pad' requires the current address", 16), ('FlipJumpPreprocessorException', r'segment failed', 17),
    ('FlipJumpPreprocessorException', r"'pad -?[0-9a-fx]+", 21), ('FlipJumpWriteFjmException', r'data word', 40),
    ('FlipJumpPreprocessorException', r'segment ops must have', 18), ('FlipJumpPreprocessorException', r'reserve failed', 19),
    ('FlipJumpPreprocessorException', r'reserve ops must have', 20),
    ('FlipJumpPreprocessorException', r'reserve must get a non-negative', 22),
    ('FlipJumpAssemblerException', r'Not enough space.* in op ', 31), ('FlipJumpAssemblerException', r' in op ', 30),
    ('FlipJumpAssemblerException', r'segment boundaries are unaligned', 32), ('FlipJumpAssemblerException', r'Not enough space', 33),
    ('FlipJumpAssemblerException', r'failed to add the segment', 34), ('FlipJumpAssemblerException', r'no first op at address 0', 35),
    ('FlipJumpAssemblerException', r'nests too deeply', 36),
]
RAW_CODE = {'ZeroDivisionError': 1, 'ValueError': 2, 'TypeError': 3, 'KeyError': 4, 'IndexError': 5, 'MemoryError': 6,
            'OverflowError': 6, 'RecursionError': 7, 'struct.error': 8}


def real_code(obs):
    """the real outcome in the model's coding: 0 ok; 100+k library error kind; 200+x catch-all cause; 300 hang; None = outside"""
    if obs['result'] == 'ok':
        return 0
    if obs['result'] == 'hang':
        return 300
    if obs['result'] != 'exception':
        return None
    if obs['catch_all']:
        x = RAW_CODE.get(obs['cause'])
        return 200 + x if x else None
    for cls, rx, code in LIB_CODE:
        if obs['cls'] == cls and re.search(rx, obs['msg'], re.S):
            return 100 + code
    # the worker cuts the message at 1500 characters: a diagnostic that prints a number of thousands of hex digits loses
    # its " in op ..." tail; labels_resolve raises nothing else
    if obs['cls'] == 'FlipJumpAssemblerException' and obs.get('frame') == 'labels_resolve' and obs.get('msg_len', 0) > 1500:
        return 131 if obs['msg'].startswith('Not enough space') else 130
    return None


def file_code(obs):
    return 0 if not obs['out_exists'] else (2 if obs['result'] == 'ok' else 1)


def expr_coq(e):
    """dump_tree.expr_to_coq without recursion (the generated trees are thousands of levels deep)"""
    out = []
    stack = [e]
    while stack:
        x = stack.pop()
        if isinstance(x, tuple):        # literal text to emit
            out.append(x[0])
        elif isinstance(x, bool) or x is None:
            raise dt.DumpError(f'bad expression JSON {x!r}')
        elif isinstance(x, int):
            # a decimal numeral of thousands of digits takes coqc minutes to read; hexadecimal is linear
            out.append(f'EInt {dt.coq_z(x)}' if abs(x) < 10 ** 40 else f'EInt ({"-" if x < 0 else ""}0x{abs(x):x})%Z')
        elif isinstance(x, str):
            out.append(f'ELbl {dt.coq_string(x)}')
        elif isinstance(x, list) and len(x) == 2 and x[0] == '@deep':
            kind, n, leaf = x[1]
            out.append(f'(deep_{kind.replace("-sum", "")} {int(n)}%nat (')
            stack.append(('))',))
            stack.append(leaf)
        elif isinstance(x, list) and len(x) == 2 and x[0] in dt.OPS_COQ and len(x[1]) == dt.OPS_ARITY[x[0]]:
            out.append(f'EOp {dt.OPS_COQ[x[0]]} [')
            stack.append((']',))
            for i, a in enumerate(reversed(x[1])):
                stack.append(a)
                if i < len(x[1]) - 1:
                    stack.append(('; ',))
        else:
            raise dt.DumpError(f'bad expression JSON {str(x)[:80]!r}')
    return ''.join(out)


def stmt_coq(s):
    p = dt.pos_to_coq(s['pos'])
    e = lambda k: '(' + expr_coq(s[k]) + ')'        # noqa
    es = lambda k: '[' + '; '.join(expr_coq(a) for a in s[k]) + ']'     # noqa
    t = s['t']
    if t == 'FlipJump':
        return f'SFlipJump {e("flip")} {e("jump")} {p}'
    if t == 'WordFlip':
        return f'SWordFlip {e("addr")} {e("value")} {e("ret")} {p}'
    if t == 'Pad':
        return f'SPad {e("align")} {p}'
    if t == 'Label':
        return f'SLabel {dt.coq_string(s["name"])} {p}'
    if t == 'MacroCall':
        return f'SMacroCall {dt.coq_string(s["name"])} {es("args")} {p}'
    if t == 'RepCall':
        return f'SRepCall {e("times")} {dt.coq_string(s["iter"])} {dt.coq_string(s["name"])} {es("args")} {p}'
    if t == 'Segment':
        return f'SSegment {e("start")} {p}'
    if t == 'Reserve':
        return f'SReserve {e("size")} {p}'
    raise dt.DumpError(f'unknown statement {t!r}')


def tree_coq(tree):
    ms = []
    for m in tree['macros']:
        ms.append(f'(({dt.coq_string(m["name"])}, {int(m["arity"])}%N), mkmacro {dt.strs_to_coq(m["params"])} '
                  f'{dt.strs_to_coq(m["locals"])} [' + ';\n   '.join(stmt_coq(x) for x in m['ops']) + f'] '
                  f'{dt.coq_string(m["namespace"])} {dt.pos_to_coq(m["pos"])})')
    return '[' + ';\n '.join(ms) + ']'


def model_term(case, tree):
    ww = {8: 3, 16: 4, 32: 5, 64: 6}[case['w']]
    md = case.get('max_depth')
    md = 900 if md is None else md
    return (f'(mkcase (mkcfg {case["w"]}%Z {case["v"]}%N {md}%nat {EXPR_LIMIT}%nat {REP_LIMIT}%Z {PAD_LIMIT}%Z {BIT_LIMIT}%Z)\n'
            f' {tree_coq(tree)})'), ww


def pre_tree(case):
    """the un-folded tree of a macro-free generated program: one main macro"""
    return {'w': case['w'], 'macros': [{'name': '', 'arity': 0, 'params': [], 'locals': [], 'namespace': '',
                                        'pos': {'file': 'p.fj', 'short': 'f1', 'line': 1}, 'ops': case['pre']}]}


def compare_with_model(ctx, cases, obs):
    """run the Coq model on (a) the generator's un-folded trees and (b) the dumped trees of programs that parse"""
    sys.setrecursionlimit(max(sys.getrecursionlimit(), 60000))      # the translator walks generated trees 3000 levels deep
    todo = []
    for c, o in zip(cases, obs):
        if c['stl'] or c.get('slow') or c.get('nomodel') or o['result'] in ('crash',):
            continue
        if isinstance(c['text'], bytes):
            continue
        if c.get('pre') is not None:
            todo.append((c, o, 'pre'))
        elif o['result'] == 'ok' or (o['result'] == 'exception' and o.get('stage') not in ('parse', 'parser-fold', 'api')):
            # the tree translator (dump_tree.py) is recursive: trees too deep for it are only compared through `pre`
            deep = (c['cls'] == 'recursion' and 'expression depth' in c['hint']) or o.get('cause') == 'RecursionError' or max(map(len, c['text'].split('\n'))) > 1500
            # 900 nested expansions of a macro that declares labels: the assembler needs 0.1 s, the model (association
            # lists keyed by strings that share a 10 KB prefix) minutes; the depth limit itself is compared on the
            # label-free and small-limit programs of gen_recursion
            runaway = o['result'] == 'exception' and 'maximal macro-expansion' in o.get('msg', '') and c['cls'] != 'recursion'
            if len(c['text']) < 6000 and not deep and not runaway and o.get('secs', 0) <= 0.3:
                todo.append((c, o, 'dump'))
    limit = ctx.n(1100, 9000)
    pre = [t for t in todo if t[2] == 'pre']
    dump = [t for t in todo if t[2] == 'dump']
    ctx.rng.shuffle(dump)
    todo = pre[:limit] + dump[:max(0, limit - len(pre))]
    jobs = [{'w': c['w'], 'sources': [['f1', c['text']]]} for c, o, how in todo if how == 'dump']
    try:
        dumped = iter(dt.dump_sources(ctx, jobs))
    except RuntimeError as e:       # the translator fails closed (worker dies) on a shape it does not know
        ctx.broken_tie('tree dump of the programs that parse (dump_tree.py)', str(e))
        return
    terms, meta = [], []
    for c, o, how in todo:
        if how == 'pre':
            tree = pre_tree(c)
        else:
            d = next(dumped)
            if 'tree' not in d:
                ctx.hist('model_compare', 'parser refused in the dump run')
                continue
            tree = d['tree']
        rc = real_code(o)
        if rc is None:
            ctx.hist('model_compare', 'real outcome outside the model coding')
            ctx.coverage.setdefault('model_uncoded', []).append(f'{o.get("cls")}: {o.get("msg", "")[:120]}')
            continue
        try:
            term, _ = model_term(c, tree)
        except dt.DumpError:
            ctx.hist('model_compare', 'tree not expressible (non-ASCII)')
            continue
        terms.append(term)
        meta.append((c, o, rc, how))
    if not terms:
        ctx.broken_tie('C14 model correspondence', 'no program reached the model comparison')
        return
    # the model's verdict code and file code, compared in Python (so that a disagreement can be triaged)
    shard = 60
    outs = []
    shard_secs = []
    shards = [terms[i:i + shard] for i in range(0, len(terms), shard)]

    def evaluate(name, ts, timeout):
        path = ctx.scratch / f'{name}.v'
        body = COQ_HEADER + 'Definition cases := [\n' + ';\n'.join(ts) + '\n].\n' + \
            'Eval vm_compute in (map case_codes cases).\n'
        path.write_text(body)
        t0 = time.time()
        rc, out = fw.coqc_file(path, timeout)
        secs = round(time.time() - t0, 1)
        pairs = re.findall(r'\(\s*(\d+)\s*,\s*(\d+)\s*\)', out) if rc == 0 else []
        if rc == 0 and len(pairs) == len(ts):
            return [(int(a), int(b)) for a, b in pairs], '', secs
        return None, (out if out.strip() else 'TIMEOUT'), secs

    def one(idx_ts):
        idx, ts = idx_ts
        r, err, secs = evaluate(f'c14model_{idx}', ts, 90)
        shard_secs.append(secs)
        if r is not None or err != 'TIMEOUT':
            return r, err
        # the vm_compute evaluation of the model is ~1000x slower than the assembler: a shard that does not finish is
        # evaluated case by case, and a case that alone needs more than 30 s is skipped (and counted)
        def single(jt):
            return evaluate(f'c14model_{idx}_{jt[0]}', [jt[1]], 30)
        with ThreadPoolExecutor(max_workers=8) as ex2:
            singles = list(ex2.map(single, list(enumerate(ts))))
        res = []
        for r1, e1, _ in singles:
            if r1 is None and e1 != 'TIMEOUT':
                return None, e1
            res.append(r1[0] if r1 else None)
        return res, ''

    with ThreadPoolExecutor(max_workers=fw.NCPU) as ex:
        for r, err in ex.map(one, list(enumerate(shards))):
            if r is None:
                ctx.broken_tie('coq evaluation of the C14 model cases', err)
                return
            outs += r
    agree = 0
    for (c, o, rc, how), mres in zip(meta, outs):
        if mres is None:
            ctx.hist('model_compare', 'model evaluation exceeded 30 s (skipped)')
            ctx.coverage.setdefault('model_skipped', []).append({'w': c['w'], 'source': c['text'][:400], 'real_secs': o.get('secs')})
            continue
        mv, mf = mres
        ctx.count(('model', c['text'], c['w'], c['v']), nontrivial=(rc != 0))
        ctx.hist('model_verdict', mv if mv < 100 else f'{mv // 100 * 100}+{mv % 100}')
        same = (mv == rc) and (mf == file_code(o))
        # a hang and a memory error are the same modelled event seen through the watchdog
        if not same and {mv, rc} <= {206, 300} and mf == file_code(o):
            same = True
        if same:
            agree += 1
            ctx.hist('model_compare', f'agree ({how})')
            continue
        ctx.hist('model_compare', f'DISAGREE ({how})')
        viol = judge(c, o)
        detail = (f'model verdict code {mv} file {mf}; implementation code {rc} file {file_code(o)} '
                  f'({o.get("cls")} / {o.get("cause")} / {o.get("msg", "")[:200]!r}); w={c["w"]} v={c["v"]} source={c["text"][:600]!r}')
        if viol:
            for sig, what in viol:
                ctx.violation(sig, what + ' (also: the Coq model predicts another outcome)', replay_of(c, o))
        else:
            ctx.broken_tie('C14 model correspondence (AsmErrors.assemble_model vs flipjump.assemble)', detail)
    ctx.coverage['model_shard_secs'] = sorted(shard_secs)
    skipped = sum(1 for r in outs if r is None)
    if skipped > max(5, len(outs) // 50):
        ctx.broken_tie('C14 model correspondence', f'{skipped} of {len(outs)} model evaluations did not finish')
    ctx.coverage['model_cases'] = len(meta)
    ctx.coverage['model_agree'] = agree


# ---- run / replay ------------------------------------------------------------------------------------------------------

def run(ctx):
    phases = ctx.coverage.setdefault('phase_secs', {})
    t0 = time.time()
    fw.static_proofs(ctx, ['Properties/C14.v'])
    phases['static proofs'] = round(time.time() - t0, 1)
    t0 = time.time()
    cases, cobs = build_cases(ctx)
    phases['corpus'] = round(time.time() - t0, 1)
    t0 = time.time()
    for c in cases[len(cobs):]:
        c['timeout'] = WATCHDOG if c.get('slow') else min(FIRST_PASS, c.get('watchdog', FIRST_PASS))
    obs = cobs + run_cases(ctx, cases[len(cobs):])
    # watchdog expiries are re-run in isolation, with the full period, before being believed
    again = [i for i, o in enumerate(obs) if o['result'] in ('hang', 'crash') and not cases[i].get('slow')
             and cases[i]['cls'] != 'corpus']     # (an unmodified program that needs longer is just not mutated)
    # the short-limit family: only six expiries are confirmed (calibrated limit, below); the others stay unconfirmed = inconclusive
    quick_ones = sorted((i for i in again if cases[i].get('must_finish')), key=lambda i: len(cases[i]['files'][0][1]))
    # (the three smallest, for a readable replay, and the three largest: a super-linear lexer needs the longest on those)
    keep_quick = set(quick_ones[:3] + quick_ones[-3:])
    for i in quick_ones:
        if i not in keep_quick:
            obs[i]['unconfirmed'] = True
    again = [i for i in again if i not in (set(quick_ones) - keep_quick)]
    if again:
        # the confirmation limit of the short-limit family is calibrated on THIS machine at THIS moment: a valid two-line
        # program with the same settings (stl, warm, width, version) is assembled first; a literal the lexer must refuse at
        # once may take 10 x that time + 20 s, and when even the control does not finish the expiry stays inconclusive
        # (on a loaded machine parsing the stl alone can take longer than any fixed number of seconds)
        confirm = {}
        quick_set = [i for i in again if cases[i].get('must_finish')]
        if quick_set:
            keys = sorted({(cases[i]['w'], cases[i]['v'], cases[i]['stl'], cases[i]['warm']) for i in quick_set})
            ctl_cases = []
            for n, (w_, v_, stl_, warm_) in enumerate(keys):
                ctl_cases.append(dict(cases[quick_set[0]], id=f'ctl{n}', w=w_, v=v_, stl=stl_, warm=warm_, timeout=WATCHDOG,
                                      files=[[cases[quick_set[0]]['files'][0][0], ';\n;\n'.encode().hex()]],
                                      must_finish=False, require=None))
            ctl_obs = run_cases(ctx, ctl_cases)
            for k_, o_ in zip(keys, ctl_obs):
                confirm[k_] = None if o_['result'] in ('hang', 'crash') else 10.0 * float(o_.get('secs') or 0.0) + 20.0
        def limit_of(i):
            if not cases[i].get('must_finish'):
                return WATCHDOG
            return confirm.get((cases[i]['w'], cases[i]['v'], cases[i]['stl'], cases[i]['warm']))
        for i in [i for i in again if limit_of(i) is None]:
            obs[i]['unconfirmed'] = True
        again = [i for i in again if limit_of(i) is not None]
        redo = run_cases(ctx, [dict(cases[i], id=f'redo{i}', timeout=limit_of(i)) for i in again])
        for i, o in zip(again, redo):
            obs[i] = o
    phases['campaign'] = round(time.time() - t0, 1)
    t0 = time.time()
    found = {}
    for c, o in zip(cases, obs):
        nontrivial = o['result'] != 'ok'
        ctx.count((c['files'][0][1], c['w'], c['v'], c['stl']), nontrivial)
        ctx.hist('generator', c['cls'])
        ctx.hist('width_version', f'w{c["w"]}v{c["v"]}')
        ctx.hist('stl', f'{"stl" if c["stl"] else "nostl"}{"-warm" if c["warm"] else ""}')
        ctx.hist('debugging_file', 'requested' if c.get('debug') else 'not requested')
        if o['result'] == 'ok' and c.get('debug'):
            ctx.hist('debug_file_after_success', str(o.get('dbg_load')))
        if o['result'] == 'exception':
            key = ('catch-all<-' + str(o['cause'])) if o['catch_all'] else o['cls']
            ctx.hist('outcome', key)
            ctx.hist('outcome_by_generator', f'{c["cls"]}:{key}')
            ctx.hist('stage', o['stage'])
            ctx.hist('diagnostic_site', f'{o["cls"]}@{o["frame"]}' + ('' if names_construct(o) else ' (names nothing)'))
            ctx.hist('file_after_failure', 'none' if not o['out_exists'] else f'exists, reader: {o["reader"]}')
            if o.get('debug'):
                ctx.hist('debug_file_after_failure', 'exists' if o.get('dbg_exists') else 'none')
        else:
            r = o['result']
            if r == 'hang' and not judge(c, o):
                r = 'watchdog expired on a large program (inconclusive)'
            ctx.hist('outcome', r)
            ctx.hist('outcome_by_generator', f'{c["cls"]}:{r}')
        for sig, what in judge(c, o):
            k = json.dumps(sig, sort_keys=True)
            if k not in found or len(c['files'][0][1]) < len(found[k][0]['files'][0][1]):
                found[k] = (c, o, sig, what)
    for k in sorted(found):
        c, o, sig, what = found[k]
        listed = any(f['property'] == ctx.prop and all(sig.get(a) == b for a, b in f['match'].items())
                     for f in ctx.findings.get('findings', []))
        # a listed finding is only named, not minimised again; a program built for one required diagnostic is kept whole
        c2 = c if listed or sig.get('kind') in ('wrong-diagnostic', 'hang-in-lexer') else shrink(ctx, c, sig)
        if c2 is not c:
            o2 = run_cases(ctx, [dict(c2, id='min')])[0]
            if any(s == sig for s, _ in judge(c2, o2)):
                c, o = c2, o2
        src = c['text'] if isinstance(c['text'], str) else repr(c['text'])
        ctx.violation(sig, f'{what}; input (w={c["w"]}, v={c["v"]}, stl={c["stl"]}): {src[:200]!r}', replay_of(c, o))
    for c, o in list(zip(cases, obs)):
        if o['result'] == 'exception' and not o['catch_all']:
            ctx.sample({'source': (c['text'] if isinstance(c['text'], str) else repr(c['text']))[:200], 'w': c['w'], 'v': c['v'],
                        'stl': c['stl'], 'observed': {k: o[k] for k in ('cls', 'frame', 'stage')}, 'msg': o['msg'][:160]}, limit=4)
    for c, o in zip(cases, obs):
        if o['result'] == 'exception' and o['catch_all']:
            ctx.sample({'source': (c['text'] if isinstance(c['text'], str) else repr(c['text']))[:200], 'w': c['w'], 'v': c['v'],
                        'observed': {k: o[k] for k in ('cls', 'cause', 'frame', 'stage', 'out_exists')}}, limit=6)
    phases['shrink and report'] = round(time.time() - t0, 1)
    t0 = time.time()
    run_sequences(ctx, cases, obs)
    phases['sequences'] = round(time.time() - t0, 1)
    t0 = time.time()
    compare_with_model(ctx, cases, obs)
    phases['model correspondence'] = round(time.time() - t0, 1)
    ctx.coverage['rule'] = (
        'badProgGen: one generator per error class (lexing, syntax, unknown/duplicate macro or label and arity, alignment/'
        'overlap, out-of-range words x every (w, version), /0 %0 <<neg >>neg **neg x {parser-time folding, parameter '
        'substitution, label resolution} x every statement context, macro and expression recursion depth, label/constant '
        'collisions and reserved/internal names, huge counts and literals) + valid programs + token/byte mutations of valid '
        'programs (hand samples, generated programs, programs/*.fj with the stl), each run through the real flipjump.assemble '
        'in a forked child (30 s, address-space limit); distinct = distinct (source bytes, w, version, stl); non-trivial = the '
        'assembly failed; the Coq model is evaluated on the un-folded generated trees and on the dumped trees of programs that parse')
    ctx.assumptions += [
        "sly's lexer / LALR driver is exercised by the campaign, not modelled (the model starts from parse trees)",
        'expression-depth, rep-count, pad-count and bit-count limits of the model are parameters; the generators avoid the '
        'bands 400..560 (depth), 2^22..2^36 (rep), 2^24..2^30 (pad) where the real outcome depends on stack/memory state',
        'quick tier runs the resource-exhaustion cases under a 1 GB address-space limit (4 GB in the thorough tier)',
        'sequences: 2-4 assemblies in one forked process (failures in every stage with small / large max_recursion_depth, '
        'successes, then a probe with a 100-400 term expression or 100-600 nested macro calls); each step is judged like a '
        'single case and must end like the same source assembled alone',
        'macro-start labels (":start:") and the debugging-labels file are not modelled (no debugging_file_path is passed)',
    ]


def replay(ctx, path):
    blob = json.loads(open(path).read())
    rp = blob['replay']
    if 'sequence' in rp:
        sq = rp['sequence']
        so = run_cases(ctx, [seq_worker_case(sq, 'replayseq')])[0]
        st = sq['steps'][rp['step']]
        alone = run_cases(ctx, [dict(bg.case('seq-solo', st['text'], st['label'], w=st['w'], v=st['v'], max_depth=st['max_depth'],
                                             debug=st['debug']), id='replaysolo', warm=False,
                                     files=[['p.fj', st['text'].encode('utf-8').hex()]])])[0]
        print(f'[C14] replay of {path}: {len(sq["steps"])} assemblies in one process')
        for j, (s1, o1) in enumerate(zip(sq['steps'], so['steps'])):
            print(f'  step {j + 1}: w={s1["w"]} version={s1["v"]} max_recursion_depth={s1["max_depth"]} source={s1["text"][:120]!r}')
            print(f'          -> {o1["result"]} {o1.get("cls")} cause={o1.get("cause")} catch_all={o1.get("catch_all")} '
                  f'recursion limit afterwards={o1.get("recursion_limit_after")}')
        print(f'  step {rp["step"] + 1} alone in a fresh process -> {alone["result"]} {alone.get("cls")} cause={alone.get("cause")}')
        print(f'  required: {REQUIRED}; and every step ends like the same assembly alone')
        v = judge_sequence(sq, so['steps'], {step_key(st): alone})
        if v:
            for i, sig, what in v:
                print(f'  VIOLATION reproduced: {what}  signature={json.dumps(sig, sort_keys=True)}')
            return 1
        print('  the spec holds on this sequence now')
        return 0
    if 'case' not in rp:
        print(f'[C14] replay: {blob["what"]}\n{json.dumps(rp)[:3000]}')
        return 1
    c = dict(rp['case'])
    c['id'] = 'replay'
    c['text'] = rp.get('source', '')
    c['timeout'] = 60.0 if c.get('must_finish') else WATCHDOG
    o = run_cases(ctx, [c])[0]
    print(f'[C14] replay of {path}')
    print(f'  input: w={c["w"]} version={c["v"]} stl={c["stl"]} source={rp.get("source", "")[:400]!r}')
    print(f'  observed: {json.dumps({k: o.get(k) for k in ("result", "cls", "cause", "catch_all", "frame", "stage", "out_exists", "reader", "debug", "dbg_exists", "dbg_load")})}')
    print(f'            message: {o.get("msg", "")[:300]!r}')
    print(f'  required: {REQUIRED}')
    v = judge(c, o)
    if v:
        for sig, what in v:
            print(f'  VIOLATION reproduced: {what}  signature={json.dumps(sig, sort_keys=True)}')
        return 1
    print('  the spec holds on this input now')
    return 0
