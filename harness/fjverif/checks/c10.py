"""C10: reading an .fjm is total, and damaged or torn files are rejected.

Static part: Properties/C10.v.  Tie: byte strings (every prefix of writer-produced files, single-field corruptions
of header / extension / segment table, payload damage, trailing garbage after a v3 stream, crafted tables, random
strings) are opened with the REAL Reader and with fjm_run.run; the classification (image / read error / other
exception) and the loaded image are compared with Model/Fjm.v evaluated in Coq (check10); the spec is evaluated on
the real behaviour (spec10 in Coq + `judge10` here).
"""
import json
import lzma
import struct

from .. import framework as fw
from . import c06
from .. import loader_source

U64 = (1 << 64) - 1
WB = {8: 1, 16: 2, 32: 4, 64: 8}


# ---- input construction ---------------------------------------------------------------------------
def gen_bases(ctx, n):
    """in-domain writer call sequences -> files written by the real Writer (+ the image the Reader loads from them)"""
    rng = ctx.rng
    cases = []
    while len(cases) < n:
        c = c06.gen_case(rng, allow_bad=False)
        # keep the files small: prefixes are enumerated exhaustively
        if sum(len(op[1]) for op in c['ops'] if op[0] == 'd') * (c['w'] // 8) > 360:
            continue
        c['probes'] = []
        cases.append(c)
    obs = c06.run_cases(ctx, cases)
    bases = []
    for c, o in zip(cases, obs):
        if o['ctor'] and o['write'] == 0 and o['read']['cls'] == 0:
            nseg = len(o['read']['segs'])
            bases.append({'case': c, 'file': bytes.fromhex(o['file']), 'image': o['read'], 'nseg': nseg,
                          'ver': c['ver'], 'w': c['w']})
    return bases


def fields_of(base):
    """(offset, size, name) of every header / extension / segment-table field"""
    f = [(0, 2, 'magic'), (2, 2, 'word_size'), (4, 8, 'version'), (12, 8, 'segment_num')]
    off = 20
    if base['ver'] != 0:
        f += [(20, 8, 'flags'), (28, 4, 'reserved')]
        off = 32
    for i in range(base['nseg']):
        for j, nm in enumerate(('segment_start', 'segment_length', 'data_start', 'data_length')):
            f.append((off + 32 * i + 8 * j, 8, nm))
    return f


def raw_file(rng, ver, w, table, words, flags=0, preset=6):
    b = struct.pack('<HHQQ', 0x4a46, w, ver, len(table))
    if ver != 0:
        b += struct.pack('<QL', flags, 0)
    for t in table:
        b += struct.pack('<QQQQ', *t)
    d = b''.join(int(x).to_bytes(WB[w], 'little') for x in words)
    if ver == 3:
        d = lzma.compress(d, format=lzma.FORMAT_RAW, filters=[{"id": lzma.FILTER_LZMA2, "preset": preset, "nice_len": 2 * w}])
    return b + d


def gen_inputs(ctx, bases):
    """list of dicts: kind, base index (or None), how the bytes derive from the base (for the Coq literal), bytes"""
    rng = ctx.rng
    out = []

    def add(kind, bi, expr, data, **kw):
        d = {'kind': kind, 'base': bi, 'expr': expr, 'data': bytes(data)}
        d.update(kw)
        out.append(d)

    n_all = ctx.n(24, 150)
    for bi, b in enumerate(bases):
        f = b['file']
        add('whole', bi, f'b{bi}', f)
        # torn writes
        if bi < n_all:
            ks = range(len(f))
        else:
            hdr = 20 + (12 if b['ver'] else 0)
            marks = {0, 1, 19, 20, 21, hdr - 1, hdr, hdr + 1, hdr + 32 * b['nseg'], len(f) - 1, len(f) - b['w'] // 8}
            marks |= {hdr + 32 * i + d for i in range(b['nseg'] + 1) for d in (-1, 0, 1, 8)}
            marks |= {rng.randrange(len(f)) for _ in range(12)}
            ks = sorted(k for k in marks if 0 <= k < len(f))
        for k in ks:
            add('prefix', bi, f'(firstn {k} b{bi})', f[:k], k=k)
        # single-field corruption
        for off, size, name in fields_of(b):
            orig = int.from_bytes(f[off:off + size], 'little')
            mx = (1 << (8 * size)) - 1
            vals = {0, 1, mx, (orig + 1) & mx, (orig - 1) & mx, rng.randrange(mx + 1), rng.randrange(0, 9),
                    (orig + 2) & mx, (orig ^ (1 << rng.randrange(8 * size)))}
            if name == 'version':
                vals |= {0, 1, 2, 3, 4}
            if name == 'word_size':
                vals |= {8, 16, 32, 64, 7, 128}
            vals.discard(orig)
            pick = sorted(vals) if bi < ctx.n(40, 10000) else rng.sample(sorted(vals), 3)
            for v in pick:
                p = v.to_bytes(size, 'little')
                add('field', bi, f'(patch b{bi} {off} {c06.blist(p) if size <= 8 else ""})', f[:off] + p + f[off + size:],
                    field=name, value=v)
        # payload damage
        hdr = 20 + (12 if b['ver'] else 0) + 32 * b['nseg']
        if len(f) > hdr:
            for _ in range(5):
                off = rng.randrange(hdr, len(f))
                v = (f[off] ^ (1 << rng.randrange(8)))
                add('payload-byte', bi, f'(patch b{bi} {off} [{v}])', f[:off] + bytes([v]) + f[off + 1:])
        for _ in range(3):
            extra = bytes(rng.randrange(256) for _ in range(rng.choice((1, 2, 3, 7, 8, 16))))
            add('trailing-garbage', bi, f'(b{bi} ++ {byteslit(extra)})', f + extra)
        if b['ver'] == 3:
            add('trailing-zero', bi, f'(b{bi} ++ [0])', f + b'\x00')
            second = lzma.compress(bytes(rng.randrange(4) for _ in range(b['w'] // 8 * 2)), format=lzma.FORMAT_RAW,
                                   filters=[{"id": lzma.FILTER_LZMA2, "preset": 1}])
            add('second-stream', bi, f'(b{bi} ++ {byteslit(second)})', f + second)
    # crafted tables over a small pool (header fine; table entries from small / boundary values)
    for _ in range(ctx.n(700, 8000)):
        w = rng.choice((8, 16, 32, 64))
        ver = rng.randrange(4)
        npool = rng.choice((0, 2, 4, 4, 6, 8, 9))
        nseg = rng.choice((1, 1, 2, 2, 3))
        table = []
        for _ in range(nseg):
            dl = rng.choice((0, 2, 2, 4, 6, 1, 3))
            ds = rng.choice((0, 0, 1, 2, 4, npool - dl if npool >= dl else 0, npool))
            sl = rng.choice((0, 1, 2, 4, dl, dl + 2, dl + 998, dl + 999, dl + 1000, dl + 1001, max(0, dl - 2), 3, 1 << 40, U64))
            ss = rng.choice((0, 0, 2, 4, 6, 1, 3, 1 << 20, U64 - 1, U64 - 3, (1 << 58) - 2))
            table.append((ss, sl, ds, dl))
        words = [rng.randrange(1 << w) if rng.random() < 0.5 else rng.randrange(4) for _ in range(npool)]
        data = raw_file(rng, ver, w, table, words, flags=rng.choice((0, 5)))
        if rng.random() < 0.1:
            data += bytes([rng.randrange(256)])
        add('crafted-table', None, byteslit(data), data)
    # segments at the very end of the 64-bit word-address space (consistent tables)
    for w in (8, 16, 32, 64):
        for ver in range(4):
            for ss, sl in (((1 << 64) - 2, 2), ((1 << 64) - 4, 2), ((1 << 64) - 4, 4), ((1 << 64) - 2, 1002)):
                data = raw_file(rng, ver, w, [(0, 2, 0, 2), (ss, sl, 2, 2)], [0, 0, 0, 0])
                add('edge-of-address-space', None, byteslit(data), data)
    # tiny files with huge claims: segment counts the bytes cannot hold, segment lengths / starts near 2^60..2^64
    for w in (8, 16, 32, 64):
        for ver in range(4):
            hdr = struct.pack('<HHQQ', 0x4a46, w, ver, 0) + (struct.pack('<QL', 0, 0) if ver else b'')
            for cnt in (1 << 40, (1 << 64) - 1, 1 << 63, 3, 2):
                body = bytes(rng.randrange(256) for _ in range(rng.choice((0, 8, 28, 32, 40))))
                data = hdr[:12] + struct.pack('<Q', cnt) + hdr[20:] + body
                add('huge-claims', None, byteslit(data), data)
            for ss, sl, dl in ((0, 1 << 60, 2), (0, (1 << 64) - 2, 0), (1 << 62, 1 << 60, 2), (0, 1 << 60, 0),
                               ((1 << 63), (1 << 63) - 2, 2), (0, 1000 + 2, 2), (0, 998 + 2, 2)):
                data = raw_file(rng, ver, w, [(ss, sl, 0, dl), (sl + ss if ss + 2 * sl < (1 << 64) else 2, 2, 0, 2)][:rng.choice((1, 2))],
                                [1, 2])
                add('huge-claims', None, byteslit(data), data)
    # random byte strings, with and without a plausible header
    for _ in range(ctx.n(400, 6000)):
        n = rng.choice((0, 1, 5, 19, 20, 21, 31, 32, 33, 52, 64, 65, 100, rng.randrange(0, 200)))
        data = bytearray(rng.randrange(256) for _ in range(n))
        r = rng.random()
        if r < 0.7 and n >= 20:
            data[0:2] = b'FJ'
            data[2:4] = struct.pack('<H', rng.choice((8, 16, 32, 64, 64, 5)))
            data[4:12] = struct.pack('<Q', rng.choice((0, 1, 2, 3, 3, 4, 1 << 63)))
            data[12:20] = struct.pack('<Q', rng.choice((0, 0, 1, 1, 2, 3, U64)))
            if n >= 32 and rng.random() < 0.8:
                data[28:32] = b'\0\0\0\0'
        add('random', None, byteslit(data), data)
    return out


def byteslit(b):
    return '[' + ';'.join(str(x) for x in bytes(b)) + ']' if len(b) <= 40 else c06.blist(b)


# ---- running ----------------------------------------------------------------------------------------
def run_inputs(ctx, inputs, so):
    payload = [{'file': x['data'].hex(), 'run': ('native' if i % 2 == 0 else 'fast')} for i, x in enumerate(inputs)]
    n = len(payload)
    batch = max(1, (n + fw.NCPU * 2 - 1) // (fw.NCPU * 2))
    chunks = [{'mode': 'c10', 'cases': payload[i:i + batch]} for i in range(0, n, batch)]
    outs = fw.run_workers_parallel(ctx, 'fjm', chunks, extra_env={'FJVERIF_FJCORE_SO': str(so)} if so else None)
    return [o for out in outs for o in out]


def coq_case10(x, o):
    rd = o['read']
    img = rd['cls'] == 0
    lz = 'None' if o['lz'] is None else f'(Some {c06.blist(bytes.fromhex(o["lz"]))})'
    return (f'mk10 {x["expr"]} {o["off"]} {lz} {rd["cls"]} {o["run"]} '
            f'{rd["w"] if img else 0} {rd["ver"] if img else 0} '
            f'{fw.npairs(rd["segs"]) if img else "[]"} {c06.memlit(rd["mem"]) if img else "[]"} '
            f'{fw.npairs(rd["zeros"]) if img else "[]"} {c06.quads(o["table"]) if img else "[]"} {o.get("pool", 0)}')


# ---- the spec on the observed behaviour ---------------------------------------------------------------
def table_defect(table, pool):
    """None when the table is consistent, else the first inconsistency (sub-class of the signature)"""
    for ss, sl, ds, dl in table:
        if sl == 0:
            return 'zero-segment-length'
        if ss % 2:
            return 'odd-segment-start'
        if sl % 2:
            return 'odd-segment-length'
        if dl > sl:
            return 'data_length>segment_length'
        if dl % 2:
            return 'odd-data-length'
        if ds + dl > pool:
            return 'data-range-beyond-pool'
    for i, a in enumerate(table):
        for b in table[i + 1:]:
            if not (a[0] + a[1] <= b[0] or b[0] + b[1] <= a[0]):
                return 'overlapping-segments'
    return None


def judge10(x, o, bases):
    """list of (signature, text)"""
    v = []
    rd = o['read']
    if rd['cls'] == 2:
        v.append(({'kind': 'reader-other-exception', 'exc': rd['exc']},
                  f'Reader raised {rd["exc"]} ({rd.get("msg")}) instead of FlipJumpReadFjmException'))
    if x['kind'] == 'huge-claims' and o.get('t_read', 0) > 5.0:
        v.append(({'kind': 'reader-slow-on-tiny-file'}, f'Reader took {o["t_read"]} s on a {len(x["data"])}-byte file'))
    if o['run'] == 2:
        tab = 'not-loaded' if rd['cls'] != 0 else 'inconsistent' if table_defect(o['table'], o['pool']) else 'consistent'
        v.append(({'kind': 'run-other-exception', 'exc': o.get('run_exc'), 'table': tab},
                  f'fjm_run.run raised {o.get("run_exc")} on a file the Reader '
                  f'{"rejects" if rd["cls"] else "loads"} (segment table {tab}: {o.get("table")})'))
    if rd['cls'] == 0:
        sub = table_defect(o['table'], o['pool'])
        if sub:
            v.append(({'kind': 'reader-accepts-inconsistent-table', 'sub': sub},
                      f'Reader accepts a file whose segment table is inconsistent ({sub}): table={o["table"]} pool={o["pool"]} words'))
        # C10_bounded on the real Reader: entries / ranges bounded by the bytes, not by the values in the table
        n, pool = o['nseg'], o['pool']
        if not (len(rd['segs']) == n and o['hdr'] + 32 * n <= len(x['data']) and pool * o['wb'] <= o['fd_len']
                and o['memsize'] <= n * (pool + 999) and len(rd['zeros']) <= n):
            v.append(({'kind': 'allocation-exceeds-bound'},
                      f'Reader built {o["memsize"]} memory entries / {len(rd["zeros"])} zero ranges / {len(rd["segs"])} segments from a '
                      f'{len(x["data"])}-byte file with {n} table entries and a {pool}-word pool (bound: n*(pool+999) entries, n ranges)'))
        if x['kind'] == 'prefix':
            bi = bases[x['base']]['image']
            if (rd['segs'], rd['mem'], rd['zeros'], rd['w']) != (bi['segs'], bi['mem'], bi['zeros'], bi['w']):
                v.append(({'kind': 'torn-prefix-loads-different-image'},
                          f'the first {x["k"]} bytes of a written file load as a different image'))
    return v


def run(ctx):
    # T-gen for the loading stage of Model/Fjm.v: Reader._init_memory / _validate_segments are re-translated from the current
    # source into the IR of Model/PyIR.v and proved equal to the hand model (Tie/Loader_tie.v, Properties/C10_source.v)
    src_props, src_targets = loader_source.prepare(ctx)
    fw.static_proofs(ctx, ['Properties/C10.v'] + src_props, extra_targets=src_targets)
    pr = c06.probe_tree(ctx)
    c06.tie_constants(ctx, pr)
    so = fw.build_fjcore(ctx)
    bases = gen_bases(ctx, ctx.n(64, 500))
    inputs = gen_inputs(ctx, bases)
    obs = run_inputs(ctx, inputs, so)
    header = c06.HEADER + ''.join(f'Definition b{i} : bytes := {c06.blist(b["file"])}.\n' for i, b in enumerate(bases))
    terms = []
    maxratio = 0.0
    for x, o in zip(inputs, obs):
        rd = o['read']
        ctx.count(x['data'], x['kind'] != 'whole')
        ctx.hist('input_kind', x['kind'])
        ctx.hist('class_by_kind', f'{x["kind"]}:{("image", "read-error", "other")[rd["cls"]]}')
        ctx.hist('run_class', {0: 'past-loading', 1: 'read-error', 2: 'other', 9: 'not-run'}[o['run']])
        if rd['cls'] == 1:
            m = rd['msg']
            ctx.hist('read_error_message', "Bad file ..., can't unpack (struct.error)" if m.startswith('Bad file') else
                     m.split('(')[0].split('[')[0].split(', got')[0][:48])
        if rd['cls'] == 0:
            maxratio = max(maxratio, o['memsize'] / max(1, len(x['data'])))
        if x['kind'] == 'prefix' and bases[x['base']]['ver'] == 3 and x['k'] >= 32 + 32 * bases[x['base']]['nseg']:
            # premise of C10_torn: a strict prefix of the raw LZMA2 stream does not decode
            ctx.hist('lzma_strict_prefix', 'does-not-decode' if o['lz'] is None else 'DECODES')
            if o['lz'] is not None:
                ctx.broken_tie('premise of C10_torn (a strict prefix of a raw LZMA2 stream does not decode)',
                               json.dumps({'file_hex': x['data'].hex(), 'k': x['k']})[:3000])
        for sig, what in judge10(x, o, bases):
            ctx.violation(sig, f'C10 ({x["kind"]}): {what}',
                          {'file_hex': x['data'].hex(), 'kind': x['kind'], 'observed': {k: o[k] for k in o if k != 'lz'},
                           'required': 'an image or FlipJumpReadFjmException; a torn prefix is rejected or loads the same '
                                       'image; an accepted file has a consistent segment table',
                           'how': './check C10 --replay <this file>'})
        terms.append(coq_case10(x, o))
    ctx.coverage['max_memory_entries_per_file_byte'] = round(maxratio, 2)
    for x, o in [(x, o) for x, o in zip(inputs, obs) if x['kind'] in ('prefix', 'field', 'crafted-table')][:4]:
        ctx.sample({'kind': x['kind'], 'file_hex': x['data'].hex()[:400], 'reader_class': o['read']['cls'], 'run_class': o['run'],
                    'message': o['read'].get('msg')})
    # the reader model with the regenerated stage (PyIR.exec in Coq) against the same observations
    loader_source.compare(ctx, header, [(t, o['read']['cls'] == 0 or o['read'].get('msg', '').startswith('Bad .fjm file'))
                                        for t, o in zip(terms, obs)])
    codes = c06.eval_codes(ctx, 'c10', header, terms, 'code10', shard=max(60, len(terms) // (fw.NCPU * 3) + 1))
    for k, code in enumerate(codes):
        if code is None:
            continue
        x, o = inputs[k], obs[k]
        pj = judge10(x, o, bases)
        spec_py = not [s for s, _ in pj if s['kind'] not in ('torn-prefix-loads-different-image', 'allocation-exceeds-bound',
                                                           'reader-slow-on-tiny-file')]
        if bool(code & 2) != spec_py:
            ctx.broken_tie('spec10 (Coq) vs judge10 (python) disagree', json.dumps({'file': x['data'].hex(), 'coq': code})[:2000])
        if code & 1:
            continue
        if pj:
            continue
        rc, model = fw.coq_eval_term(ctx, f'c10_diag{k}', header,
                                     f'let c := {terms[k]} in match read (lz_oracle c) (t_file c) with '
                                     f'ROk i => (0, i_segs i, i_zeros i) | RErr _ => (1, [], []) | RRaw _ => (2, [], []) end')
        ctx.broken_tie('C10 correspondence (model Model/Fjm.v vs fjm_reader / fjm_run)',
                       json.dumps({'kind': x['kind'], 'file_hex': x['data'].hex(), 'observed': {k2: o[k2] for k2 in o if k2 != 'lz'},
                                   'model': model[-800:]}, default=str)[:6000])
    ctx.coverage['rule'] = ('files written by the real Writer (in-domain call sequences, 4 widths x 4 versions): every strict prefix '
                            '(all k for the first files, structure boundaries + random k for the rest); each header/extension/'
                            'table field set to 0, 1, max, +-1, +2, one flipped bit, random; payload bytes damaged; trailing '
                            'garbage / second stream after the payload; crafted small tables; random strings with and without a '
                            'plausible header; tiny files with huge claims (segment_num 2^40..2^64-1 in a 20..72-byte file, lengths 2^60..2^64); the '
                            'C10_bounded inequality (entries <= n*(pool+999), ranges <= n, table inside the bytes) is checked on every '
                            'accepted file.  Each opened with Reader() and fjm_run.run (native rebuilt from _fjcore.c, and fast). '
                            'distinct = distinct byte strings; non-trivial = not an unmodified file')
    ctx.assumptions += ['liblzma is an oracle (the model is given the real decoder\'s answer on the payload); C10_torn assumes a '
                        'strict prefix of a raw LZMA2 stream does not decode (observed on every v3 prefix of this run)',
                        'decompression bombs are outside the bound on allocation (DESIGN C10, not covered)',
                        'fjm_run.run is classified under a 0.4 s watchdog: still running = got past loading']


def replay(ctx, path):
    blob = json.loads(open(path).read())
    rp = blob['replay']
    if 'file_hex' not in rp:
        print(f'[C10] replay: {blob["what"]}\n{json.dumps(rp)[:3000]}')
        return 1
    x = {'kind': 'replay', 'data': bytes.fromhex(rp['file_hex']), 'base': None}
    so = fw.build_fjcore(ctx)
    o = run_inputs(ctx, [x], so)[0]
    v = judge10(x, o, [])
    print(f'[C10] replay of {path}: {len(x["data"])} bytes ({rp.get("kind")})')
    print(f'  observed: Reader -> {("image", "read error", "other exception")[o["read"]["cls"]]} {o["read"].get("msg", "")} '
          f'{o["read"].get("exc", "")}; run -> {o["run"]}; table={o.get("table")} pool={o.get("pool")}')
    print('  required: image or FlipJumpReadFjmException; an accepted file has a consistent table')
    if rp.get('kind') == 'prefix' and blob['signature'].get('kind') == 'torn-prefix-loads-different-image':
        print('  (torn-prefix replays need the whole file; re-run ./check C10 for the comparison)')
        return 1
    if v:
        for sig, what in v:
            print(f'  VIOLATION reproduced: {what} signature={sig}')
        return 1
    print('  the spec holds on this input now')
    return 0
