"""Regenerates the two tables of DESIGN.md section 11.3 from known_findings.json
(python -m fjverif.ledger rewrites the text between the LEDGER markers)."""
import json
import os
import re

ROOT = os.path.dirname(os.path.dirname(os.path.dirname(os.path.abspath(__file__))))


def cell(t, n=100000):
    t = re.sub(r'^fixed: property=\S+ \S+ ', '', t).replace('|', '\\|').replace('\n', ' ')
    return t[:n]


def render():
    d = json.load(open(os.path.join(ROOT, 'known_findings.json')))
    out = ['**Fixed in `/repo`**', '', '| id | property | commit | what failed |', '|----|----------|--------|-------------|']
    for e in d['fixed']:
        out.append(f"| {e['id']} | {e['property']} | `{e['commit']}` | {cell(e['what'])} |")
    out += ['', '**Recorded as known findings** (not small or not safe to repair here)', '',
            '| id | property | what fails |', '|----|----------|-----------|']
    seen = set()
    for e in d['findings']:
        key = (e['id'], e['property'], e['what'])       # one finding may be listed under several match signatures
        if key in seen:
            continue
        seen.add(key)
        out.append(f"| {e['id']} | {e['property']} | {cell(e['what'])} |")
    return '\n'.join(out)


def main():
    p = os.path.join(ROOT, 'DESIGN.md')
    s = open(p).read()
    a, b = '<!-- LEDGER-BEGIN -->', '<!-- LEDGER-END -->'
    i, j = s.index(a), s.index(b)
    s = s[:i + len(a)] + '\n' + render() + '\n' + s[j:]
    open(p, 'w').write(s)


if __name__ == '__main__':
    main()
