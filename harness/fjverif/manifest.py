"""Regenerates /verif/MANIFEST.json from the table below (python -m fjverif.manifest)."""
import json
from pathlib import Path

VERIF = Path(__file__).resolve().parents[2]

CLAIMED = {
    'C01': dict(
        category='proof',
        text='Machine definition in Coq (Spec/MachineSpec.v); Qed-closed refinement theorems C01_featured / C01_fast: the '
             'transcriptions of _run_featured and _run_fast (Model/EngPy.v) compute exactly the machine definition for every '
             'width >= 8, image representation, input and step count; the native engine is tied to the definition by the '
             'differential campaign (and by Model/EngNative.v where its refinement is proved); every campaign case is '
             'evaluated inside Coq (vm_compute) on the definition and on the engine models.',
        design_ref='DESIGN.md section 4, C01',
        note='Coq kernel + vm_compute; hand transcriptions tied to the code by per-run correspondence on generated images x '
             '3 engines; C text, compiler and CPython not modelled; known finding F1 (w=64 top-of-address-space wrap).',
        technique='Coq refinement proofs (engine models = machine definition) + model/implementation correspondence evaluated in Coq'),
    'C02': dict(
        category='proof',
        text='Denotation spec (Spec/DenoteSpec.v) with a proved-sound checker (C02_check_denotes_sound, Qed) that is evaluated '
             'inside Coq on the real assembler\'s image, segments and label table for every generated primitive program '
             '(x w in {8,16,32,64} x fjm v0..3), including wflip chains executed on the machine definition; exact '
             'correspondence with the executable layout model Model/Layout.v; universal theorems for the address/label '
             'clauses and the emitted-segment invariant.',
        design_ref='DESIGN.md section 4, C02',
        note='C02_sound / C02_rejects for the full layout (op words, reserved ranges, chain structure and execution) are not yet '
             'proved (statements visible as C02_sound_statement / C02_rejects_statement); per-program decisions rest on the '
             'certified checker plus vm_compute; lexing and LALR parsing are shared with the implementation through the AST '
             'dump; known findings F16, F17, F18.',
        technique='Coq-certified per-program checker (soundness theorem) + layout model correspondence + partial universal theorems'),
    'C07': dict(
        category='proof',
        text='Every observable (cause, ops, fault address, output, last-ops list, final in-segment words read back through '
             'DeviceMemory) of the native engine under random storage knobs (flat window sizes, forced paged, measurement '
             'loop, ring lengths) and of the fast engine is compared inside Coq with the single machine definition, whose '
             'halting result is proved unique; layout independence is the corollary "all equal the definition".',
        design_ref='DESIGN.md section 4, C07',
        note='Universal statement proved for the definition and the Python engines (C01 theorems); for the C storage layouts the '
             'tie is the correspondence campaign with directed geometry (page edges, window edges, 2^20..2^58, fill-constant '
             'collisions); known finding F1; F14 fixed.',
        technique='Coq machine definition + correspondence of the native engine under all storage knobs evaluated in Coq'),
    'C11': dict(
        category='proof',
        text='Index-arithmetic safety is stated on a Gallina model of _fjcore.c with checked array accesses (coq/Model/NativeSafe.v '
             'when built); ownership of Python objects and host-crash freedom are runtime facts decided dynamically by an '
             'ASan+UBSan build of the current _fjcore.c driven with adversarial segment tables, knobs and device/API call '
             'sequences.',
        design_ref='DESIGN.md section 4, C11',
        note='partial: the theorem covers the model\'s index arithmetic; reference counts, allocator and CPython C-API behaviour '
             'are only exercised under sanitizers.',
        technique='Coq proof of index safety on a checked-array model + sanitizer campaign on the real C code'),
    'C18': dict(
        category='proof',
        text='Qed-closed theorems on the machine with a failing device: a device exception at call k stops the run exactly at '
             'an op boundary of the failure-free machine (memory, input, ip, op count), and runs that end earlier equal the '
             'definition; the except ladder is modelled; every IO call index x 4 exception kinds x 3 engines is enumerated per '
             'generated program and compared in Coq.',
        design_ref='DESIGN.md section 4, C18',
        note='partial: asynchronous signal delivery at an arbitrary instruction is a runtime behaviour the model cannot '
             'exhibit; only device-raised KeyboardInterrupt is enumerated. Known finding F12.',
        technique='Coq prefix-consistency theorems + complete fault enumeration per program compared in Coq'),
}

PENDING_REASON = 'check not built yet in this round (planned per DESIGN.md section 4); not claimed until its theorems and correspondence exist'


def main():
    props = [json.loads(l)['id'] for l in (VERIF / 'properties.jsonl').read_text().splitlines() if l.strip()]
    checks = []
    for p in props:
        if p in CLAIMED:
            c = CLAIMED[p]
            checks.append({
                'property_id': p,
                'quick_cmd': f'./check {p} --tier quick',
                'thorough_cmd': f'./check {p} --tier thorough',
                'evidence_file': f'evidence/{p}.json',
                'replay_cmd_template': f'./check {p} --replay {{path}}',
                'engine': 'coq',
                'level_claimed': {'category': c['category'], 'text': c['text'], 'design_ref': c['design_ref']},
                'level_note': c['note'],
                'technique': c['technique'],
            })
    man = {
        'version': 1,
        'setup_cmd': './setup.sh',
        'hooks': {'guard': 'FLIPJUMP_VERIF', 'enable': 'no hooks are needed: every observable is reachable through the public API',
                  'baseline_off_cmd': 'cd /repo && /venv/bin/python -m pytest -ra -q -p no:cacheprovider --timeout=900 --continue-on-collection-errors',
                  'source_commits': [], 'add_only': True},
        'engines': [{'name': 'coq', 'path': 'coq/', 'serves_properties': sorted(CLAIMED),
                     'kind_free_text': 'Coq 8.16.1 development (models, theorems) + Python harness evaluating the models with vm_compute against the implementation'}],
        'checks': checks,
        'notes': 'See DESIGN.md. known_findings.json lists recorded findings and fix: commits.',
        'not_applicable': [{'property_id': p, 'reason': PENDING_REASON} for p in props if p not in CLAIMED],
    }
    (VERIF / 'MANIFEST.json').write_text(json.dumps(man, indent=1) + '\n')


if __name__ == '__main__':
    main()
