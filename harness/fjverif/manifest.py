"""Regenerates /verif/MANIFEST.json from the table below (python -m fjverif.manifest)."""
import json
from pathlib import Path

VERIF = Path(__file__).resolve().parents[2]

CLAIMED = {
    'C01': dict(
        category='proof',
        text='Machine definition in Coq (Spec/MachineSpec.v); Qed-closed refinement theorems C01_featured / C01_fast: the '
             'transcriptions of _run_featured and _run_fast (Model/EngPy.v) compute exactly the machine definition for every '
             'width >= 8, image representation, input and step count; C01_native_* (Properties/C01_native.v): the executable '
             'transcription of _fjcore.c (flat/hybrid/paged storage, page cache, flat, paged, ring and measured loops, storage '
             'decision, loader, ring read-out) refines the machine definition for all images, inputs and knobs '
             '(C01_native_end_to_end); every campaign case is evaluated inside Coq (vm_compute) on the definition and on the '
             'three engine models. Proved end to end from the file (Properties/C01_end_to_end.v): for every writer call '
             'sequence the library accepts, reading the written file and running it on the featured, fast and native models '
             '(loaded exactly as fjm_run._run_native groups the Reader\'s dict, every storage layout and knob) gives the cause '
             'with fault address, op count, output, remaining input, last-ops list and final in-segment memory of the machine '
             'definition on the declared image (C01_file_run_python, C01_file_run_native, C01_file_run_all_engines_agree). '
             'Source tie (Properties/C01_source.v): the Reader memory methods and the bodies of _run_fast/_run_featured are '
             're-translated from the current Python source on every run (gen_facts_engpy.py -> Gen/Facts_EngPy.v, IR of '
             'Model/PyIR.v) and proved equal to Model/EngPy.v for every state, then composed into a refinement of the machine.',
        design_ref='DESIGN.md section 4, C01',
        note='Coq kernel + vm_compute; hand transcriptions tied to the code by per-run correspondence on generated images x '
             '3 engines (cause/ops/fault/output/last-ops/read-back/storage mode); the native theorems are guarded only by '
             'top_guard = known finding F1 (no op in the last 2w bits at w=64; C01_native_refuted is the witness); the slot '
             'table is abstracted as a finite map, OOM/signals/IO-callback exceptions are not modelled; C text, compiler and '
             'CPython are tied by the campaign, not proved.',
        technique='Coq refinement proofs (engine models = machine definition) + Python-source translator with kernel-checked equality to the model + model/implementation correspondence evaluated in Coq'),
    'C02': dict(
        category='proof',
        text='C02_sound (Qed, one theorem): for every primitive program, width and fjm version, if the transcription of the '
             'assembler (Model/Layout.v: preprocessor for primitive statements, BinaryData with the wflip sharing table and '
             'pad-hole reuse, labels_resolve, writer and reader) returns an image, that image satisfies the denotation spec '
             'Spec/DenoteSpec.v: statement addresses, labels, op words, reserved zero ranges, loadable segments, and every '
             'wflip statement EXECUTED ON THE MACHINE DEFINITION flips exactly the set bits of v in word a, each once, in '
             'max 1 (popcount v) ops, and arrives at r, with auxiliary ops only in pad holes / the wflip area and never on the '
             'input cell (C02_wflip_chain_invariant, C02_wflip_exec). C02_check_denotes_sound: a proved-sound checker evaluated '
             'inside Coq on the REAL assembler\'s image, segments and label table for every generated program (x w in '
             '{8,16,32,64} x fjm v0..3), plus exact image correspondence with Layout.v; rejections compared by error class.',
        design_ref='DESIGN.md section 4, C02',
        note='C02_sound has one hypothesis, lexical_labels: no label statement is spelled `:wflips:...` - a property of parser '
             'output (lexer identifiers never contain `:`), not a defect guard. The theorems are about the transcription, tied '
             'to the code per run by exact image correspondence and the certified checker on real output; lexing and LALR '
             'parsing are shared with the implementation through the AST dump. F8, F16, F17, F18 fixed.',
        technique='Coq soundness theorem of the assembler model w.r.t. a denotation spec (wflip chains run on the machine) + certified per-program checker on real output'),
    'C03': dict(
        category='proof',
        text='Textual inliner spec (Spec/InlineSpec.v) and full transcription of the preprocessor (Model/Macro.v). Qed theorems: '
             'C03_inline (the preprocessor model expands a well-formed macro tree to exactly the op list of its spec-inlined '
             'macro-free program, labels equal up to debug start labels), C03_subst_once (arguments are substituted once, never '
             're-substituted), C03_inline_any_naming (for every naming of the local labels that is injective on (expansion '
             'path, label) and avoids the program\'s own names, the inlined macro-free program resolves to the same op values: '
             'image equality up to label names), C03_rep / C03_rep_zero, C03_fresh / C03_fresh_paths (generated names never collide with user '
             'names and are injective in the expansion path), C03_split, C03_ns_resolve. Per run: generated macro programs '
             'assembled by the real assembler as (a) macro program, (b) inliner output, (c) split files - identical images '
             'required - and Macro.v / the C03_inline conclusion / wf_tree evaluated in Coq on the real parser\'s tree.',
        design_ref='DESIGN.md section 4, C03',
        note='C03_inline_any_naming covers every admissible naming (C03_admissible_namings: the code\'s own and a tagged one); '
             'the harness\'s position-based naming is evaluated on the real code, its admissibility is not proved. Rep counts that '
             'depend on label addresses are outside `inline`; `$` in call arguments is excluded (known finding F20); file '
             'short names are assumed to be identifiers; lexer/LALR parser shared through the tree dump.',
        technique='Coq simulation proof (preprocessor model = expansion of the spec-inlined program) + the property evaluated on the real assembler'),
    'C04': dict(
        category='proof',
        text='Theorems by kernel computation on images regenerated from the current stl and assembler on every run: for each '
             'documented hex macro (memory, logic, arithmetic incl. mul/div/idiv, shifts, comparisons) and each instance '
             '(n, w) a generated theorem `forall operands in the stated finite domain, block_correct` (the frame equation: '
             'final memory = image patched with the documented result on EVERY word modulo a declared scratch mask, exit '
             'marker, halting) proved by vm_compute of an exhaustive forallb + a Qed lifting lemma (check_block_sound, '
             'blocks_by_enumeration); pair-composition harnesses; sampled larger sizes run on the real engines.'
             ' For hex.add/sub/xor/or/and/not/inc/dec/cmp at n = 16 (64-bit vectors; thorough also w = 32 and n = 5, 8) and bit.xor/not/add at n = 64 the frame equation is proved for ALL operand values below 16^n / 2^n by COMPOSITION, not enumeration: per digit position a finite digit lemma (all digit values x all declared carry/state-cell values, computed on the regenerated image, whole footprint compared), lifted by the machine\'s locality theorem (Proofs/Locality.v) and combined by induction with the carry-chain arithmetic (Properties/C04_compositional.v, C05_compositional.v).',
        design_ref='DESIGN.md section 4, C04/C05/C08/C09',
        note='Bounds are in every theorem statement: exhaustive operands for the instance sizes (hex n <= 2), w in {32, 64}; '
             'larger n and arbitrary macro sequences are sampled on the real engines (tests, not proofs). The image is the '
             'artefact the user runs; the assembler that produced it and the engines are tied by C01-C03/C12. F21 fixed.',
        technique='Coq theorems by computation (exhaustive finite domains, stated) on regenerated images + frame lemma'),
    'C05': dict(
        category='proof',
        text='Same machinery as C04 for the bit namespace (memory, logic with exact/zero variants, conditional jumps, shifts '
             'and rotates, inc/dec/neg/add/sub/mul/mul10/div/idiv and loop variants, div10): generated per-instance theorems '
             '`forall operands in the stated finite domain, block_correct` by exhaustive vm_compute + Qed lifting lemmas, '
             'w in {16, 32, 64}. bit.xor/not/add at n = 64 are proved for ALL operands by composition (digit lemmas + locality '
             '+ carry-chain induction, Properties/C05_compositional.v).',
        design_ref='DESIGN.md section 4, C04/C05/C08/C09',
        note='Exhaustive for the instance sizes stated in each theorem (bit n <= 8 where op counts allow); larger n and arbitrary '
             'sequences sampled on the real engines. F22 (idiv by zero), F23 (mul10 n=1) fixed.',
        technique='Coq theorems by computation (exhaustive finite domains, stated) on regenerated images + frame lemma'),
    'C06': dict(
        category='proof',
        text='Qed-closed universal theorems (Properties/C06.v) about the Gallina model of fjm_writer/fjm_reader: round trip for '
             'every accepted call sequence x width x version x flags x zero-tail threshold (C06_roundtrip), version '
             'independence, dense/lazy zero-tail independence, relative-jump cancellation, the writer ends only in its own '
             'error (C06_unrepresentable_rejected) and what it accepts is representable. Source tie (Properties/C06_source.v '
             'and C10_source.v): Writer.add_data / add_segment (with every validation helper and the relative-jump rewrite) / '
             'write_to_file and Reader._validate_segments / _init_memory are re-translated from the current Python source on '
             'every run (IR of Model/PyIR.v) and proved equal to the model for every state, argument and compressor.',
        design_ref='DESIGN.md section 4, C06',
        note='Premises: decompress(compress x)=x for liblzma (the real codec answers are fed to the model each run); pool and '
             'table lengths below 2^64. The hand-written model is tied to /repo each run by a differential campaign evaluated '
             'with vm_compute inside Coq, plus the spec evaluated on the real behaviour. Version independence of assembled '
             'programs and get_word\'s address mask are campaign-only. F3-F5 fixed.',
        technique='Coq round-trip / codec theorems on a writer+reader model + Python-source translator with kernel-checked equality to the model + correspondence campaign evaluated in Coq'),
    'C08': dict(
        category='proof',
        text='Theorems by kernel computation on images regenerated from the current stl and assembler on every run: for each '
             'documented pointer macro of stl/hex/pointers/*.fj, stl/ptrlib.fj and stl/bit/pointers.fj a generated theorem '
             '`forall operands in the stated explicit-list domain, ptr_block_correct` (frame equation on EVERY memory word '
             'modulo a declared scratch mask, exit marker, halting, plus consistency of the library\'s shared pointer ops with '
             'their variable copies). The pointer ranges over the address of every cell of a buffer, the pointed cell over every '
             'stored hex/byte, indices over -k..k; ordered pairs of dereferences through two pointers; every balanced push/pop '
             'word up to length 6 (length 8: all shapes with a covering set of kinds) against an abstract LIFO stack with sp '
             'restored; call trees and shared sub-routines over call/return, call-with-params and fcall/fret whose output equals '
             'the trace of the abstract call tree. Exhaustive forallb by vm_compute plus Qed lifting lemmas (check_ptr_block_sound, '
             'ptr_blocks_by_list_enumeration, ldom_split_at, udom_cons); failing operands are confirmed on the real engines.',
        design_ref='DESIGN.md section 4, C04/C05/C08/C09',
        note='Bounds are in every theorem statement: 4-cell buffers placed across a 32-op boundary, w in {32, 64} (bit namespace '
             '{16, 32, 64}), all 256 byte values of the target cell in thorough (22 representative bytes in quick). Each block '
             'starts from the initial library state; residue between dereferences is covered by the ordered-pair blocks and the '
             'consistency clause, not for arbitrary sequences (partial). Stack cells above sp are scratch in their byte bits; '
             'call trees are a generated finite family, no recursion. F27 fixed.',
        technique='Coq theorems by computation (exhaustive explicit-list domains, stated) on regenerated images + frame / pointer-consistency lemmas'),
    'C09': dict(
        category='proof',
        text='Theorems by kernel computation on images regenerated from the current stl and assembler on every run: for each '
             'documented input/print/cast/buffer macro and each instance (n, w) a generated theorem `forall values in the '
             'stated ranges and ALL input byte strings over the stated alphabet up to the stated length, block_correct_io` '
             '(frame equation with IO: exact output bytes, exact input bits consumed, documented exit, every memory word = image '
             'patched with the documented values modulo declared scratch; cause EOF exactly when the input ends first), by '
             'exhaustive vm_compute + Qed lifting lemmas (C09_checker_decides_io_frame_equation, C09_enumeration_is_universal, '
             'C09_strings_over_alphabet); specs transcribed from the doc comments (Spec/StlIOSpec.v).',
        design_ref='DESIGN.md section 4, C04/C05/C08/C09',
        note='Exhaustive only over the stated finite domains: print macros over all values up to 16 bits, single-byte/hex-digit '
             'readers over ALL byte strings of length <= 2, decimal/line readers over all strings of length <= 3 (quick) / 4 '
             '(thorough) on a SAMPLED 12-/7-/16-symbol class alphabet (named in each theorem), casts exhaustive on sizes <= 16 '
             'bits, buffers of <= 3 cells; larger sizes and longer inputs are sampled on the real engines (tests). bit.input n '
             'byte order (known finding F24) is excluded by an explicit guard with _refuted examples and proved in its as-built '
             'form; error-exit destinations are left open as the documentation does; w in {32,64}. F25 fixed.',
        technique='Coq theorems by computation (exhaustive finite domains incl. input strings, stated) on regenerated images + IO frame lemma'),
    'C10': dict(
        category='proof',
        text='C10_total (every byte string and every decoder behaviour ends in an image or the read error), C10_bounded / '
             'C10_segment_count_checked (entries <= segment_num x (pool + 999), ranges <= segment_num, independent of the start/'
             'length values in the table; a claimed segment count the file cannot hold is rejected after <= |file|/32 + 1 reads), '
             'C10_consistent '
             '(an accepted file has a consistent table), C10_torn (every strict prefix of every writer-produced file is '
             'rejected or loads the same Reader state), on the model of Reader.__init__; campaign over every prefix, every '
             'single-field corruption, payload damage and random strings, through Reader and fjm_run.run. Source tie '
             '(Properties/C10_source.v): Reader._validate_segments and Reader._init_memory are re-translated from the current '
             'Python source on every run (gen_facts_loader.py, IR of Model/PyIR.v) and proved equal to the model\'s '
             'validate_segments / init_memory (memory map, segments, zero ranges, error classes), so read_src = read.',
        design_ref='DESIGN.md section 4, C10',
        note='Premise of C10_torn: a strict prefix of a raw LZMA2 stream does not decode (checked on every v3 prefix each run). '
             'The allocation bound is a product (v0/v1 segments may share data ranges) and excludes v3 decompression bombs '
             '(the pool is the decompressed size). fjm_run.run classification and hang-freedom are campaign-only. F6, F19 fixed.',
        technique='Coq totality / torn-prefix / consistency theorems on the reader model + Python-source translator with kernel-checked equality to the model + corruption campaign evaluated in Coq'),
    'C12': dict(
        category='proof',
        text='Coq theorems: every operator of the table equals Z arithmetic (floor div, divisor-sign mod, arithmetic shifts, '
             'two\'s-complement bit ops); staged evaluation through parser folding, any sequence of eval_new passes and '
             'exact_eval equals direct evaluation of the fully substituted expression for every partition and order; the '
             'reference parser realises the 14-row precedence table; literal decoders are positional / little-endian. Tied '
             'to the source by tables regenerated with Python ast on every run and by an exhaustive operator-pair campaign '
             'plus a random campaign evaluated in Coq. Source tie (Properties/C12_source.v): Expr.eval_new and Expr.exact_eval '
             'are re-translated from the current Python source on every run (IR of Model/PyIR.v) and proved to return exactly '
             'what Model/Expr.v returns for every tree, table and call depth.',
        design_ref='DESIGN.md section 4, C12',
        note='Coq kernel + vm_compute. CPython int semantics, sly\'s LALR/regex engine and error-message construction are tied '
             'by campaign only. Operands bounded to 4096-bit intermediates in the campaign. F15 fixed.',
        technique='Coq theorems on an expression model + Python-source translators (tables and evaluation recursion) with kernel-checked equality to the model + exhaustive pair / random correspondence'),
    'C07': dict(
        category='proof',
        text='C07_native_layout_independent / C07_native_loops_ok / C07_native_decide_storage / C01_native_ring_readout '
             '(Properties/C01_native.v, Qed): for every image, input, flat-window limit, forced-paged, ring length and '
             'measurement setting the transcription of _fjcore.c yields the observables of the one machine definition '
             '(cause, ops, fault address, output, last-ops list = last k started ops, final memory through the representation '
             'relation), hence the same for any two layouts. Every observable of the real native engine under random and '
             'directed knobs, and of the fast engine, is compared inside Coq with the definition and with the transcription.',
        design_ref='DESIGN.md section 4, C07',
        note='The theorems are about the hand transcription Model/EngNative.v; the C text is tied to it on every run by the '
             'campaign with directed geometry (page edges, cache-slot collisions, window edges, 2^20..2^58, fill-constant '
             'collisions, tiny windows with input, ring + flat lane, measured loop at the input window); guard top_guard = '
             'known finding F1; F14 fixed.',
        technique='Coq machine definition + correspondence of the native engine under all storage knobs evaluated in Coq'),
    'C11': dict(
        category='proof',
        text='Proof for the index arithmetic of the Gallina model Model/NativeSafe.v of _fjcore.c (every array length-carrying, '
             'every access checked): no out-of-bounds index, NULL dereference, exhausted probe/search loop or dangerous size '
             'wrap, for all images, inputs, flat limits, allocator behaviours, get_word/set_word device sequences and any value '
             'an overflowing u64 computation wraps to (C11_no_oob_calls, _decide_storage, _run, _api_run, C11_probe_terminates, '
             'C11_ring_in_range, C11_no_wild_wrap). Ownership of Python objects and host-crash freedom rest on dynamic evidence: '
             'ASan+UBSan build of the current _fjcore.c driven with adversarial tables, knobs, device and API call sequences, '
             'and a sys.getrefcount probe around every run()/set_words() incl. error paths.',
        design_ref='DESIGN.md section 4, C11',
        note='partial: the model is tied to the C text by evaluating every direct-API call sequence inside Coq (result class, '
             'allocated_bytes, storage_mode, get_word values, run results). Assumptions: no allocation exceeds PTRDIFF_MAX; '
             'callbacks re-enter only get_word/set_word (re-entering run/__init__ from a callback is unsafe and outside the '
             'property); CPython object creation and libc qsort are not modelled; F1 is a wrong result, not a wild access.',
        technique='Coq proof of index safety on a checked-array model + sanitizer campaign on the real C code'),
    'C13': dict(
        category='proof',
        text='Coq proof (C13_history_free, unguarded) that the result of an assembly is independent of the process\'s call history, '
             'for an executable model of the stl parse cache / parser globals / recursion-limit layer with parsing, expansion '
             'and writing as pure section functions; C13_recursion_limit_preserved; C13_structure_is_needed refutes the statement '
             'for eight variant shapes (key without width / warning mode / mtime+size, shared containers, globals not reset, '
             'limit not restored). The model\'s shape is regenerated from the source on every run (Tie/C13_tie.v: key components, '
             'snapshot/restore copies, resets, the finally) and every campaign history is replayed on the model inside Coq; '
             'the byte-for-byte history-vs-fresh-process campaign tests the real code.',
        design_ref='DESIGN.md section 4, C13',
        note='Parsing, expansion and writing are abstract pure functions; their purity on real objects is supported only by '
             'deep-hash immutability checks and byte comparison. Hypotheses: (resolved path, mtime_ns, size) identifies content, '
             'and one spelling per stl file. Directory and hash-seed independence are campaign-only. F13 fixed.',
        technique='Coq history-independence proof on a cache/globals model + regenerated-shape tie + history replay and byte comparison'),
    'C14': dict(
        category='proof',
        text='Qed-closed theorems over an executable Gallina model of parser folding, macro resolution, label resolution/layout, '
             'the writer and the assemble exception ladder: under one boolean guard per open finding the outcome is success or '
             'a specific library exception (C14_specific); unguarded: only MemoryError can reach the catch-all '
             '(C14_catch_all_classes) and a failed assembly never touches the output path (C14_no_file_on_failure, '
             'C14_never_partial_file). Each guard is refuted by a vm_compute witness; the fixed F7/F8/F9 witnesses are proved '
             'to be library errors. Campaign: per-error-class generators and token/byte mutations at every width and version, '
             'with and without the stl, under a watchdog; the spec is evaluated on every real assembly.',
        design_ref='DESIGN.md section 4, C14',
        note='partial: sly\'s lexer and LALR driver are exercised, not modelled; depth, count and bit limits are model '
             'parameters and the generators avoid the bands where CPython stack or memory state decides; guard of C14_specific = '
             'known findings F9b/N6 (counts too large to materialise) plus the parser-output fact has_main; F7, F8, F9, F10, '
             'N1-N5, N7 fixed; in-process sequences of assemblies, the debugging-labels file, cyclic recursion through rep with '
             'the required depth diagnostic.',
        technique='Coq theorems on an assembly-pipeline error model + error-class generators / mutation campaign with the spec on real runs'),
    'C15': dict(
        category='proof',
        text='Qed-closed universal theorems about a Gallina transcription of _run_featured plus BreakpointHandler incl. '
             'command-line parsing: C15_transparent (whole final machine state equals the undebugged run, for every program, '
             'breakpoint set and command script without quit), C15_pauses (exact pause positions: breakpoint hit or '
             'next_break; step = +1, skip N = +N, continue, continue-all), C15_quit (prefix state), C15_reads_inert, '
             'C15_read_word / C15_read_var (reads return the true current value).',
        design_ref='DESIGN.md section 4, C15',
        note='The model is tied to the Python code on every run by a differential campaign of real debugger sessions (all '
             'scripts up to length 3-4 over 12 commands for some programs, random scripts, the flipjump.debug entry). Label '
             'decoration of banners is not modelled; command lines are ASCII; the featured engine step is tied to the machine '
             'definition by C01. F11 fixed.',
        technique='Coq transparency / pause-position theorems on a debugger model + exhaustive short-script session campaign'),
    'C16': dict(
        category='proof',
        text='Qed-closed theorems: name injectivity of expansion paths (C16_unique), table construction (unique keys, a declared '
             'label maps to its declaration address, start labels only on otherwise unlabelled addresses), save/load round '
             'trip under explicit json/lzma premises, and the exact breakpoint domain (C16_breakpoints). "Label address = '
             'address of the following statement in the assembled image" is decided by correspondence: generated multi-file '
             'programs with namespaces, reps, label parameters, pad/segment/reserve at w=8..64 assembled by the real assembler, '
             'addresses recovered from unique op words in the image independently of the table. Source tie '
             '(Properties/C16_source.v): the three update_breakpoints_from_* functions are re-translated from the current '
             'Python source on every run (IR of Model/PyIR.v) and proved to compute exactly Labels.get_breakpoints and to '
             'print exactly the modelled warnings.',
        design_ref='DESIGN.md section 4, C16',
        note='All declared and segment label names are shown pairwise distinct (C16_names_distinct); JSON/LZMA round-trip laws are '
             'premises. The campaign does not cover stl or wflip-statement programs. F17, N2 fixed.',
        technique='Coq theorems on the label-table / breakpoint model + Python-source translator with kernel-checked equality to the model + image-based correspondence of label addresses'),
    'C17': dict(
        category='proof',
        text='Qed-closed universal theorems (list induction, no length bound): the Gallina transcription of FixedIO, StandardIO, '
             'KeyboardIO (with the ScriptedKeyEventSource.from_text parser) and BrokenIO answers every interleaving of '
             'read_bit/write_bit/get_output exactly as Spec/IOSpec.v requires: lsb-first packing, IncompleteOutput iff '
             '|bits| mod 8 <> 0, EOF exactly at read 8*|input|+1, pack o unpack = id, the keyboard status-nibble/keycode '
             'protocol in (tic, script order) with no early delivery and no EOF; the FixedIO output equals MachineSpec.out_bytes '
             '(link to C01). Source tie (Properties/C17_source.v): every method of FixedIO and StandardIO is re-translated from '
             'the current Python source on every run (gen_facts_devices.py, IR of Model/PyIR.v) and proved to answer and update '
             'the object exactly as Model/Devices.v; whole-device traces equal device_trace.',
        design_ref='DESIGN.md section 4, C17',
        note='The theorems are about the model; CPython is tied to it on every run by an exhaustive (<= 16 bits) plus randomised '
             'correspondence campaign evaluated inside Coq. Not covered: sys.stdin/stdout plumbing, stdin characters >= 256, '
             'non-ASCII script text or text over 4000 characters, the pygame live key source.',
        technique='Coq list-induction theorems on the device models + Python-source translator with kernel-checked equality to the model + exhaustive/random correspondence evaluated in Coq'),
    'C18': dict(
        category='proof',
        text='The exception paths of all three engines are transcribed (EngPyFaults.v: _run_featured/_run_fast with the finally '
             'block and the except ladder; EngNativeFaults.v: cold_output/cold_input -> done in the flat, paged, ring and '
             'measured loops, Memory_run\'s NULL path with last_run_op_count/last_run_last_ops, _run_native) and proved (Qed) '
             'to stop exactly where the machine with the same failing device stops, incl. the ring read-out and the cross-'
             'engine equality C18_engines_stop_identically (Properties/C18_engines.v). '
             'Qed-closed theorems on the machine with a failing device: a device exception at call k stops the run exactly at '
             'an op boundary of the failure-free machine (memory, input, ip, op count), and runs that end earlier equal the '
             'definition; the except ladder is modelled; every IO call index x 4 exception kinds x 3 engines is enumerated per '
             'generated program and compared in Coq.',
        design_ref='DESIGN.md section 4, C18',
        note='partial: the instant at which an asynchronous signal lands is a runtime behaviour the model cannot exhibit; real '
             'signals are delivered at random instants of never-halting programs and every stop is judged by the machine after '
             'exactly the reported op count (Model/SignalCase.v, C18_signal_verdict_sound); known finding F28: the two Python '
             'loops can stop inside an op. The native theorems carry top_guard (F1). The campaign evaluates the engine fault '
             'models next to the machine model on every case. F12 fixed.',
        technique='Coq prefix-consistency theorems + complete fault enumeration per program compared in Coq'),
    'C19': dict(
        category='proof',
        text='Qed-closed theorems on Model/DevMem.v (the machine definition with a scripted device calling DeviceMemory at its IO '
             'points, one model per adapter) and Model/Screen.v (InMemoryScreen decoder with every non-device exception as an '
             'explicit exit): C19_view_consistent (in-segment device writes are what later device reads and program accesses '
             'return, nothing else changes), C19_data_byte (packed byte = bits #w..#w+7 of the jump word, w >= 16), '
             'C19_no_device_no_change, C19_engine_independent (Reader and native adapters give identical runs for in-segment '
             'scripts), C19_screen_total, C19_screen_layout (incl. the RGB frame = the indices expanded by the current palette), '
             'C19_palette_layout, C19_rectangle_only_box. Indices, palette, last_frame_rgb and the decoded PNG are compared '
             'after every present, with palette-cycling streams. Every campaign case (5 '
             'engine/storage configurations x device scripts; real InMemoryScreen on random valid/malformed streams and on '
             'programs emitting them) is evaluated in Coq and cross-compared between engines.',
        design_ref='DESIGN.md section 4, C19',
        note='Engines are tied to the device-interleaved model by the per-run correspondence (flat/hybrid/paged; page, window and '
             'segment edges; accesses to the executing op\'s own words); the C routing of Memory_get_word/set_word is covered by '
             'C01_native_api_get_word/set_word and this campaign. Out-of-segment accesses are compared per adapter only (by '
             'design). pygame window and PNG encoding not covered (pygame not installed); campaign screens are at most 12x10; '
             'w=8 screens raise ValueError and are outside the property.',
        technique='Coq theorems on a device-extended machine model and a total screen-decoder model + correspondence evaluated in Coq'),
    'C20': dict(
        category='proof',
        text='Small Coq theorems: equal user options give equal argument records to Writer, assembler.assemble and fjm_run.run on '
             'the one-step, two-step and API routes (C20_same_args_*), and the documented defaults hold (C20_defaults: width 64; '
             'version 3 iff an output file is requested else 1; stl included unless disabled). The defaults table is regenerated '
             'from argparse and the keyword defaults on every run (Tie/C20_tie.v). The weight is in the correspondence: subprocess '
             'routes are compared on .fjm/.fjd bytes, stdout and exit, and the recorded real argument records are checked against '
             'the model inside Coq.',
        design_ref='DESIGN.md section 4, C20',
        note='The theorems are about argument records; equal arguments giving equal bytes is C13. API-inexpressible options are '
             'compared on the two CLI routes only. The warning-mode default differs between CLI and API and is always passed '
             'explicitly.',
        technique='Coq theorems on the option-plumbing model + regenerated-defaults tie + three-route byte/stdout correspondence'),
}

PENDING_REASON = 'check not built yet in this round (planned per DESIGN.md section 4); not claimed until its theorems and correspondence exist'


def main():
    props = [json.loads(l)['id'] for l in (VERIF / 'properties.jsonl').read_text().splitlines() if l.strip()]
    checks = []
    for p in props:
        if p in CLAIMED:
            c = CLAIMED[p]
            checks.append({
                'property_id': p,
                'quick_cmd': f'./check {p} --tier quick',
                'thorough_cmd': f'./check {p} --tier thorough',
                'evidence_file': f'evidence/{p}.json',
                'replay_cmd_template': f'./check {p} --replay {{path}}',
                'engine': 'coq',
                'level_claimed': {'category': c['category'], 'text': c['text'], 'design_ref': c['design_ref']},
                'level_note': c['note'],
                'technique': c['technique'],
            })
    man = {
        'version': 1,
        'setup_cmd': './setup.sh',
        'hooks': {'guard': 'FLIPJUMP_VERIF', 'enable': 'no hooks are needed: every observable is reachable through the public API',
                  'baseline_off_cmd': 'cd /repo && /venv/bin/python -m pytest -ra -q -p no:cacheprovider --timeout=900 --continue-on-collection-errors',
                  'source_commits': [], 'add_only': True},
        'engines': [{'name': 'coq', 'path': 'coq/', 'serves_properties': sorted(CLAIMED),
                     'kind_free_text': 'Coq 8.16.1 development (models, theorems) + Python harness evaluating the models with vm_compute against the implementation'}],
        'checks': checks,
        'notes': 'See DESIGN.md. known_findings.json lists recorded findings and fix: commits.',
        'not_applicable': [{'property_id': p, 'reason': PENDING_REASON} for p in props if p not in CLAIMED],
    }
    (VERIF / 'MANIFEST.json').write_text(json.dumps(man, indent=1) + '\n')


if __name__ == '__main__':
    main()
