"""Regenerates /verif/MANIFEST.json from the table below (python -m fjverif.manifest)."""
import json
from pathlib import Path

VERIF = Path(__file__).resolve().parents[2]

CLAIMED = {
    'C01': dict(
        category='proof',
        text='Machine definition in Coq (Spec/MachineSpec.v) with universal lemmas; the three engines are tied to it '
             'by a differential campaign evaluated inside Coq (vm_compute) on generated images.',
        design_ref='DESIGN.md section 4, C01',
        note='Coq kernel + vm_compute; hand model tied by correspondence; C text and CPython not modelled.',
        technique='Coq theorems about the machine model + model/implementation correspondence evaluated in Coq'),
}

PENDING_REASON = 'check not built yet in this round (planned per DESIGN.md section 4); not claimed until its theorems and correspondence exist'


def main():
    props = [json.loads(l)['id'] for l in (VERIF / 'properties.jsonl').read_text().splitlines() if l.strip()]
    checks = []
    for p in props:
        if p in CLAIMED:
            c = CLAIMED[p]
            checks.append({
                'property_id': p,
                'quick_cmd': f'./check {p} --tier quick',
                'thorough_cmd': f'./check {p} --tier thorough',
                'evidence_file': f'evidence/{p}.json',
                'replay_cmd_template': f'./check {p} --replay {{path}}',
                'engine': 'coq',
                'level_claimed': {'category': c['category'], 'text': c['text'], 'design_ref': c['design_ref']},
                'level_note': c['note'],
                'technique': c['technique'],
            })
    man = {
        'version': 1,
        'setup_cmd': './setup.sh',
        'hooks': {'guard': 'FLIPJUMP_VERIF', 'enable': 'no hooks are needed: every observable is reachable through the public API',
                  'baseline_off_cmd': 'cd /repo && /venv/bin/python -m pytest -ra -q -p no:cacheprovider --timeout=900 --continue-on-collection-errors',
                  'source_commits': [], 'add_only': True},
        'engines': [{'name': 'coq', 'path': 'coq/', 'serves_properties': sorted(CLAIMED),
                     'kind_free_text': 'Coq 8.16.1 development (models, theorems) + Python harness evaluating the models with vm_compute against the implementation'}],
        'checks': checks,
        'notes': 'See DESIGN.md. known_findings.json lists recorded findings and fix: commits.',
        'not_applicable': [{'property_id': p, 'reason': PENDING_REASON} for p in props if p not in CLAIMED],
    }
    (VERIF / 'MANIFEST.json').write_text(json.dumps(man, indent=1) + '\n')


if __name__ == '__main__':
    main()
