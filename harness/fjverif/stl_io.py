"""Standard-library blocks WITH INPUT AND OUTPUT (C09: input / print / cast / buffer macros).

Extends the machinery of stl.py (read its docstring first) without changing it:

 * a case is (operand values, input byte string): the real engines get the bytes through FixedIO (worker stl_run,
   field "input"), the machine definition gets `bytes_bits input` (Model/StlIORun.check_block_io);
 * a spec (Spec/StlIOSpec.v, python mirror stl_io_specs.py) gives, besides the variable values and the exit, the exact
   OUTPUT bytes, the exact number of input BITS consumed, the variables the documentation leaves open on that exit, or
   says that the input ends first: then the run must stop with cause EOF;
 * the enumerated domain of a block is  (ranges of the variables) x (all strings over an ALPHABET up to length L).
   For every length l <= L one encoded domain `ranges ++ [(0,|alphabet|)] * l` (positions of the symbols) is enumerated
   by vm_compute in pieces, lifted with StlIOProps.io_by_enumeration and StlProps.dom_split_at, and the readable theorem
       T_<block>_w<w>_<alphabet tag>_maxlen<L> :
         forall vs inb, in_dom <ranges> vs -> (length inb <= L)%nat -> in_alpha <alphabet> inb ->
                        block_correct_io ww segs img b<k> <spec> vs inb
   follows with StlIOProps.io_strings_upto.  Blocks without input (L = 0) get `forall vs, in_dom .. vs -> .. vs []`.
   Alphabet tags: `allbytes` = all 256 byte values; `sample<k>_<name>` = a SAMPLE of k byte values (stated in the name).
 * byte buffers behind pointers: variable kinds 'byte' / 'byte+' (one op whose jump word holds 8 data bits; 'byte+' is
   laid out right after the previous cell), pointer variables are extra `data` lines of the block, the pointer
   globals of the library (hex.pointers.*) are declared scratch.

The block objects use the hooks stl.block_text / stl.resolve_block already look for (`ptr_text`, `ptr_resolve`), so
assembly, packing into images, image emission, parallel coqc and the real-engine runner are the ones of stl.py.
"""
import atexit
import dataclasses
import json
import math
import os
import re
import time
from dataclasses import dataclass, field
from pathlib import Path

from . import framework as fw
from . import stl
from . import stl_io_specs as IO

GEN = stl.GEN
HDR = ('From FJ Require Import Lib.Base Spec.MachineSpec Spec.StlSpec Spec.StlIOSpec Model.StlRun Model.StlIORun '
       'Proofs.StlProps Proofs.StlIOProps')
GARBAGE = 0xA5C3965A3C69A5C3965A3C69A5C3965A      # pinned value of pure output variables (masked to the size)
PTR_SCRATCH = {                                     # label -> (ops, words of each op that are scratch: 0 flip word, 1 jump word)
    'hex.pointers.read_byte': (2, (1,)), 'hex.pointers.ret_after_read_byte': (1, (1,)),
    'hex.pointers.to_flip': (1, (0, 1)), 'hex.pointers.to_jump': (1, (0, 1)),
    'hex.pointers.to_flip_var': ('w//4', (1,)), 'hex.pointers.to_jump_var': ('w//4', (1,)),
}


def kind_bits(kind):
    return {'hex': 4, 'bit': 1, 'byte': 8, 'byte+': 8}[kind]


@dataclass
class IOBlock(stl.Block):
    alpha: list = field(default_factory=list)
    alpha_name: str = 'none'
    maxlen: int = 0
    data: list = field(default_factory=list)
    uses_ptr: bool = False
    note: str = ''
    twice: bool = False         # the block executes its macro code TWICE (same code instance; harness flag b<k>_rf)
    mix: str = ''               # executed between the two passes (printers: xor the extra variable into the value)
    stress: str = ''            # sampled-only size sweep: operands that stress the decimal digit count ('dec' | 'sdec')
    startup: str = ''           # start-up line of sampled-only sweep blocks ('' = the Config's)

    # ---- hooks looked up by stl.block_text / stl.resolve_block
    def ptr_text(self, k, literal=None):
        pre = f'b{k}'
        env = {ph: f'{pre}_v{i}' for i, (ph, _, _) in enumerate(self.vars)}
        env.update({f'x{i}': f'{pre}_x{i}' for i in range(1, self.exits + 1)})
        env['pre'] = pre
        lines = [f'{pre}:']
        for c in self.calls:
            lines.append('    ' + c.format_map(stl._Keep(env)))
        if self.twice:
            lines += [f'    bit.if {pre}_rf, {pre}_ra, {pre}_l0', f'{pre}_ra:', f'    bit.not {pre}_rf']
            if self.mix:
                lines.append('    ' + self.mix.format_map(stl._Keep(env)))
            lines.append(f'    ;{pre}')
        lines.append(f'{pre}_l0: stl.loop')
        for i in range(1, self.exits + 1):
            lines.append(f'{pre}_x{i}: stl.output_char {0x30 + i}')
            lines.append(f'{pre}_l{i}: stl.loop')
        for i, (ph, kind, n) in enumerate(self.vars):
            if kind != 'byte+':
                can = 'bit.bit 1' if kind == 'bit' else ('hex.hex 0xA' if i % 2 == 0 else 'hex.hex 0x5')
                lines.append(f'{pre}_c{i}: {can}')
            if kind in ('byte', 'byte+'):
                assert n == 1
                val = literal[i] if literal is not None else 0
                lines.append(f'{pre}_v{i}: ;{val}*dw')
            else:
                val = f', {literal[i]}' if literal is not None else ''
                lines.append(f'{pre}_v{i}: {kind}.vec {n}{val}')
        last = self.vars[-1][1] if self.vars else 'hex'
        lines.append(f'{pre}_cy: ' + ('bit.bit 1' if last == 'bit' else 'hex.hex 0xC'))
        for d in self.data:
            lines.append(d.format_map(stl._Keep(env)))
        lines.append(f'{pre}_cz: hex.hex 0x9')
        if self.twice:
            lines.append(f'{pre}_rf: bit.bit 0')
        return '\n'.join(lines) + '\n'

    def ptr_resolve(self, k, res, w, extra_scratch):
        L = res['labels']
        pre = f'b{k}'
        ww = w.bit_length() - 1
        entry = L[pre]
        l0 = L[f'{pre}_l0']
        exits = [(l0, [])] + [(L[f'{pre}_l{i}'], [0x30 + i]) for i in range(1, self.exits + 1)]
        vars_ = [(kind_bits(kind), (L[f'{pre}_v{i}'] >> ww) + 1, n) for i, (_, kind, n) in enumerate(self.vars)]
        allm = (1 << w) - 1
        # word 0 bit 0: no-op flips; word 2 bits 0-1: the output port; word 1 data nibble: the stl's "null variable";
        # word 3 bit #w: the input cell (the IO op's jump word keeps the last bit read)
        scratch = {0: 1, 2: 3, 1: 0xF << (ww + 1), 3: 1 << (ww + 1)}
        tsz = dict(self.temps)
        found = {}
        for nm, a in res['locals']:
            if nm in tsz and entry <= a < l0:
                found[nm] = found.get(nm, 0) + 1
                for j in range(tsz[nm]):
                    scratch[(a >> ww) + 1 + 2 * j] = allm
        if self.twice:
            scratch[(L[f'{pre}_rf'] >> ww) + 1] = allm          # the harness' own "second pass" flag
        if self.uses_ptr:
            for lbl, (nops, words) in PTR_SCRATCH.items():
                if lbl in L:
                    for j in range(int(eval(str(nops), {}, {'w': w}))):
                        for o in words:
                            scratch[(L[lbl] >> ww) + o + 2 * j] = allm
        self.addr = {'entry': entry, 'exits': exits, 'vars': vars_, 'scratch': scratch, 'temps_found': found,
                     'end': L.get(f'{pre}_cz', l0)}
        self.k = k

    # ---- sizes
    def nstrings(self, l=None):
        a = len(self.alpha)
        if l is not None:
            return a ** l
        return sum(a ** i for i in range(self.maxlen + 1))

    def ncases(self):
        return math.prod(hi - lo for lo, hi in self.dom) * self.nstrings()

    def ranges(self, l):
        return list(self.dom) + [(0, len(self.alpha))] * l


@dataclass
class Config:
    prop: str
    table: list
    widths: dict                # tier -> [w]
    startup: str
    ns: str = 'io'
    extra_scratch: dict = field(default_factory=dict)


# ---------------------------------------------------------------------------------------------------------
# table -> blocks

def make_block(entry, params, w, kind='single'):
    p = {k: v for k, v in params.items() if k not in ('w', 'pin', 'A', 'L', 'cap')}
    env = dict(p, w=w)
    vars_ = [(ph, kd, int(eval(str(ex), {}, dict(env)))) for ph, kd, ex in entry['vars']]
    dom = []
    pinned = False
    for ph, kd, n in vars_:
        bits = kind_bits(kd) * n
        full = (0, 1 << bits)
        d = entry['dom'].get(ph)
        if params.get('pin') and ph in entry['pin']:
            v = entry['pin'][ph] & ((1 << bits) - 1)
            dom.append((v, v + 1))
            pinned = True
        elif d == 'pin':
            v = GARBAGE & ((1 << bits) - 1)
            dom.append((v, v + 1))
            pinned = True
        elif isinstance(d, tuple):
            dom.append((int(d[0]), min(int(d[1]), full[1])))
        elif isinstance(d, str):
            lo, hi = eval(d, {}, dict(env))
            dom.append((int(lo), int(hi)))
        else:
            dom.append(full)
        if params.get('cap') and dom[-1][1] - dom[-1][0] > params['cap']:
            dom[-1] = (dom[-1][0], dom[-1][0] + int(params['cap']))     # explicit in the theorem statement
    temps = [(nm, int(eval(str(ex), {}, dict(env)))) for nm, ex in entry['temps']]
    aname = params.get('A', 'none')
    L = int(params.get('L', 0))
    ptag = '_'.join(f'{k}{stl._ident(str(v))}' for k, v in p.items() if k != 's')
    bid0 = stl._ident(f"{entry['name']}_{ptag}" + ('_pin' if params.get('pin') else '') + (f"_cap{params['cap']}" if params.get('cap') else ''))
    bid = bid0 + (f'_{aname}{L}' if L else '')
    title = (f"{entry['name']} " + ' '.join(f'{k}={v}' for k, v in p.items() if k != 's')).strip()
    if L:
        title += f' | input: {IO.ALPHA_TAG[aname]} up to {L} bytes'
    if pinned:
        title += ' (output variables pinned)'
    if params.get('cap'):
        title += f" (variable ranges capped at {params['cap']} values)"
    b = IOBlock(bid=bid, title=title, macro=entry['name'], calls=[entry['call'].format_map(stl._Keep(p))], vars=vars_,
                exits=entry['exits'], spec=entry['spec'].format(**p), dom=dom, temps=temps, params=dict(p), kind=kind, w=w,
                guard=entry['guard'].format(**p) if entry.get('guard') else '',
                witnesses=entry['witness'](p) if entry.get('witness') else [],
                alpha=list(IO.ALPHA[aname]), alpha_name=aname, maxlen=L, data=list(entry['data']),
                uses_ptr=entry['file'] == 'hex/strings.fj', note=entry.get('note') or '',
                twice=bool(entry.get('twice')), mix=((entry.get('twice') or {}).get('mix') or '').format_map(stl._Keep(p)),
                stress=entry.get('stress') or '', startup=entry.get('startup') or '')
    b.bid0 = bid0
    if b.stress:
        # size sweeps are not assembled one by one: a generous size estimate keeps every large block in an image of its own
        b.est_words = max(3000, 650 * sum(kind_bits(kd) * n for _, kd, n in vars_))
    b.sigmacro = entry.get('sigmacro') or entry['name']
    return b


def plan_blocks(ctx, cfg):
    widths = cfg.widths[ctx.tier]
    thm, smp = [], []
    for e in cfg.table:
        for p in e['inst'][ctx.tier]:
            for w in (p.get('w') or widths):
                if w in widths:
                    thm.append(make_block(e, p, w))
        for p in e['inst']['sample']:
            smp.append(make_block(e, p, widths[0], kind='sample'))
    return thm, smp


# ---------------------------------------------------------------------------------------------------------
# specs: python and Coq terms

def coq_spec(b):
    return f'({b.spec})'


def thm_spec(b):
    return f'(guarded_io ({b.guard}) {coq_spec(b)})' if b.guard else coq_spec(b)


def coq_iores(r):
    if r is None:
        return 'None'
    if r[0] == 'eof':
        return f'Some (IoEof {fw.nlist(r[1])})'
    _, vs, x, out, used, clob = r
    cl = '[' + ';'.join(f'{i}%nat' for i in clob) + ']'
    return f'Some (IoDone {fw.nlist(vs)} {x} {fw.nlist(out)} {used} {cl})'


def alpha_term(b):
    return IO.ALPHA_COQ[b.alpha_name] if b.alpha else '[]'


def nat_list(l):
    return '[' + ';'.join(f'{i}%nat' for i in l) + ']'


# ---------------------------------------------------------------------------------------------------------
# cases for the real engines

def sample_strings(rng, b, count):
    """edge strings first (empty, every symbol repeated up to the maximal length), then random ones"""
    if not b.alpha or b.maxlen == 0:
        return [[]]
    A, L = b.alpha, b.maxlen
    out = [[]]
    syms = A if len(A) <= 16 else [A[i] for i in (0, 1, 10, 48, 57, 65, 70, 97, 102, 255)]
    for s in syms:
        out.append([s] * L)
    for s in syms[:6]:
        out.append([s])
    digits = [c for c in A if 48 <= c <= 57]
    terms = [c for c in A if c in (0, 10)]
    tries = 0
    while len(out) < count + len(syms) + 1 and tries < 20 * count:
        tries += 1
        l = rng.randrange(1, L + 1)
        if digits and rng.random() < 0.5:
            full = A == IO.ALPHA['allbytes'] or b.kind == 'sample'
            body = [rng.choice(range(48, 58)) if full else rng.choice(digits) for _ in range(max(0, l - 1))]
            if 45 in A and rng.random() < 0.4:
                body = [45] + body[:-1] if body else [45]
            s = (body + [rng.choice(terms or A)])[:L]
        else:
            s = [rng.choice(A) for _ in range(l)]
        if s not in out:
            out.append(s)
    return out


def stress_values(rng, b, count):
    """operands that stress the decimal digit count of a k-bit value: 0, 1, 10^j - 1, 10^j, 2^k - 1, 2^(k-1) (+ the negatives
    for signed printers), then random ones; `count` bounds the list (the extreme ones are kept)"""
    k = kind_bits(b.vars[0][1]) * b.vars[0][2]
    M = 1 << k
    vals = [0, 1, M - 1, M >> 1]
    pw = []
    j = 1
    while 10 ** j - 1 < M:
        pw.append(j)
        j += 1
    order = pw[::-1]                      # the largest digit counts first
    for j in order:
        for v in (10 ** j - 1, 10 ** j):
            if v < M:
                vals.append(v)
                if b.stress == 'sdec' and v < M // 2:
                    vals.append(M - v)
    out = []
    for v in vals:
        if v not in out:
            out.append(v)
    keep = max(6, count - 3)
    out = out[:keep]
    while len(out) < min(count, M):
        v = rng.randrange(M)
        if v not in out:
            out.append(v)
    return [([v] + [lo for lo, hi in b.dom[1:]], []) for v in out]


def sample_cases(rng, b, count):
    if b.stress:
        return stress_values(rng, b, count)
    vals = stl.sample_operands(rng, b, max(2, count // 2))
    strs = sample_strings(rng, b, count)
    if strs == [[]]:
        return [(v, []) for v in stl.sample_operands(rng, b, count)]
    cases = []
    for i, s in enumerate(strs):
        cases.append((vals[i % len(vals)], s))
    return cases


def clob_scratch(b, clob, ww):
    out = []
    for i in clob:
        bits, jw, n = b.addr['vars'][i]
        for j in range(n):
            out.append([jw + 2 * j, jw + 2 * j + 1, ((1 << bits) - 1) << (ww + 1)])
    return out


def engine_case(b, values, inb, ww, pyf, cid, watchdog=60.0, standalone=False):
    exp = pyf(list(values), list(inb))
    case = {'id': cid, 'patch': [] if standalone else stl.patches(b, values, ww), 'input': list(inb),
            'scratch': [[a, a + 1, m] for a, m in b.addr['scratch'].items()], 'watchdog': watchdog,
            'read': [jw + 2 * i for _, jw, n in b.addr['vars'] for i in range(n)]}
    if exp is None or exp[0] == 'eof':
        case['nomem'] = True
        case['expect'] = []
    else:
        case['expect'] = [p for p in stl.patches(b, exp[1], ww) if not (standalone and p[0] == 1)]
        case['scratch'] += clob_scratch(b, exp[5], ww)
    return case, exp


def judge(b, exp, r):
    """does the real-engine observation r satisfy the spec result exp?  None (ok) or a description"""
    if exp is None:
        return None
    if 'exc' in r:
        return f'engine: {r["exc"]}'
    if exp[0] == 'eof':
        if r['cause'] != 1:
            return f'terminated with cause {r["cause"]} after {r.get("ops")} ops instead of EOF (the input ends before the macro is done)'
        if r['out'] != exp[1] or r['out_bits'] != 8 * len(exp[1]):
            return f'printed {r["out"]} ({r["out_bits"]} bits) before the EOF, documented {exp[1]}'
        return None
    _, vs2, x, out, used, clob = exp
    if r['cause'] != 0:
        return f'terminated with cause {r["cause"]} (fault {r.get("fault")}) instead of reaching the block end'
    if x >= len(b.addr['exits']):
        return f'the spec names exit {x}, the block has {len(b.addr["exits"])}'
    want = list(out) + list(b.addr['exits'][x][1])
    if r['out'] != want or r['out_bits'] != 8 * len(want):
        return (f'output {bytes(r["out"])!r} ({r["out_bits"]} bits); documented output {bytes(out)!r} followed by the marker '
                f'{bytes(b.addr["exits"][x][1])!r} of exit {x}')
    if r.get('consumed') != used:
        return f'consumed {r.get("consumed")} input bits, documented {used}'
    if r['ndiffs']:
        return (f'variables afterwards {stl.observed_values(b, r, b.w)} (documented {vs2}, left open: {clob}); {r["ndiffs"]} memory '
                f'word(s) differ from image+spec, first (word, got, want): {r["diffs"][:4]}')
    return None


# ---------------------------------------------------------------------------------------------------------
# Coq generation

def emit_image(im):
    path = stl.emit_image(im)
    txt = path.read_text()
    txt = txt.replace('From FJ Require Import Lib.Base Spec.MachineSpec Spec.StlSpec Model.StlRun.',
                      'From FJ Require Import Lib.Base Spec.MachineSpec Spec.StlSpec Spec.StlIOSpec Model.StlRun Model.StlIORun.')
    names = sorted({b.alpha_name for b in im['blocks'] if b.alpha and b.alpha_name != 'allbytes'})
    for nm in names:
        txt += (f'(* alphabet {nm}: a SAMPLE of {len(IO.ALPHA[nm])} byte values *)\n'
                f'Definition alpha_{nm} : list N := {fw.nlist(IO.ALPHA[nm])}.\n')
    path.write_text(txt)
    return path


def split_ranges(ranges, cost_per_case, target):
    """cut along the widest position into pieces of about `target` machine steps.  returns (pos, [(lo, hi)] | [None])"""
    if not ranges:
        return 0, [None]
    ncases = math.prod(h - l for l, h in ranges)
    pos = max(range(len(ranges)), key=lambda i: ranges[i][1] - ranges[i][0])
    lo, hi = ranges[pos]
    npieces = max(1, min(hi - lo, math.ceil(ncases * cost_per_case / target)))
    cuts = [lo + (hi - lo) * i // npieces for i in range(npieces + 1)]
    return pos, [(cuts[i], cuts[i + 1]) for i in range(npieces) if cuts[i] < cuts[i + 1]]


def plan_pieces(im, target):
    units = []
    for b in im['blocks']:
        b.groups = []
        for l in range(b.maxlen + 1):
            rs = b.ranges(l)
            cost1 = b.ops * (0.35 + 0.65 * (l + 1) / (b.maxlen + 1)) + 40 if b.maxlen else b.ops + 40
            pos, pieces = split_ranges(rs, cost1, target)
            g = {'l': l, 'ranges': rs, 'pos': pos, 'units': []}
            for j, pr_ in enumerate(pieces):
                r2 = list(rs)
                if pr_ is not None:
                    r2[pos] = pr_
                nc = math.prod(h - lo for lo, h in r2)
                u = {'b': b, 'l': l, 'pos': pos, 'j': j, 'ranges': r2, 'ncases': nc, 'cost': nc * cost1}
                g['units'].append(u)
                units.append(u)
            b.groups.append(g)
    units.sort(key=lambda u: -u['cost'])
    files, cur, cur_cost = [], [], 0
    for u in units:
        if cur and cur_cost + u['cost'] > target:
            files.append(cur)
            cur, cur_cost = [], 0
        cur.append(u)
        cur_cost += u['cost']
    if cur:
        files.append(cur)
    return files


def P_enc(b):
    """the predicate on encoded operand lists"""
    nv = len(b.vars)
    return (f'(fun ops => block_correct_io ww segs img b{b.k} {thm_spec(b)} (firstn {nv}%nat ops) '
            f'(decode {alpha_term(b)} (skipn {nv}%nat ops)))')


def chk_enc(b, spec=None):
    return f'(check_io_enc ww segs img b{b.k} {spec or thm_spec(b)} {len(b.vars)}%nat {alpha_term(b)})'


def emit_piece_file(im, idx, units):
    name = f'StlP_{im["name"]}_{idx}'
    txt = [f'(* GENERATED - pieces of image {im["name"]} *)', f'{HDR} Gen.Img_{im["name"]}.', 'Local Open Scope N_scope.']
    for u in units:
        b = u['b']
        u['file'] = name
        u['thm'] = f'p_{b.bid}_l{u["l"]}_{u["j"]}'
        rs = stl.dom_term(u['ranges'])
        txt.append(f'Lemma c_{b.bid}_l{u["l"]}_{u["j"]} : forallb {chk_enc(b)} (enum_dom {rs}) = true.')
        txt.append('Proof. vm_cast_no_check (eq_refl true). Qed.')
        txt.append(f'Theorem {u["thm"]} : forall ops, in_dom {rs} ops -> {P_enc(b)} ops.')
        txt.append(f'Proof. exact (io_by_enumeration _ _ _ _ _ _ _ _ c_{b.bid}_l{u["l"]}_{u["j"]}). Qed.')
    path = GEN / f'{name}.v'
    path.write_text('\n'.join(txt) + '\n')
    return path


def theorem_name(b):
    if b.maxlen == 0:
        return f'T_{b.bid}_w{b.w}'
    return f'T_{getattr(b, "bid0", b.bid)}_w{b.w}_{IO.ALPHA_TAG[b.alpha_name]}_maxlen{b.maxlen}'


def theorem_statement(b):
    S = thm_spec(b)
    if b.maxlen == 0:
        return f'forall vs, in_dom {stl.dom_term(b.dom)} vs -> block_correct_io ww segs img b{b.k} {S} vs []'
    return (f'forall vs inb, in_dom {stl.dom_term(b.dom)} vs -> (length inb <= {b.maxlen})%nat -> in_alpha {alpha_term(b)} inb -> '
            f'block_correct_io ww segs img b{b.k} {S} vs inb')


def emit_master(im, ok_blocks):
    files = sorted({u['file'] for b in ok_blocks for g in b.groups for u in g['units']})
    name = f'StlT_{im["name"]}'
    txt = [f'(* GENERATED - instance theorems of image {im["name"]} (w = {im["w"]}) *)',
           f'{HDR} Gen.Img_{im["name"]}' + ''.join(f' Gen.{f}' for f in files) + '.', 'Local Open Scope N_scope.']
    for b in ok_blocks:
        P = P_enc(b)
        S = thm_spec(b)
        Pio = f'(fun vs inb => block_correct_io ww segs img b{b.k} {S} vs inb)'
        tn = theorem_name(b)
        txt.append(f'(* {b.title} *)')
        lnames = []
        for g in b.groups:
            pos = g['pos']
            pre = stl.dom_term(g['ranges'][:pos])
            post = stl.dom_term(g['ranges'][pos + 1:])

            def build(us):
                if len(us) == 1:
                    return f'{us[0]["file"]}.{us[0]["thm"]}'
                h = len(us) // 2
                lo, mid, hi = us[0]['ranges'][pos][0], us[h]['ranges'][pos][0], us[-1]['ranges'][pos][1]
                return f'(dom_split_at {pre} {P} {lo} {mid} {hi} {post} {build(us[:h])} {build(us[h:])})'
            ln = f'{tn}_len{g["l"]}'
            lnames.append(ln)
            txt.append(f'Lemma {ln} : forall ops, in_dom {stl.dom_term(g["ranges"])} ops -> {P} ops.')
            txt.append(f'Proof. exact {build(g["units"])}. Qed.')
        rs = stl.dom_term(b.dom)
        txt.append(f'Theorem {tn} : {theorem_statement(b)}.')
        if b.maxlen == 0:
            txt.append(f'Proof. intros vs D. exact (io_strings_by_indices {Pio} {rs} [] 0%nat {lnames[0]} vs [] D eq_refl (Forall_nil _)). Qed.')
        else:
            pat = '[|' * b.maxlen + '[|l]' + ']' * b.maxlen
            cases = ' | '.join(f'exact {ln}' for ln in lnames)
            txt.append(f'Proof. apply (io_strings_upto {Pio} {rs} {alpha_term(b)} {b.maxlen}%nat). intros l Hl. '
                       f'destruct l as {pat}; [ {cases} | exfalso; lia ]. Qed.')
        txt.append(f'Print Assumptions {tn}.')
        for i, (wv, wi) in enumerate(b.witnesses):
            txt.append(f'Example {tn}_refuted_{i} : check_block_io ww segs img b{b.k} {coq_spec(b)} {fw.nlist(wv)} {fw.nlist(wi)} = false.')
            txt.append('Proof. vm_cast_no_check (eq_refl false). Qed.')
    path = GEN / f'{name}.v'
    path.write_text('\n'.join(txt) + '\n')
    return path


def emit_tie(im, samples):
    """samples: {bid: [(values, input, python spec result, engine ops)]}: mirror check + op-count tie"""
    name = f'StlTie_{im["name"]}'
    txt = [f'(* GENERATED - mirror check and op-count tie of image {im["name"]} *)', f'{HDR} Gen.Img_{im["name"]}.',
           'Local Open Scope N_scope.']
    order = []
    for b in im['blocks']:
        ss = samples.get(b.bid, [])
        if not ss:
            continue
        order.append(b)
        cases = '; '.join(f'({fw.nlist(v)}, {fw.nlist(s)}, {coq_iores(e)})' for v, s, e, _ in ss)
        txt.append(f'Eval vm_compute in (forallb (fun c => iores_eqb ({coq_spec(b)} (fst (fst c)) (snd (fst c))) (snd c)) [{cases}], '
                   f'map (fun c => block_ops_io ww segs img b{b.k} (fst (fst c)) (snd (fst c))) [{cases}]).')
    path = GEN / f'{name}.v'
    path.write_text('\n'.join(txt) + '\n')
    return path, order


# ---------------------------------------------------------------------------------------------------------
# reporting

def standalone_program(cfg, b, values):
    return stl.program_text(cfg, [b], literal=values, direct=True)


def block_def(b):
    return {'calls': b.calls, 'vars': b.vars, 'exits': b.exits, 'temps': b.temps, 'dom': b.dom, 'bid': b.bid, 'data': b.data,
            'alpha_name': b.alpha_name, 'maxlen': b.maxlen, 'uses_ptr': b.uses_ptr, 'guard': b.guard, 'twice': b.twice, 'mix': b.mix,
            'startup': b.startup}


def describe(exp):
    if exp is None:
        return 'outside the documented domain'
    if exp[0] == 'eof':
        return f'the input ends first: cause EOF after printing {bytes(exp[1])!r}'
    _, vs2, x, out, used, clob = exp
    return (f'variables {vs2}' + (f' (left open: {clob})' if clob else '') + f', exit {x}, output {bytes(out)!r}, '
            f'{used} input bits consumed')


def report_failure(ctx, cfg, b, values, inb, exp, model_obs, engine_obs, verdicts, origin):
    defect = None
    if b.guard and IO.guard_fn(b.guard)(list(values), list(inb)):
        defect = b.guard.split()[0]
    sigm = getattr(b, 'sigmacro', b.macro)
    if b.guard and defect is None:
        sigm += ' [outside the listed defect]'       # a failure the known-defect guard does not explain must not be hidden by its listing
    sig = {'kind': 'stl-spec', 'macro': sigm, 'defect': defect, 'block': b.macro}
    what = (f'{b.title} (w={b.w}) on operands {values} with input {bytes(inb)!r}: documented ({b.spec}): {describe(exp)}; '
            f'real engine: {verdicts}')
    replay = {'block': b.title, 'macro': b.macro, 'w': b.w, 'operands': list(values), 'input_bytes': list(inb),
              'input_repr': repr(bytes(inb)), 'spec': b.spec, 'params': b.params,
              'expected': describe(exp), 'expected_result': exp,
              'expected_output': None if exp is None else (list(exp[3]) if exp[0] == 'done' else list(exp[1])),
              'variables': [f'{kind} x {n}' for _, kind, n in b.vars],
              'model_observation': model_obs, 'engine_observation': engine_obs, 'found_by': origin,
              'fj_program': standalone_program(dataclasses.replace(cfg, startup=b.startup) if b.startup else cfg, b, values),
              'startup': b.startup or cfg.startup, 'block_def': block_def(b),
              'how': f'./check {ctx.prop} --replay <this file>   (assembles fj_program with the current repo, runs it on the real engines '
                     'with input_bytes, compares output / consumed input / variables / memory with the documented result)'}
    ctx.violation(sig, what, replay)


# ---------------------------------------------------------------------------------------------------------
# the property run

def _size_of(b):
    return b.params.get('n', 0)


def decode_ops(b, ops):
    nv = len(b.vars)
    return list(ops[:nv]), [b.alpha[i] for i in ops[nv:]]


def run_property(ctx, cfg):
    t_start = time.time()
    only = os.environ.get('FJVERIF_STL_ONLY')      # development aid: regex on macro-table names
    if only:
        cfg = dataclasses.replace(cfg, table=[e for e in cfg.table if re.search(only, e['name'])])
    prop = ctx.prop
    fw.static_proofs(ctx, [f'Properties/{prop}.v'])
    # generated files carry the pid of this run in their names: concurrent runs of the same check cannot clobber each other
    tag = f'{prop}p{os.getpid()}'
    stl.clean_stale_gen()
    prefixes = stl.gen_prefixes(tag)
    atexit.register(stl.clean_gen, prefixes)
    dc = stl.DistinctCount()
    ctx._distinct = dc
    cov = ctx.coverage
    so = fw.build_fjcore(ctx)

    # ---- documentation of the current source
    docs = {}
    for e in cfg.table:
        d = stl.doc_of(e)
        if d is None:
            ctx.broken_tie(f'macro signature `{e["sig"]}` not found in {e["file"]}',
                           f'the macro table of {prop} names `{e["sig"]}` ({e["name"]}); the current source has no such definition')
            continue
        docs[e['name']] = {'doc': d['formula_lines'], 'at': d['at'], 'spec': e['spec'], 'note': e['note'],
                           'known_defect_guard': e.get('guard')}
    cov['documented_macros'] = docs

    # ---- blocks and images
    thm_blocks, smp_blocks = plan_blocks(ctx, cfg)
    try:
        images = stl.assemble_blocks(ctx, cfg, thm_blocks, tag)
        smp_images = stl.assemble_blocks(ctx, cfg, [b for b in smp_blocks if not b.startup], tag + 's', presize=False)
        for i, st in enumerate(sorted({b.startup for b in smp_blocks if b.startup})):
            smp_images += stl.assemble_blocks(ctx, dataclasses.replace(cfg, startup=st), [b for b in smp_blocks if b.startup == st],
                                              f'{tag}s{i}', presize=False)
    except RuntimeError as e:
        # not even `<startup> ; stl.loop` assembles: nothing can be regenerated, every instance theorem is void
        ctx.broken_tie(f'{prop}: the harness start-up program does not assemble with the current assembler/stl', str(e))
        cov['obligations'] += len(thm_blocks)
        return
    for b in thm_blocks + smp_blocks:
        if b.asm_error:
            ctx.broken_tie(f'assembly of harness block {b.title} (w={b.w})', b.asm_error)
    t_asm = time.time()

    # ---- real engines on sampled cases (tests; also measures op counts)
    jobs, meta = [], []
    for im in images + smp_images:
        ww = im['w'].bit_length() - 1
        for b in im['blocks']:
            pyf = IO.spec_fn(b.spec)
            cs = sample_cases(ctx.rng, b, (ctx.n(8, 24) if b.kind != 'sample' else ctx.n(12, 40)) if not b.stress else ctx.n(8, 60))
            for wv, wi in b.witnesses:
                if (list(wv), list(wi)) not in [(list(v), list(s)) for v, s in cs]:
                    cs.append((list(wv), list(wi)))
            for eng in ('fast', 'native') + (('featured',) if (b.kind == 'sample' and not b.stress) or ctx.tier == 'thorough' else ()):
                if b.stress:
                    cc = ([cs[0]] + cs[2:3]) if eng != 'native' else cs         # size sweeps: every operand on native, 0 and 2^n-1 on the Python engine
                else:
                    cc = cs[:3] if eng == 'featured' else cs[:max(5, len(cs) // 2)] if eng == 'native' and ctx.quick() else cs
                cases, exps = [], []
                for i, (v, s) in enumerate(cc):
                    c, e = engine_case(b, v, s, ww, pyf, i)
                    cases.append(c)
                    exps.append(e)
                jobs.append({'fjm': im['res']['fjm'], 'w': im['w'], 'engine': eng, 'cases': cases})
                meta.append((im, b, eng, cc, exps))
    results = stl.run_engines(ctx, so, jobs)
    tie_samples = {}
    engine_runs = 0
    engine_fail = 0
    for (im, b, eng, cc, exps), rs in zip(meta, results):
        for (v, s), e, r in zip(cc, exps, rs):
            engine_runs += 1
            cov['evaluations'] += 1
            dc.add((b.bid, b.w, eng, tuple(v), tuple(s)))
            ctx.hist('engine_runs', eng)
            ctx.hist('engine_outcomes', 'outside spec' if e is None else 'EOF' if e[0] == 'eof' else f'exit {e[2]}')
            if 'ops' in r:
                b.ops = max(b.ops, r['ops'])
            bad = judge(b, e, r)
            if bad:
                engine_fail += 1
                report_failure(ctx, cfg, b, v, s, e, None,
                               {k: r.get(k) for k in ('cause', 'ops', 'out', 'out_bits', 'consumed', 'diffs', 'exc')},
                               f'{eng}: {bad}', f'sampled cases on the real {eng} engine')
            elif eng == 'fast' and b.kind != 'sample' and len(tie_samples.get((im['name'], b.bid), [])) < 12:
                tie_samples.setdefault((im['name'], b.bid), []).append((v, s, e, r['ops']))
        if b.stress:
            ctx.hist('size_sweep_engine_runs', b.macro, len(cc))
            cov.setdefault('size_sweep_sizes', {}).setdefault(b.macro, [])
            if _size_of(b) not in cov['size_sweep_sizes'][b.macro]:
                cov['size_sweep_sizes'][b.macro].append(_size_of(b))
        elif b.kind == 'sample':
            ctx.hist('sampled_only_blocks', f'{b.title} w={b.w}', len(cc))
    shown = 0
    for (im, b, eng, cc, exps), rs in zip(meta, results):
        if shown < 3 and eng == 'fast' and (b.maxlen or shown == 0):
            i = min(len(cc) - 1, 3)
            ctx.sample({'kind': 'real-engine run', 'block': b.title, 'w': b.w, 'engine': eng, 'operands': cc[i][0],
                        'input': repr(bytes(cc[i][1])), 'spec_result': describe(exps[i]),
                        'observed': {k: rs[i].get(k) for k in ('cause', 'ops', 'out', 'consumed', 'ndiffs')}})
            shown += 1
    t_eng = time.time()

    # ---- Coq: images, pieces, masters, ties
    img_paths = {im['name']: emit_image(im) for im in images}
    rimg = stl.coqc_many(list(img_paths.values()), 900)
    live = []
    for im in images:
        rc, out, _ = rimg[img_paths[im['name']]]
        if rc != 0:
            ctx.broken_tie(f'generated image {im["name"]} does not compile', out)
            cov['obligations'] += len(im['blocks'])
        else:
            live.append(im)
    target = ctx.n(900_000, 2_500_000)
    piece_files = []
    for im in live:
        for idx, units in enumerate(plan_pieces(im, target)):
            piece_files.append((im, units, emit_piece_file(im, idx, units)))
    tie_files = []
    for im in live:
        path, order = emit_tie(im, {bid: s for (nm, bid), s in tie_samples.items() if nm == im['name']})
        tie_files.append((im, order, path))
    piece_files.sort(key=lambda t: -sum(u['cost'] for u in t[1]))
    total_steps = int(sum(u['cost'] for _, us, _ in piece_files for u in us))
    rp = stl.coqc_many([p for _, _, p in piece_files] + [p for _, _, p in tie_files], ctx.n(1200, 3600))
    failed_units = []
    for im, units, path in piece_files:
        rc, out, secs = rp[path]
        for u in units:
            u['ok'] = rc == 0
            u['out'] = out
        if rc != 0:
            failed_units += [(im, u) for u in units]
    t_pieces = time.time()

    if failed_units:
        diagnose(ctx, cfg, so, failed_units)

    # ---- master theorems
    masters = []
    for im in live:
        okb = [b for b in im['blocks'] if all(u['ok'] for g in b.groups for u in g['units'])]
        cov['obligations'] += len(im['blocks'])
        if okb:
            masters.append((im, okb, emit_master(im, okb)))
    rm = stl.coqc_many([p for _, _, p in masters], 1200)
    names, inst = [], []
    proved_cases = 0
    refuted = 0
    for im, okb, path in masters:
        rc, out, _ = rm[path]
        if rc != 0:
            ctx.broken_tie(f'generated theorem file {path.name} does not compile', out)
            continue
        closed = out.count('Closed under the global context')
        if closed != len(okb):
            ctx.broken_tie(f'{path.name}: Print Assumptions is not "Closed under the global context" for every theorem', out)
            continue
        cov['discharged'] += len(okb)
        for b in okb:
            names.append(theorem_name(b))
            proved_cases += b.ncases()
            refuted += len(b.witnesses)
            inst.append({'theorem': theorem_name(b), 'statement': theorem_statement(b), 'block': b.title, 'w': b.w, 'spec': b.spec,
                         'known_defect_guard': b.guard or None, 'refuted_examples': len(b.witnesses),
                         'variable_domains': [list(d) for d in b.dom],
                         'alphabet': IO.ALPHA_TAG[b.alpha_name], 'alphabet_bytes': None if b.alpha_name == 'allbytes' else b.alpha,
                         'alphabet_is_a_sample_of_bytes': b.alpha_name not in ('allbytes', 'none'),
                         'max_input_length': b.maxlen, 'input_strings': b.nstrings(), 'cases': b.ncases(),
                         'max_ops_sampled': b.ops, 'pieces': sum(len(g['units']) for g in b.groups),
                         'scratch_words': len(b.addr['scratch']), 'temps': b.addr['temps_found']})
            ctx.hist('exhaustive_instances_by_width', b.w)
            ctx.hist('exhaustive_instances_by_alphabet', IO.ALPHA_TAG[b.alpha_name])
    cov['evaluations'] += proved_cases
    dc.bulk += proved_cases
    cov.setdefault('theorems', []).extend(names)
    cov['generated_theorems'] = len(names)
    cov['refuted_examples_compiled'] = refuted
    cov['instances'] = inst
    shown = 0
    for b in [b for im in live for b in im['blocks']]:
        if shown < 3 and (b.maxlen > 0 or shown == 0):
            ctx.sample({'kind': 'generated theorem', 'name': theorem_name(b), 'statement': theorem_statement(b),
                        'program': b.ptr_text(b.k).splitlines()[:8]})
            shown += 1

    # ---- ties
    tie_checked = 0
    for im, order, path in tie_files:
        rc, out, _ = rp[path]
        if rc != 0:
            ctx.broken_tie(f'{path.name} does not compile', out)
            continue
        groups = re.findall(r'=\s*\((true|false),\s*\[([^\]]*)\]\)', re.sub(r'\s+', ' ', out))
        if len(groups) != len(order):
            ctx.broken_tie(f'{path.name}: unexpected output', out)
            continue
        for b, (ok, opsl) in zip(order, groups):
            ss = tie_samples[(im['name'], b.bid)]
            mops = [int(x) for x in opsl.replace(';', ' ').split()]
            tie_checked += len(ss)
            if ok != 'true':
                ctx.broken_tie(f'mirror check: python spec of {b.title} differs from StlIOSpec.v',
                               f'{b.spec} on {[(s[0], s[1]) for s in ss]}')
            if mops != [s[3] for s in ss]:
                ctx.broken_tie(f'op-count tie: machine definition and fast engine execute different op counts for {b.title} (w={b.w})',
                               f'cases {[(s[0], s[1]) for s in ss]} machine {mops} engine {[s[3] for s in ss]}')
    cov['mirror_and_opcount_samples'] = tie_checked
    t_end = time.time()

    # ---- evidence
    cov['rule'] = (
        'Coq: for every block (macro instance) the whole domain stated in its theorem - every combination of the variable '
        'ranges with EVERY input string over the stated alphabet up to the stated length - is enumerated by vm_compute '
        '(check_block_io = frame equation + exit + exact output + exact input consumption, or cause EOF when the input ends '
        'first); distinct = distinct (block, w, values, input string), all non-trivial (every run executes the macro); '
        'engine: sampled (values, input) per block on fast/native/featured with full-memory frame comparison, distinct '
        '(block, w, engine, values, input).  evaluations = enumerated cases of compiled theorems + engine runs.  '
        'Alphabets tagged sample<k> are a SAMPLE of byte values (listed per instance), allbytes = all 256 values')
    cov['exhaustive'] = True
    cov['alphabets'] = {IO.ALPHA_TAG[k]: ('all 256 byte values' if k == 'allbytes' else v) for k, v in IO.ALPHA.items() if k != 'none'}
    cov['engine_runs'] = engine_runs
    cov['engine_failures'] = engine_fail
    cov['coq_cases_proved'] = proved_cases
    cov['estimated_machine_steps'] = total_steps
    cov['images'] = [{'name': im['name'], 'w': im['w'], 'words': im['res']['nwords'], 'blocks': len(im['blocks'])} for im in images]
    cov['sampled_only'] = sorted({f'{b.title} w={b.w}' for b in smp_blocks if not b.asm_error and not b.stress})
    cov['checker_cmd'] += f' ; coqc (parallel, {fw.NCPU} jobs) on coq/Gen/Img_{tag}_*.v StlP_{tag}_*.v StlT_{tag}_*.v StlTie_{tag}_*.v'
    cov['timing_s'] = {'assembly': round(t_asm - t_start, 1), 'engines': round(t_eng - t_asm, 1),
                       'coq_pieces': round(t_pieces - t_eng, 1), 'rest': round(t_end - t_pieces, 1)}
    cov['cpu_s'] = round(sum(os.times()[:4]), 1)
    cov['trusted_base'] += [
        'the assembler that produced the images is the implementation under test (C02/C03/C12 cover it); images are regenerated every run',
        'the machine definition Spec/MachineSpec.v is tied to the engines by C01; FixedIO feeding bytes lsb first by C17 '
        '(and by the op-count/consumed-bits tie of this run on the sampled cases)',
        'harness/fjverif/stl_io.py label resolution (debug-label file of the same assembly) and scratch declarations '
        '(macro table `temps`, the IO cell, the hex.pointers.* globals for the buffer helpers)',
        'generated theorems: Print Assumptions = Closed under the global context (checked for each)']
    ctx.assumptions += [
        'sizes above the enumerated ones and inputs longer than the stated length are sampled on the real engines only (tests, not proofs)',
        'alphabets tagged sample<k> cover one or two byte values per class (digits, letters, signs, terminators, invalid bytes, NUL), '
        'not all 256 values; `allbytes` alphabets are complete',
        'EOF is exercised at byte granularity (what FixedIO can produce); the machine definition would also stop inside a byte',
        'on an error exit the documentation leaves the destination open: its data bits are not compared there (`clob` in the spec)',
        'block-local temporaries declared by the macros themselves, word 0 bit 0, the IO word bits 0-1, the input cell and (buffer helpers) '
        'the hex.pointers.* globals are scratch',
        'the run starts from the assembled image: every theorem is about THIS image (w, layout), not about all placements']
    if stl.fw_keep_gen():
        atexit.unregister(stl.clean_gen)
    else:
        stl.clean_gen(prefixes)


def diagnose(ctx, cfg, so, failed_units):
    """per failed piece: first failing encoded operands (in Coq), then confirmation on the real engines"""
    files = []
    for i, (im, u) in enumerate(failed_units):
        b = u['b']
        name = f'StlD_{im["name"]}_{i}'
        txt = [f'{HDR} Gen.Img_{im["name"]}.', 'Local Open Scope N_scope.',
               f'Eval vm_compute in (first_fails 3 {chk_enc(b)} (enum_dom {stl.dom_term(u["ranges"])})).']
        path = GEN / f'{name}.v'
        path.write_text('\n'.join(txt) + '\n')
        files.append(path)
    res = stl.coqc_many(files, ctx.n(1200, 3600))
    confirm = []
    for (im, u), path in zip(failed_units, files):
        rc, out, _ = res[path]
        b = u['b']
        if rc != 0:
            u['ok'] = False
            ctx.broken_tie(f'piece {u["thm"]} of {b.title} (w={b.w}) fails and its diagnosis does not evaluate', (u['out'] + out)[-2000:])
            continue
        flat = re.sub(r'\s+', ' ', out)
        m = re.search(r'=\s*\[(.*)\]\s*:\s*list \(list N\)', flat)
        ops_lists = re.findall(r'\[([0-9; ]*)\]', m.group(1)) if m and m.group(1).strip() else []
        if not ops_lists:
            u['ok'] = True      # this unit is fine; another unit of the same file failed (recompiled alone below)
            u['recheck'] = True
            continue
        for s in ops_lists:
            confirm.append((im, u, [int(x) for x in s.replace(';', ' ').split()]))
    victims = [(im, u) for im, u in failed_units if u.get('recheck')]
    if victims:
        paths = [emit_piece_file(im, f'r{i}', [u]) for i, (im, u) in enumerate(victims)]
        rr = stl.coqc_many(paths, ctx.n(1200, 3600))
        for (im, u), p in zip(victims, paths):
            u['ok'] = rr[p][0] == 0
            if not u['ok']:
                ctx.broken_tie(f'piece {u["thm"]} of {u["b"].title} does not compile', rr[p][1])
    if not confirm:
        return
    jobs, meta, obs_files = [], [], []
    for i, (im, u, ops) in enumerate(confirm):
        b = u['b']
        ww = im['w'].bit_length() - 1
        vals, inb = decode_ops(b, ops)
        pyf = IO.spec_fn(b.spec)
        exp = pyf(list(vals), list(inb))
        ev = exp[1] if exp and exp[0] == 'done' else vals
        cl = exp[5] if exp and exp[0] == 'done' else []
        path = GEN / f'StlD_{im["name"]}_o{i}.v'
        path.write_text(f'{HDR} Gen.Img_{im["name"]}.\nLocal Open Scope N_scope.\n'
                        f'Eval vm_compute in (observe_block_io ww segs img b{b.k} {fw.nlist(vals)} {fw.nlist(inb)} {fw.nlist(ev)} {nat_list(cl)}).\n')
        obs_files.append(path)
        for eng in ('fast', 'native'):
            c, e = engine_case(b, vals, inb, ww, pyf, i)
            jobs.append({'fjm': im['res']['fjm'], 'w': im['w'], 'engine': eng, 'cases': [c]})
            meta.append((i, eng, e))
    robs = stl.coqc_many(obs_files, 600)
    rs = stl.run_engines(ctx, so, jobs)
    per = {}
    for (i, eng, e), r in zip(meta, rs):
        per.setdefault(i, []).append((eng, e, r[0]))
    for i, (im, u, ops) in enumerate(confirm):
        b = u['b']
        u['ok'] = False
        vals, inb = decode_ops(b, ops)
        model = re.sub(r'\s+', ' ', robs[obs_files[i]][1])[-700:]
        verdicts = {eng: judge(b, e, r) for eng, e, r in per[i]}
        exp = per[i][0][1]
        eobs = {eng: {k: r.get(k) for k in ('cause', 'ops', 'out', 'out_bits', 'consumed', 'diffs', 'exc')} for eng, e, r in per[i]}
        ctx.coverage['evaluations'] += len(per[i])
        if any(v for v in verdicts.values()):
            report_failure(ctx, cfg, b, vals, inb, exp, model, eobs, verdicts,
                           f'Coq: check_block_io is false for this case in piece {u["thm"]} (theorem {theorem_name(b)} not provable)')
        else:
            ctx.broken_tie(f'{b.title} (w={b.w}) operands {vals} input {bytes(inb)!r}: the machine definition violates the IO frame equation '
                           f'(or the evaluation budget 2^{stl.depth_for(b.ops) + 1} ops is too small) but the real engines satisfy it',
                           f'model observation (cause, ops, ip, output, trailing output bits, input bits left, differing words): {model}; '
                           f'engines: {eobs}')


# ---------------------------------------------------------------------------------------------------------
# replay

def replay(ctx, cfg, path):
    rp = json.loads(Path(path).read_text())['replay']
    if 'fj_program' not in rp:
        print(f'replay {path}: names a broken theorem/correspondence, no operand to re-run: {rp.get("theorem_or_correspondence")}')
        return 1
    bd = rp['block_def']
    b = IOBlock(bid=bd['bid'], title=rp['block'], macro=rp['macro'], calls=bd['calls'], vars=[tuple(v) for v in bd['vars']],
                exits=bd['exits'], spec=rp['spec'], dom=[tuple(d) for d in bd['dom']], temps=[tuple(t) for t in bd['temps']],
                params=rp['params'], w=rp['w'], data=bd['data'], alpha_name=bd['alpha_name'], alpha=list(IO.ALPHA[bd['alpha_name']]),
                maxlen=bd['maxlen'], uses_ptr=bd['uses_ptr'], guard=bd.get('guard', ''), twice=bd.get('twice', False),
                mix=bd.get('mix', ''), startup=bd.get('startup', ''))
    w = rp['w']
    ww = w.bit_length() - 1
    d = str(ctx.scratch / 'replay')
    temps = [nm for nm, _ in b.temps]
    res = stl._asm_jobs(ctx, [{'name': 'replay', 'fj': rp['fj_program'], 'w': w, 'dir': d, 'temps': temps, 'want_words': False}])[0]
    if not res['ok']:
        print(f'replay: the program does not assemble with the current repo: {res.get("error")}')
        return 1
    b.ptr_resolve(0, res, w, cfg.extra_scratch)
    so = fw.build_fjcore(ctx)
    vals, inb = rp['operands'], rp['input_bytes']
    pyf = IO.spec_fn(b.spec)
    status = 0
    for eng in ('fast', 'native'):
        # stand-alone program: operands are literals, the start-up jumps straight into the block: nothing is patched
        case, exp = engine_case(b, vals, inb, ww, pyf, 0, standalone=True)
        r = stl.run_engines(ctx, so, [{'fjm': res['fjm'], 'w': w, 'engine': eng, 'cases': [case]}])[0][0]
        bad = judge(b, exp, r)
        print(f'[{ctx.prop} replay] {rp["block"]} w={w} operands={vals} input={bytes(inb)!r} engine={eng}: required: {describe(exp)}; '
              f'observed: cause={r.get("cause")} output={bytes(r.get("out", []))!r} consumed={r.get("consumed")} '
              f'variables={stl.observed_values(b, r, w) if "read" in r else None} differing words={r.get("diffs")}'
              f' -> {"VIOLATION: " + bad if bad else "ok"}')
        if bad:
            status = 1
    return status
