"""C12 source tie for the evaluation recursion of expressions (wiring used by checks/c12.py).

prepare(ctx)             regenerate coq/Gen/Facts_Expr.v (gen_facts_expr, fail closed), build Tie/Expr_steps.vo, Tie/Expr_tie.vo,
                         Properties/C12_source.vo.
compare(ctx, rp, progs)  the translator's own tie: expressions of the campaign are evaluated by the REGENERATED Expr.eval_new /
                         Expr.exact_eval (the interpreter of Tie/Expr_steps.v inside Coq, check_scase) and compared with what the
                         REAL methods returned / raised (workers/expr_direct.py): eval_new on a parameter dictionary, exact_eval on
                         a label table, and exact_eval of what eval_new left.  Every identifier of the expression is put into the
                         parameter dictionary (constants as ints, macro arguments as the trees the parser builds), into the label
                         table, or left unknown, at random."""
from . import framework as fw
from . import gen_facts_expr as gen
from .source_tie import SourceTie

TIE = SourceTie('Expr source tie', gen, 'Facts_Expr', 'Tie/Expr_steps.v', 'Tie/Expr_tie.v', 'Properties/C12_source.v',
                ['Proofs/ExprProps.vo', 'Proofs/PyIRProps.vo', 'Model/PyIR.vo'])
HEADER = ('From FJ Require Import Lib.Base Model.Ast Spec.ExprSpec Model.Expr.\n'
          'Local Open Scope string_scope.\nLocal Open Scope Z_scope.\n')


def prepare(ctx):
    props, targets = TIE.prepare(ctx)
    if TIE.state(ctx)['text'] is not None:
        ctx.coverage['trusted_base'] += [
            'Model/PyIR.v (semantics of the Python subset: Expr objects as VObj of their attribute, isinstance, `is None`, dict.get, '
            'try/except Exception, local list append) and harness/fjverif/gen_facts_expr.py (fail-closed ast translator of '
            'Expr.eval_new / Expr.exact_eval, rules X1-X11 in its header); cross-checked on every run by running the regenerated '
            'methods inside Coq against the real ones (coverage.source_ir_agreeing)',
            'Tie/Expr_steps.v: a call through op_string_to_function is the denotation Model/Expr.py_call of ExprSpec.doc_op_table '
            '(= the table regenerated from the source, Tie/C12_tie.v); `a is b` between Expr objects answers from an arbitrary '
            'stream when their contents agree and "not the same" otherwise (the theorems hold for every stream); the text of '
            'exception messages is not modelled, only its diagnostic class; Expr.__str__ inside a message is assumed not to raise '
            '(it does for an operator node with 0 or more than 3 operands, which the parser never builds)']
        ctx.assumptions += ['Expr source tie: covers Expr.eval_new and Expr.exact_eval (tree walk, int / symbolic residue, exception '
                            'classes, staging); get_minimized_expr, Expr.__int__ and the parser actions stay tied by the frozen '
                            'source text (Tie/C12_tie.modelled_sources_unchanged); Expr objects are assumed immutable outside expr.py']
    return props, targets


def tree_of(e):
    k = e[0]
    if k == 'int':
        return str(e[1])
    if k == 'id':
        return {'l': e[1]}
    if k == 'un':
        return {'o': e[1], 'a': [tree_of(e[2])]}
    if k == 'cond':
        return {'o': '?:', 'a': [tree_of(x) for x in e[1:]]}
    if k == 'bin':
        return {'o': e[1], 'a': [tree_of(e[2]), tree_of(e[3])]}
    raise ValueError(e)


def ids_of(t, acc):
    if isinstance(t, dict):
        if 'l' in t:
            acc.add(t['l'])
        else:
            for a in t['a']:
                ids_of(a, acc)
    return acc


def make_case(rng, ast_, c):
    tree = tree_of(ast_)
    params, labels = {}, {}
    bound = {}
    for st in c['stages']:
        for name, a in st:
            bound.setdefault(name, tree_of(a))
    consts, labs = dict(c['consts']), dict(c['labels'])
    todo, seen = sorted(ids_of(tree, set())), set()
    while todo:
        name = todo.pop()
        if name in seen:
            continue
        seen.add(name)
        r = rng.random()
        if r < 0.12:
            continue                                   # unknown everywhere
        if name in bound and r < 0.85:
            params[name] = bound[name]
            todo += sorted(ids_of(bound[name], set()))
        elif name in consts:
            if r < 0.55:
                params[name] = str(consts[name])
            else:
                labels[name] = str(consts[name])
        elif name in labs:
            labels[name] = str(labs[name])
        elif name in bound and isinstance(bound[name], str):
            labels[name] = bound[name]
    return {'tree': tree, 'params': params, 'labels': labels}


def compare(ctx, rp, progs):
    from .checks import c12
    st = TIE.state(ctx)
    if not st or not st['steps']:
        return
    cases = []
    for p in progs[:ctx.n(700, 6000)]:
        c = p['cases'][-1]
        try:
            ast_ = rp.parse(c['toks'])
        except Exception:
            continue
        cases.append(make_case(ctx.rng, ast_, c))
    if not cases:
        return
    n = max(1, (len(cases) + fw.NCPU - 1) // fw.NCPU)
    chunks = [cases[i:i + n] for i in range(0, len(cases), n)]
    try:
        results = [r for rs in fw.run_workers_parallel(ctx, 'expr_direct', chunks, timeout=600) for r in rs]
    except RuntimeError as e:
        ctx.broken_tie('Expr source tie: the worker that runs the real Expr.eval_new / exact_eval failed', str(e)[-2000:])
        return

    def cobs(o):
        if 'tree' in o:
            return f'SoTree ({c12.cmexpr(o["tree"])})'
        if 'int' in o:
            return f'SoInt {c12.cz(int(o["int"]))}'
        if 'lib' in o:
            return f'SoLib {o["lib"]}%N'
        return 'SoOther'

    terms = []
    for k, r in zip(cases, results):
        ps = '[' + '; '.join(f'({c12.cstr(n)}, {c12.cmexpr(t)})' for n, t in k['params'].items()) + ']'
        ls = '[' + '; '.join(f'({c12.cstr(n)}, {c12.cz(int(v))})' for n, v in k['labels'].items()) + ']'
        terms.append(f'mk_scase ({c12.cmexpr(k["tree"])}) {ps} {ls} ({cobs(r["new"])}) ({cobs(r["exact"])}) ({cobs(r["staged"])})')
        for which in ('new', 'exact', 'staged'):
            o = r[which]
            ctx.hist('source_ir_' + which, 'tree' if 'tree' in o else 'int' if 'int' in o else f'lib:{o["lib"]}' if 'lib' in o
                     else 'skipped' if o.get('other') == 'skipped' else 'other:' + str(o.get('other')))
    oks = fw.coq_eval_shards(ctx, 'src_expr', HEADER + TIE.steps_import(ctx), terms, 'check_scase',
                             shard=max(20, len(terms) // (fw.NCPU * 2) + 1), timeout=600)
    good = sum(1 for ok in oks if ok)
    ctx.coverage['source_ir_agreeing'] = ctx.coverage.get('source_ir_agreeing', 0) + good
    for k, ok in zip(cases, oks):
        if ok is None:
            continue
        ctx.count(('source-ir', str(k)), True)
        ctx.hist('source_ir_cases', 'agrees' if ok else 'DISAGREES')
    if any(ok is None for ok in oks):
        ctx.broken_tie('Expr source tie: coq evaluation of the regenerated methods did not finish',
                       f'{sum(ok is None for ok in oks)} of {len(oks)} cases were not evaluated (timeout or error)')
    for k, r, t in [(k, r, t) for k, r, t, ok in zip(cases, results, terms, oks) if ok is False][:3]:
        ctx.broken_tie('Expr source tie: the regenerated Expr.eval_new / exact_eval (interpreter of Tie/Expr_steps.v) disagree with '
                       'the real methods', f'case {k}; the real methods answered {r}; coq term: {t[:3000]}')
    TIE.check_unchanged(ctx)
