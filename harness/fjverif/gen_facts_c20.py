"""T-gen for C20: read the option plumbing of the `fj` command and of the Python API with `ast` and emit
coq/Gen/Facts_C20.v: every argparse add_argument (option strings, default, action, choices, nargs, const), the keyword
defaults of the flipjump_quickstart functions and of Writer.__init__, the values of the FJMVersion members, what
get_version returns without -v, and which value each route hands to Writer(...) / assembler.assemble(...) /
flipjump_quickstart.debug(...) / fjm_run.run(...) for every parameter.

Fail closed: an argument expression, default or call shape that is not recognised raises GenError.

    python -m fjverif.gen_facts_c20
"""
import ast
import lzma
import sys

from . import framework as fw
from .gen_facts_c13 import GenError, need, coq_str, coq_list, coq_strs, coq_pairs, un, func, body_nodoc, skeleton

OUT = fw.COQ / 'Gen' / 'Facts_C20.v'


def int_constants(pkg):
    vals = {}
    tree = ast.parse((pkg / 'utils' / 'constants.py').read_text())
    for s in tree.body:
        if isinstance(s, ast.Assign) and len(s.targets) == 1 and isinstance(s.targets[0], ast.Name) \
                and isinstance(s.value, ast.Constant) and isinstance(s.value.value, int):
            vals[s.targets[0].id] = s.value.value
    return vals


def version_members(pkg):
    tree = ast.parse((pkg / 'fjm' / 'fjm_consts.py').read_text())
    cls = [n for n in tree.body if isinstance(n, ast.ClassDef) and n.name == 'FJMVersion']
    need(len(cls) == 1, 'class FJMVersion not found')
    mem = {}
    for s in cls[0].body:
        if isinstance(s, ast.Assign) and isinstance(s.targets[0], ast.Name) and isinstance(s.value, ast.Constant):
            mem[s.targets[0].id] = s.value.value
    need(mem, 'FJMVersion has no literal members')
    return mem


class Evaluator:
    """evaluate the small expressions used as defaults / choices"""

    def __init__(self, consts, versions):
        self.consts = consts
        self.versions = versions

    def value(self, node):
        """-> canonical string: an integer, True/False, None, 'text', or [a, b, ...]"""
        if isinstance(node, ast.Constant):
            v = node.value
            if v is None or isinstance(v, (bool, int)):
                return str(v)
            if isinstance(v, str):
                return repr(v)
            raise GenError(f'unsupported literal {v!r}')
        if isinstance(node, ast.Name):
            need(node.id in self.consts, f'default refers to the unknown name {node.id}')
            return str(self.consts[node.id])
        if isinstance(node, ast.Attribute):
            s = un(node)
            if s == 'lzma.PRESET_DEFAULT':
                return str(lzma.PRESET_DEFAULT)
            if s.startswith('FJMVersion.') and node.attr in self.versions:
                return str(self.versions[node.attr])
            if s == 'TerminationCause.Looping':
                return repr('Looping')
            raise GenError(f'unsupported attribute default {s}')
        if isinstance(node, ast.List):
            return '[' + ', '.join(self.value(e) for e in node.elts) + ']'
        if isinstance(node, ast.Call) and un(node) == 'list(range(10))':
            return '[' + ', '.join(str(i) for i in range(10)) + ']'
        raise GenError(f'unsupported default/choices expression {un(node)}')


def argparse_facts(tree, ev):
    """every `<group>.add_argument(...)` call in flipjump_cli.py"""
    rows = []
    for n in ast.walk(tree):
        if isinstance(n, ast.Call) and isinstance(n.func, ast.Attribute) and n.func.attr == 'add_argument':
            names = []
            for a in n.args:
                need(isinstance(a, ast.Constant) and isinstance(a.value, str), f'non-literal option string in {un(n)[:60]}')
                names.append(a.value)
            kw = {k.arg: k.value for k in n.keywords}
            need(None not in kw, '**kwargs in add_argument')
            unknown = set(kw) - {'help', 'action', 'default', 'type', 'choices', 'metavar', 'nargs', 'const'}
            need(not unknown, f'unrecognised add_argument keywords {sorted(unknown)} for {names}')
            action = ev.value(kw['action']).strip("'") if 'action' in kw else 'store'
            need(action in ('store', 'store_true'), f'unsupported action {action} for {names}')
            if 'default' in kw:
                default = ev.value(kw['default'])
            else:
                default = 'False' if action == 'store_true' else 'None'
            choices = ev.value(kw['choices']) if 'choices' in kw else ''
            nargs = ev.value(kw['nargs']).strip("'") if 'nargs' in kw else ''
            const = ev.value(kw['const']) if 'const' in kw else ''
            typ = un(kw['type']) if 'type' in kw else ''
            dest = [x for x in names if x.startswith('--')]
            dest = (dest[0][2:] if dest else names[0].lstrip('-')).replace('-', '_')
            rows.append((dest, ' '.join(names), action, default, choices, nargs, const, typ, n.lineno))
    need(len(rows) >= 15, f'only {len(rows)} add_argument calls found')
    rows.sort(key=lambda r: r[-1])
    dests = [r[0] for r in rows]
    need(len(set(dests)) == len(dests), 'duplicate argparse destination')
    return [r[:-1] for r in rows]


def mutually_exclusive(tree):
    f = func(tree, 'add_command_arguments')
    s = skeleton(body_nodoc(f))
    need(any('add_mutually_exclusive_group()' in x for x in s), '--asm/--run are no longer mutually exclusive')
    return s


def kw_defaults(tree, name, ev, cls=None):
    if cls:
        c = [n for n in tree.body if isinstance(n, ast.ClassDef) and n.name == cls]
        need(len(c) == 1, f'class {cls} not found')
        fs = [n for n in c[0].body if isinstance(n, ast.FunctionDef) and n.name == name]
        need(len(fs) == 1, f'{cls}.{name} not found')
        f = fs[0]
    else:
        f = func(tree, name)
    pos = [a.arg for a in f.args.args]
    need(not f.args.defaults or cls, f'{name}: positional defaults are not modelled')
    rows = []
    for a, d in zip(f.args.kwonlyargs, f.args.kw_defaults):
        need(d is not None, f'{name}: keyword-only parameter {a.arg} has no default')
        rows.append((a.arg, ev.value(d)))
    return pos, rows


def call_plumbing(fnode, callee):
    """the single call of `callee` inside fnode: positional args and keyword args as (name, expression)"""
    calls = [n for n in ast.walk(fnode) if isinstance(n, ast.Call) and un(n.func) == callee]
    need(len(calls) == 1, f'{fnode.name}: expected exactly one call of {callee}, found {len(calls)}')
    c = calls[0]
    need(all(k.arg is not None for k in c.keywords), f'{fnode.name}: **kwargs in the call of {callee}')
    return [(f'#{i}', ' '.join(un(a).split())) for i, a in enumerate(c.args)] + \
           [(k.arg, ' '.join(un(k.value).split())) for k in c.keywords]


def generate():
    pkg = fw.REPO / 'flipjump'
    consts = int_constants(pkg)
    versions = version_members(pkg)
    ev = Evaluator(consts, versions)
    cli = ast.parse((pkg / 'flipjump_cli.py').read_text(encoding='utf-8'))
    qs = ast.parse((pkg / 'flipjump_quickstart.py').read_text(encoding='utf-8'))
    wr = ast.parse((pkg / 'fjm' / 'fjm_writer.py').read_text(encoding='utf-8'))
    fn = ast.parse((pkg / 'utils' / 'functions.py').read_text(encoding='utf-8'))
    run_mod = ast.parse((pkg / 'interpreter' / 'fjm_run.py').read_text(encoding='utf-8'))

    args = argparse_facts(cli, ev)
    excl = mutually_exclusive(cli)

    api = {}
    for name in ('assemble', 'run', 'debug', 'assemble_and_run', 'assemble_and_debug', 'run_test_output',
                 'assemble_and_run_test_output'):
        api[name] = kw_defaults(qs, name, ev)
    wpos, wkw = kw_defaults(wr, '__init__', ev, cls='Writer')
    need(wpos == ['self', 'output_file', 'memory_width', 'version'], f'Writer.__init__ positional parameters changed: {wpos}')
    run_f = func(run_mod, 'run')
    run_params = [a.arg for a in run_f.args.args] + [a.arg for a in run_f.args.kwonlyargs]

    plumb = {
        'cli.assemble->Writer': call_plumbing(func(cli, 'assemble'), 'Writer'),
        'cli.assemble->assembler.assemble': call_plumbing(func(cli, 'assemble'), 'assembler.assemble'),
        'cli.assemble->get_file_tuples': call_plumbing(func(cli, 'assemble'), 'get_file_tuples'),
        'cli.run->debug': call_plumbing(func(cli, 'run'), 'flipjump_quickstart.debug'),
        'api.assemble->Writer': call_plumbing(func(qs, 'assemble'), 'Writer'),
        'api.assemble->assembler.assemble': call_plumbing(func(qs, 'assemble'), 'assembler.assemble'),
        'api.assemble->get_file_tuples': call_plumbing(func(qs, 'assemble'), 'get_file_tuples'),
        'api.run->debug': call_plumbing(func(qs, 'run'), 'debug'),
        'api.debug->fjm_run.run': call_plumbing(func(qs, 'debug'), 'fjm_run.run'),
        'api.debug->get_breakpoint_handler': call_plumbing(func(qs, 'debug'), 'get_breakpoint_handler'),
        'api.assemble_and_run->assemble_and_debug': call_plumbing(func(qs, 'assemble_and_run'), 'assemble_and_debug'),
        'api.assemble_and_debug->assemble': call_plumbing(func(qs, 'assemble_and_debug'), 'assemble'),
        'api.assemble_and_debug->debug': call_plumbing(func(qs, 'assemble_and_debug'), 'debug'),
    }
    skels = {
        'get_version': skeleton(body_nodoc(func(cli, 'get_version'))),
        'get_files_paths': skeleton(body_nodoc(func(cli, 'get_files_paths'))),
        'get_fjm_file_path': skeleton(body_nodoc(func(cli, 'get_fjm_file_path'))),
        'get_debug_file_path': skeleton(body_nodoc(func(cli, 'get_debug_file_path'))),
        'execute_assemble_run': skeleton(body_nodoc(func(cli, 'execute_assemble_run'))),
        'get_file_tuples': skeleton(body_nodoc(func(fn, 'get_file_tuples'))),
        'api_debug': skeleton(body_nodoc(func(qs, 'debug'))),
    }

    def rows(rs):
        return coq_list('(' + ', '.join(coq_str(x) for x in r) + ')' for r in rs)

    out = [
        '(* GENERATED by harness/fjverif/gen_facts_c20.py from the repository under test - do not edit. *)',
        'From Coq Require Import String List ZArith.',
        'Import ListNotations.',
        'Local Open Scope string_scope.',
        '',
        '(* argparse: (dest, option strings, action, default, choices, nargs, const, type) in source order *)',
        'Definition cli_arguments : list (string * string * string * string * string * string * string * string) :=',
        '  ' + rows(args) + '.',
        f'Definition cli_command_group : list string := {coq_strs(excl)}.',
        '',
        '(* FJMVersion members *)',
        f'Definition fjm_versions : list (string * string) := {coq_pairs((k, str(v)) for k, v in sorted(versions.items(), key=lambda kv: kv[1]))}.',
        '',
        '(* keyword-only defaults of the flipjump_quickstart functions and of Writer.__init__ *)',
    ]
    for name, (pos, kws) in api.items():
        out.append(f'Definition api_{name}_positional : list string := {coq_strs(pos)}.')
        out.append(f'Definition api_{name}_defaults : list (string * string) := {coq_pairs(kws)}.')
    out.append(f'Definition writer_defaults : list (string * string) := {coq_pairs(wkw)}.')
    out.append(f'Definition fjm_run_run_parameters : list string := {coq_strs(run_params)}.')
    out.append('')
    out.append('(* which expression each route passes for every parameter of the callee *)')
    for k, v in plumb.items():
        nm = 'plumb_' + k.replace('.', '_').replace('->', '_to_')
        out.append(f'Definition {nm} : list (string * string) := {coq_pairs(v)}.')
    out.append('')
    out.append('(* statement skeletons of the transcribed functions *)')
    for k, v in skels.items():
        out.append(f'Definition skel_{k} : list string := {coq_strs(v)}.')
    out.append('')
    return '\n'.join(out)


def write(ctx=None):
    try:
        text = generate()
    except (GenError, SyntaxError, OSError) as e:
        fw.write_if_changed(OUT, f'(* GENERATION FAILED (fail-closed): {str(e).replace("*)", "* )")} *)\n')
        return False, f'{type(e).__name__}: {e}'
    fw.write_if_changed(OUT, text)
    return True, str(OUT)


if __name__ == '__main__':
    ok, msg = write()
    print(('ok: ' if ok else 'FAILED: ') + msg)
    sys.exit(0 if ok else 1)
