"""Python mirror of coq/Spec/StlIOSpec.v (same names, same argument order) and the macro table of C09
(input / print / cast / buffer macros).

A spec instance is written once as a string, e.g. 'hex_print_dec_uint 2': it is pasted into the generated Coq theorem
(`hex_print_dec_uint 2 : iospec`) and evaluated here as SPECS_IO['hex_print_dec_uint'](2) ->
function(values, input bytes) ->
    ('done', values', exit, output bytes, input BITS used, clobbered variable indices) | ('eof', output bytes) | None
The check verifies on every run that both sides give the same answers on the sampled cases (mirror check inside
Coq), so this side is only used to judge the REAL engines and to describe expected behaviour in replays.

Table entries are stl_specs.M(...) dictionaries (see the docstring there) with these additions:
  vars    kinds 'hex' | 'bit' | 'byte' (one op whose jump word holds 8 data bits: a cell of a pointed byte buffer)
          | 'byte+' (the next cell of the same buffer: laid out right after the previous variable, no canary between)
  data    extra declaration lines placed after the variables ({pre} = the block's label prefix, {a}.. variables):
          pointers to buffers, constant strings, the NUL cell that ends a buffer
  dom     {placeholder: 'pin' | (lo, hi) | expression string} - the enumerated range of a variable when it is not
          the full one: 'pin' = one garbage value (pure OUTPUT variables), explicit in the theorem statement
  inst    parameter dicts may carry  A = alphabet name (ALPHA below; default 'none'), L = maximal input length
  twice   (in io) {'mix': call template | None}: the block sends its fall-through exit back to its entry once, so the SAME code
          instance runs twice (second pass from the local flags / buffers the first one left); `mix` is executed between the
          passes (printers: xors the extra variable {m} into the value); spec = io_twice nv mix (<spec>)
  stress, startup  (in io) sampled-only size sweeps on the real engines: operands 0, 1, 10^k-1, 10^k, 2^n-1, 2^(n-1), random
  sigmacro  (in io) macro name used in the violation signature instead of `name` (composed blocks that exhibit a listed finding)
  guard   Coq/python predicate instance `name args` : values -> input -> bool  describing the cases of a KNOWN,
          reported defect (theorem stated for `guarded_io guard spec`; `witness` gives (values, input) pairs for
          the generated `_refuted` examples; the real-engine runs keep using the unguarded spec)
"""
import re

from .stl_specs import M

# ---------------------------------------------------------------------------------------------------------
# alphabets.  'allbytes' is every byte value; the others are SAMPLES of bytes, one or two per class
ALPHA = {
    'none': [],
    'allbytes': list(range(256)),
    # digits 0 1 9 ; letters a F ; signs + - ; terminators \n NUL ; invalid: space (high nibble 2 like '-'),
    # ':' (high nibble 3 like the digits), 0xff
    'dec12': [0x30, 0x31, 0x39, 0x61, 0x46, 0x2b, 0x2d, 0x0a, 0x00, 0x20, 0x3a, 0xff],
    # hex-digit classes: 0 9 / : A F @ G a f ` g NUL 0xff \n 0xb1
    'hex16': [0x30, 0x39, 0x2f, 0x3a, 0x41, 0x46, 0x40, 0x47, 0x61, 0x66, 0x60, 0x67, 0x00, 0xff, 0x0a, 0xb1],
    # line readers: 'a' \n NUL 0xff '0' 0x0b (next to \n) 0x80
    'line7': [0x61, 0x0a, 0x00, 0xff, 0x30, 0x0b, 0x80],
    # small alphabets of the "same code instance twice" blocks (two numerals / lines per input)
    'dec4': [0x31, 0x39, 0x2d, 0x0a],                 # 1 9 - \n
    'dec5': [0x31, 0x39, 0x2d, 0x0a, 0x20],           # 1 9 - \n space
    'hex6': [0x30, 0x61, 0x46, 0x67, 0x00, 0xff],     # 0 a F g NUL 0xff
    'line3': [0x61, 0x0a, 0x00],                      # a \n NUL
}
ALPHA_COQ = {k: ('all_bytes' if k == 'allbytes' else f'alpha_{k}') for k in ALPHA}
ALPHA_TAG = {k: ('allbytes' if k == 'allbytes' else 'noinput' if k == 'none' else f'sample{len(v)}_{k}') for k, v in ALPHA.items()}


# ---------------------------------------------------------------------------------------------------------
# encodings

def digits_lsf(base, n, x):
    out = []
    for _ in range(n):
        out.append(x % base)
        x //= base
    return out


def digits_msf(base, n, x):
    return digits_lsf(base, n, x)[::-1]


def le_bytes(n, x):
    return digits_lsf(256, n, x)


def le_val(base, l):
    v = 0
    for d in reversed(l):
        v = d + base * v
    return v


def strip0(l):
    l = list(l)
    while len(l) >= 2 and l[0] == 0:
        l = l[1:]
    return l


def hexdig(upper, d):
    return 48 + d if d < 10 else (55 if upper else 87) + d


def hex_text(upper, n, x):
    return [hexdig(upper, d) for d in digits_msf(16, n, x)]


def hex_text_nz(upper, n, x):
    return [hexdig(upper, d) for d in strip0(digits_msf(16, n, x))]


def dec_text(x):
    nd = (x.bit_length() - 1 if x > 0 else 0) + 1        # N.log2 x + 1 digits are enough
    return [48 + d for d in strip0(digits_msf(10, nd, x))]


def prefix0x(p):
    return [] if p == 0 else [48, 120]


def is_neg(k, x):
    return (1 << (k - 1)) <= x


def magnitude(k, x):
    return (1 << k) - x if is_neg(k, x) else x


def minus_if(b):
    return [45] if b else []


def until_nul(n, l):
    out = []
    for c in l[:n]:
        if c == 0:
            break
        out.append(c)
    return out


def pr(vs, out):
    return ('done', list(vs), 0, list(out), 0, [])


def _ar(k):
    def deco(f):
        def g(vs, inb):
            if len(vs) != k:
                return None
            return f(*vs, inb=inb)
        return g
    return deco


def used_bytes(inb, rest, extra):
    return 8 * (len(inb) - len(rest) + extra)


def is_digit(c):
    return 48 <= c <= 57


def read_dec(acc, l):
    l = list(l)
    while l and is_digit(l[0]):
        acc = 10 * acc + (l[0] - 48)
        l = l[1:]
    return acc, l


def hexval(c):
    if is_digit(c):
        return c - 48
    if 65 <= c <= 70:
        return c - 55
    if 97 <= c <= 102:
        return c - 87
    return None


def read_dec_int(n, inb):
    M16 = 16 ** n
    if not inb:
        return 0, []
    if inb[0] == 45:
        v, rest = read_dec(0, inb[1:])
        return (M16 - v % M16) % M16, rest
    v, rest = read_dec(0, inb)
    return v % M16, rest


def is_terminator(b):
    return b == 10 or b == 0


def line_of(l):
    out = []
    for c in l:
        if is_terminator(c):
            return out, c
        out.append(c)
    return None


def overwrite(new, old):
    old = list(old)
    for i, v in enumerate(new):
        if i < len(old):
            old[i] = v
    return old


def _read_hex_digits(n):
    def f(x, inb):
        acc = 0
        l = list(inb)
        for _ in range(n):
            if not l:
                return ('eof', [])
            v = hexval(l[0])
            l = l[1:]
            if v is None:
                return ('done', [acc], 1, [], used_bytes(inb, l, 0), [0])
            acc = 16 * acc + v
        return ('done', [acc], 0, [], used_bytes(inb, l, 0), [])
    return f


def _dec_until(n, signed):
    def f(d, s, inb):
        v, rest = read_dec_int(n, inb) if signed else read_dec(0, inb)
        if not signed:
            v %= 16 ** n
        if not rest:
            return ('eof', [])
        return ('done', [v, rest[0]], 0, [], used_bytes(inb, rest, 1), [])
    return f


def _dec_line(n, signed):
    def f(d, inb):
        v, rest = read_dec_int(n, inb) if signed else read_dec(0, inb)
        if not signed:
            v %= 16 ** n
        if not rest:
            return ('eof', [])
        if is_terminator(rest[0]):
            return ('done', [v], 0, [], used_bytes(inb, rest, 1), [])
        return ('done', [v], 1, [], used_bytes(inb, rest, 1), [0])
    return f


def _cast(f):
    def g(vs, inb):
        r = f(list(vs))
        if r is None:
            return None
        vs2, x, cl = r
        return ('done', vs2, x, [], 0, cl)
    return g


def _input_le(n, msf=False):
    def f(d, inb):
        if len(inb) < n:
            return ('eof', [])
        bs = list(inb[:n])
        return ('done', [le_val(256, bs[::-1] if msf else bs)], 0, [], 8 * n, [])
    return f


def _ptr_line_in(k):
    def f(vs, inb):
        if len(vs) != k + 1:
            return None
        r = line_of(inb)
        if r is None:
            return None if len(inb) > k else ('eof', [])      # more unterminated bytes than cells: outside the spec
        ln, _ = r
        if len(ln) > k:
            return None
        return ('done', overwrite(ln, vs[:k]) + [len(ln)], 0, [], 8 * (len(ln) + 1), [])
    return f


def _ptr_text(k):
    def f(vs, inb):
        if len(vs) != k + 1 or vs[k] > k:
            return None
        return pr(vs, vs[:vs[k]])
    return f


def _ptr_line_out(k):
    def f(vs, inb):
        if len(vs) != k + 1:
            return None
        r = line_of(list(vs[:k]))
        if r is None:
            return None
        ln, t = r
        return pr(list(vs[:k]) + [len(ln)], ln + ([10] if t == 10 else []))
    return f


def _fill(k):
    def f(vs, inb):
        if len(vs) != k + 2 or vs[k] > k:
            return None
        cnt, v = vs[k], vs[k + 1]
        return pr(overwrite([v] * cnt, vs[:k]) + [cnt, v], [])
    return f


def _copy(k):
    def f(vs, inb):
        if len(vs) != 2 * k + 1 or vs[2 * k] > k:
            return None
        d, s, cnt = list(vs[:k]), list(vs[k:2 * k]), vs[2 * k]
        return pr(overwrite(s[:cnt], d) + s + [cnt], [])
    return f


def _ascii_rt(kind):
    def f(vs):
        if len(vs) != 4:
            return None
        v = vs[1]
        if kind == 10 and v > 9:
            return None
        return [hexdig(True, v) if kind == 16 else 48 + v, v, 0, v], 0, ([0] if kind == 16 else [])
    return f


def _echo_bytes(n, rev=False):
    def f(d, inb):
        if len(inb) < n:
            return ('eof', [])
        bs = list(inb[:n])[::-1] if rev else list(inb[:n])
        return ('done', [le_val(256, bs)], 0, bs, 8 * n, [])
    return f


def _echo_dec_int(n):
    def f(d, inb):
        v, rest = read_dec_int(n, inb)
        if not rest:
            return ('eof', [])
        if is_terminator(rest[0]):
            return ('done', [v], 0, minus_if(is_neg(4 * n, v)) + dec_text(magnitude(4 * n, v)), used_bytes(inb, rest, 1), [])
        return ('done', [v], 1, [], used_bytes(inb, rest, 1), [0])
    return f


def _echo_hex_digits(n):
    def f(d, inb):
        r = _read_hex_digits(n)(d, inb)
        if r[0] == 'done' and r[2] == 0:
            return ('done', r[1], 0, hex_text(False, n, r[1][0]), r[4], [])
        return r
    return f


SPECS_IO = {
    'stl_output_char': lambda c: (lambda vs, inb: pr(vs, [c % 256])),
    'stl_output_str': lambda c: (lambda vs, inb: pr(vs, le_bytes((c.bit_length() + 7) // 8, c))),
    'stl_output_bits': lambda c: (lambda vs, inb: pr(vs, [c % 256])),
    'hex_output2': lambda: _ar(2)(lambda a, b, inb: pr([a, b], [a + 16 * b])),
    'hex_print': lambda n: _ar(1)(lambda x, inb: pr([x], le_bytes(n, x))),
    'hex_print_as_digit': lambda n, up: _ar(1)(lambda x, inb: pr([x], hex_text(up != 0, n, x))),
    'hex_print_uint': lambda n, p, up: _ar(1)(lambda x, inb: pr([x], prefix0x(p) + hex_text_nz(up != 0, n, x))),
    'hex_print_digit': lambda up: _ar(2)(
        lambda h, ps, inb: pr([h, ps], []) if ps == 0 and h == 0 else pr([h, 1], [hexdig(up != 0, h)])),
    'hex_print_int': lambda n, p, up: _ar(1)(
        lambda x, inb: pr([x], minus_if(is_neg(4 * n, x)) + prefix0x(p) + hex_text_nz(up != 0, n, magnitude(4 * n, x)))),
    'hex_print_dec_uint': lambda n: _ar(1)(lambda x, inb: pr([x], dec_text(x))),
    'hex_print_dec_int': lambda n: _ar(1)(
        lambda x, inb: pr([x], minus_if(is_neg(4 * n, x)) + dec_text(magnitude(4 * n, x)))),
    'bit_output': lambda: _ar(1)(lambda x, inb: pr([x], [x])),
    'bit_print': lambda n: _ar(1)(lambda x, inb: pr([x], le_bytes(n, x))),
    'bit_print_str': lambda n: _ar(1)(lambda x, inb: pr([x], until_nul(n, le_bytes(n, x)))),
    'bit_print_str_one_char': lambda: _ar(1)(lambda c, inb: ('done', [c], 1, [], 0, []) if c == 0 else pr([c], [c])),
    'bit_print_as_digit': lambda n: _ar(1)(lambda x, inb: pr([x], [48 + d for d in digits_msf(2, n, x)])),
    'bit_print_hex_uint': lambda n, p: _ar(1)(lambda x, inb: pr([x], prefix0x(p) + hex_text_nz(True, n // 4, x))),
    'bit_print_hex_digit': lambda: _ar(2)(
        lambda h, fl, inb: pr([h, fl], []) if fl == 0 and h == 0 else pr([h, 1], [hexdig(True, h)])),
    'bit_print_hex_int': lambda n, p: _ar(1)(
        lambda x, inb: pr([x], minus_if(is_neg(n, x)) + prefix0x(p) + hex_text_nz(True, n // 4, magnitude(n, x)))),
    'bit_print_dec_uint': lambda n: _ar(1)(lambda x, inb: pr([x], dec_text(x))),
    'bit_print_dec_int': lambda n: _ar(1)(lambda x, inb: pr([x], minus_if(is_neg(n, x)) + dec_text(magnitude(n, x)))),
    'bit_print_char': lambda: _ar(2)(lambda a, fl, inb: None if a > 9 else pr([a, fl], [] if fl == 0 else [48 + a])),
    'bit_input_bit': lambda: _ar(1)(lambda d, inb: ('done', [inb[0] % 2], 0, [], 1, []) if inb else ('eof', [])),
    'bit_input': lambda n: _ar(1)(_input_le(n, msf=True)),
    'hex_input_hex': lambda: _ar(1)(lambda d, inb: ('done', [inb[0] % 16], 0, [], 4, []) if inb else ('eof', [])),
    'hex_input': lambda n: _ar(1)(_input_le(n)),
    'hex_input_as_hex': lambda n: _ar(1)(_read_hex_digits(n)),
    'hex_input_dec_uint_until': lambda n: _ar(2)(_dec_until(n, False)),
    'hex_input_dec_int_until': lambda n: _ar(2)(_dec_until(n, True)),
    'hex_input_dec_uint': lambda n: _ar(1)(_dec_line(n, False)),
    'hex_input_dec_int': lambda n: _ar(1)(_dec_line(n, True)),
    'bit_bin2ascii': lambda: _cast(lambda vs: ([48 + vs[1], vs[1]], 0, []) if len(vs) == 2 else None),
    'bit_dec2ascii': lambda: _cast(lambda vs: None if len(vs) != 2 or vs[1] > 9 else ([48 + vs[1], vs[1]], 0, [])),
    'bit_hex2ascii': lambda: _cast(lambda vs: ([hexdig(True, vs[1]), vs[1]], 0, []) if len(vs) == 2 else None),
    'bit_ascii2bin': lambda: _cast(lambda vs: None if len(vs) != 3 else
                                   ([0, vs[2] - 48, vs[2]], 0, []) if vs[2] in (48, 49) else ([1, vs[1], vs[2]], 0, [1])),
    'bit_ascii2dec': lambda: _cast(lambda vs: None if len(vs) != 3 else
                                   ([0, vs[2] - 48, vs[2]], 0, []) if is_digit(vs[2]) else ([1, vs[1], vs[2]], 0, [1])),
    'bit_ascii2hex': lambda: _cast(lambda vs: None if len(vs) != 3 else
                                   ([0, hexval(vs[2]), vs[2]], 0, [2]) if hexval(vs[2]) is not None else ([1, vs[1], vs[2]], 0, [1, 2])),
    'stl_bit2hex': lambda n: _cast(lambda vs: ([vs[1], vs[1]], 0, []) if len(vs) == 2 else None),
    'stl_hex2bit': lambda n: _cast(lambda vs: ([vs[1], vs[1]], 0, []) if len(vs) == 2 else None),
    'cast_roundtrip3': lambda: _cast(lambda vs: ([vs[0]] * 3, 0, []) if len(vs) == 3 else None),
    'ascii_roundtrip': lambda kind: _cast(_ascii_rt(kind)),
    'echo_bytes': lambda n: _ar(1)(_echo_bytes(n)),
    'echo_bytes_rev': lambda n: _ar(1)(_echo_bytes(n, rev=True)),
    'echo_dec_int': lambda n: _ar(1)(_echo_dec_int(n)),
    'echo_hex_digits': lambda n: _ar(1)(_echo_hex_digits(n)),
    'hex_input_ptr_line': _ptr_line_in,
    'hex_print_ptr_text': _ptr_text,
    'hex_print_ptr_line': _ptr_line_out,
    'hex_fill_bytes': _fill,
    'hex_copy_bytes': _copy,
}

# python mirrors of the known-defect predicates of StlIOSpec.v (none at present)
GUARDS_IO = {}


def _inst_fn(table, inst):
    toks = inst.split()
    return table[toks[0]](*[int(t, 0) for t in toks[1:]])


def io_twice(nv, mix, S):
    """mirror of StlIOSpec.io_twice: the same code instance executed twice"""
    def f(vs, inb):
        a, ex = list(vs[:nv]), list(vs[nv:])
        r = S(a, list(inb))
        if r is None or r[0] == 'eof':
            return r
        _, v1, x1, o1, u1, c1 = r
        if x1 != 0:
            return ('done', list(v1) + ex, x1, o1, u1, c1)
        if u1 % 8:
            return None
        v1 = list(v1)
        if mix and v1 and ex:
            v1[0] ^= ex[0]
        r2 = S(v1, list(inb[u1 // 8:]))
        if r2 is None:
            return None
        if r2[0] == 'eof':
            return ('eof', list(o1) + list(r2[1]))
        _, v2, x2, o2, u2, c2 = r2
        return ('done', list(v2) + ex, x2, list(o1) + list(o2), u1 + u2, list(c1) + list(c2))
    return f


def spec_fn(inst):
    m = re.match(r'^io_twice (\d+) (\d+) \((.*)\)$', inst)
    if m:
        return io_twice(int(m.group(1)), int(m.group(2)), spec_fn(m.group(3)))
    return _inst_fn(SPECS_IO, inst)


def guard_fn(inst):
    return _inst_fn(GUARDS_IO, inst)


# ---------------------------------------------------------------------------------------------------------
# the C09 macro table

def E(name, file, sig, call, vars, spec, io=None, **kw):
    """M(...) + the IO additions (data, dom)"""
    io = io or {}
    e = M(name, file, sig, call, vars, spec, **kw)
    e['sigmacro'] = io.get('sigmacro')
    e['twice'] = io.get('twice')          # None | {'mix': call template or None}: the same code instance executed twice
    e['stress'] = io.get('stress')        # 'dec': sampled-only size sweep with operands that stress the decimal digit count
    e['startup'] = io.get('startup')      # start-up line of sampled-only sweep blocks (default: the Config's)
    e['data'] = list(io.get('data', []))
    e['dom'] = dict(io.get('dom', {}))
    return e


def I(quick, thorough, sample=()):
    return {'quick': list(quick), 'thorough': list(thorough), 'sample': list(sample)}


def P(**kw):
    return dict(**kw)


DECBUF = '(n*28//93+1)'
T_BITDEC = [('dst', 'max(n,4)'), ('src', 'max(n,4)'), ('print_buffer', f'4*{DECBUF}'), ('print_buffer_flag', DECBUF),
            ('zero_flag', '1'), ('ret_reg', '1'), ('carry', '1'), ('_src', '1')]
T_HEXDEC = [('bit', '4*n'), ('dst', '4*n'), ('src', '4*n'), ('print_buffer', '4*(4*n*28//93+1)'),
            ('print_buffer_flag', '(4*n*28//93+1)'), ('zero_flag', '1'), ('ret_reg', '1'), ('carry', '1'), ('_src', '1')]
T_DECIN = [('digit', 'n'), ('neg', '1'), ('stopper', '2'), ('carry', '1')]
T_PTR = [('wptr', 'w//4'), ('pptr', 'w//4'), ('rptr', 'w//4'), ('cnt', 'w//4'), ('bytebuf', '2')]
PTR_DATA = ['{pre}_p: hex.vec w/4, {c0}']
PINLEN = {'len': 'pin'}


def cells(k, first='c'):
    return [(f'{first}{i}', 'byte' if i == 0 else 'byte+', '1') for i in range(k)]


def cellvars(k, first='c'):
    return ', '.join('{' + f'{first}{i}' + '}' for i in range(k))


def _strings_entries():
    out = []
    for k in (1, 2, 3):
        # every cell over [0, 11): NUL, '\n' and ordinary bytes at every position
        small = {f'c{i}': (0, 11) for i in range(k)}
        pinned = {f'c{i}': 'pin' for i in range(k)}
        first_full = dict({f'c{i}': 'pin' for i in range(1, k)})
        out.append(E(f'hex.input_ptr_line/k{k}', 'hex/strings.fj', 'def input_ptr_line ptr, len', 'hex.input_ptr_line {pre}_p, {len}',
                     cells(k) + [('len', 'hex', 'w//4')], f'hex_input_ptr_line {k}', temps=T_PTR,
                     io={'data': PTR_DATA, 'dom': dict(pinned, len='pin')},
                     inst=I([P(A='line7', L=3)] if k == 2 else [], [P(A='line7', L=k + 1)]),
                     note=f'buffer of {k} byte cell(s) behind the pointer; lines longer than the buffer are outside the spec'))
        out.append(E(f'hex.print_ptr_text/k{k}', 'hex/strings.fj', 'def print_ptr_text ptr, len', 'hex.print_ptr_text {pre}_p, {len}',
                     cells(k) + [('len', 'hex', 'w//4')], f'hex_print_ptr_text {k}', temps=T_PTR,
                     io={'data': PTR_DATA, 'dom': dict(first_full, len=(0, k + 1))},
                     inst=I([P(cap=48)] if k == 2 else [], [P()]),
                     note='first cell over all 256 byte values, the others pinned, every length 0..k'))
        out.append(E(f'hex.print_ptr_line/k{k}', 'hex/strings.fj', 'def print_ptr_line ptr, len', 'hex.print_ptr_line {pre}_p, {len}',
                     cells(k + 1) + [('len', 'hex', 'w//4')], f'hex_print_ptr_line {k + 1}', temps=T_PTR,
                     io={'data': PTR_DATA, 'dom': dict(small if k > 1 else {}, len='pin', **{f'c{k}': (0, 1)})},
                     inst=I([P()] if k <= 2 else [], [P()]),
                     note='k = 1: the cell over all bytes; k > 1: every cell over 0..10 (NUL and newline at every position); '
                          'the last cell of the buffer is a NUL (a buffer without terminator is outside the spec)'))
        out.append(E(f'hex.fill_bytes/k{k}', 'hex/strings.fj', 'def fill_bytes ptr, count, value', 'hex.fill_bytes {pre}_p, {len}, {v}',
                     cells(k) + [('len', 'hex', 'w//4'), ('v', 'hex', '2')], f'hex_fill_bytes {k}', temps=T_PTR,
                     io={'data': PTR_DATA, 'dom': dict(pinned, len=(0, k + 1))},
                     inst=I([P(cap=48)] if k == 2 else [], [P()] if k >= 2 else [])))
        out.append(E(f'hex.copy_bytes/k{k}', 'hex/strings.fj', 'def copy_bytes dst_ptr, src_ptr, count',
                     'hex.copy_bytes {pre}_p, {pre}_q, {len}',
                     cells(k, 'c') + [(f's{i}', 'byte' if i == 0 else 'byte+', '1') for i in range(k)] + [('len', 'hex', 'w//4')],
                     f'hex_copy_bytes {k}', temps=T_PTR,
                     io={'data': PTR_DATA + ['{pre}_q: hex.vec w/4, {s0}'],
                         'dom': dict(pinned, len=(0, k + 1), **{f's{i}': 'pin' for i in range(1, k)})},
                     inst=I([P(cap=48)] if k == 2 else [], [P()] if k >= 2 else []),
                     note='first source cell over all 256 byte values, destination pinned, every count 0..k'))
    return out


def combos(n_list, prefixes=(0, 1), uppers=(0, 1)):
    return [P(n=n, p=p, up=u) for n in n_list for p in prefixes for u in uppers]


OUTBITS = '\n    '.join(f'stl.output_bit {b}' for b in (1, 0, 1, 0, 0, 1, 0, 2))      # 0xa5, lsb first ("anything else" = 1)
PAD7 = '\n    '.join(['stl.output_bit 0'] * 7)

C09 = [
    # ---- runlib.fj
    E('stl.output_char', 'runlib.fj', 'def output_char ascii', 'stl.output_char {c}', [], 'stl_output_char {c}',
      inst=I([P(c=0x41)], [P(c=c) for c in (0, 0x41, 0x80, 0xff, 0x141)])),
    E('stl.output', 'runlib.fj', 'def output str', 'stl.output {s}', [], 'stl_output_str {c}',
      inst=I([P(s='"Hi\\n"', c=0x0a6948)], [P(s='"Hi\\n"', c=0x0a6948), P(s='"0x"', c=0x7830), P(s="'-'", c=45)])),
    E('stl.output_bit', 'runlib.fj', 'def output_bit bit', OUTBITS, [], 'stl_output_bits 165', inst=I([P()], [P()]),
      note='eight calls with constant bits: one byte'),
    # ---- hex/output.fj
    E('hex.output', 'hex/output.fj', 'def output hex', 'hex.output {a}\n    hex.output {b}', [('a', 'hex', '1'), ('b', 'hex', '1')],
      'hex_output2', inst=I([P()], [P()]), note='two calls: one byte'),
    E('hex.print/1', 'hex/output.fj', 'def print x', 'hex.print {a}', [('a', 'hex', '2')], 'hex_print 1', inst=I([P()], [P()])),
    E('hex.print', 'hex/output.fj', 'def print n, x', 'hex.print {n}, {a}', [('a', 'hex', '2*n')], 'hex_print {n}',
      inst=I([P(n=1)], [P(n=1), P(n=2)], [P(n=4), P(n=8)])),
    E('hex.print_as_digit/1', 'hex/output.fj', 'def print_as_digit hex, use_uppercase', 'hex.print_as_digit {a}, {up}',
      [('a', 'hex', '1')], 'hex_print_as_digit 1 {up}', inst=I([P(up=0), P(up=1)], [P(up=0), P(up=1)])),
    E('hex.print_as_digit', 'hex/output.fj', 'def print_as_digit n, x, use_uppercase', 'hex.print_as_digit {n}, {a}, {up}',
      [('a', 'hex', 'n')], 'hex_print_as_digit {n} {up}',
      inst=I([P(n=2, up=0), P(n=2, up=1)], [P(n=n, up=u) for n in (1, 2, 3) for u in (0, 1)] + [P(n=4, up=1, w=[64])],
             [P(n=8, up=0), P(n=16, up=1)])),
    E('hex.print_uint', 'hex/output.fj', 'def print_uint n, x, x_prefix, use_uppercase', 'hex.print_uint {n}, {a}, {p}, {up}',
      [('a', 'hex', 'n')], 'hex_print_uint {n} {p} {up}', temps=[('printed_something', '1')],
      inst=I([P(n=2, p=0, up=0), P(n=2, p=1, up=1)], combos([1, 2, 3]) + [P(n=4, p=1, up=0, w=[64])],
             [P(n=8, p=1, up=1), P(n=16, p=0, up=0)])),
    E('hex.print_uint.print_digit', 'hex/output.fj', 'def print_digit hex, printed_something, use_uppercase',
      'hex.print_uint.print_digit {a}, {b}, {up}', [('a', 'hex', '1'), ('b', 'bit', '1')], 'hex_print_digit {up}',
      inst=I([P(up=1)], [P(up=0), P(up=1)])),
    E('hex.print_int', 'hex/output.fj', 'def print_int n, x, x_prefix, use_uppercase', 'hex.print_int {n}, {a}, {p}, {up}',
      [('a', 'hex', 'n')], 'hex_print_int {n} {p} {up}', temps=[('printed_something', '1'), ('neg', '1')],
      inst=I([P(n=2, p=1, up=0), P(n=2, p=0, up=1)], combos([1, 2, 3]) + [P(n=4, p=1, up=1, w=[64])],
             [P(n=8, p=1, up=1), P(n=16, p=0, up=0)])),
    E('hex.print_dec_uint', 'hex/output.fj', 'def print_dec_uint n, x', 'hex.print_dec_uint {n}, {a}', [('a', 'hex', 'n')],
      'hex_print_dec_uint {n}', temps=T_HEXDEC,
      inst=I([P(n=1), P(n=2)], [P(n=1), P(n=2), P(n=3), P(n=4, w=[64])], [P(n=4), P(n=8), P(n=16)])),
    E('hex.print_dec_int', 'hex/output.fj', 'def print_dec_int n, x', 'hex.print_dec_int {n}, {a}', [('a', 'hex', 'n')],
      'hex_print_dec_int {n}', temps=T_HEXDEC + [('neg', '1')],
      inst=I([P(n=2)], [P(n=1), P(n=2), P(n=3)], [P(n=4), P(n=8), P(n=16)])),
    # ---- bit/output.fj
    E('bit.output', 'bit/output.fj', 'def output x', 'bit.output {a}\n    ' + PAD7, [('a', 'bit', '1')], 'bit_output',
      inst=I([P()], [P()]), note='followed by seven constant 0 bits: one byte'),
    E('bit.print/1', 'bit/output.fj', 'def print x', 'bit.print {a}', [('a', 'bit', '8')], 'bit_print 1', inst=I([P()], [P()])),
    E('bit.print', 'bit/output.fj', 'def print n, x', 'bit.print {n}, {a}', [('a', 'bit', '8*n')], 'bit_print {n}',
      inst=I([P(n=1)], [P(n=1), P(n=2, w=[64])], [P(n=4), P(n=8)])),
    E('bit.print_str', 'bit/output.fj', 'def print_str n, x', 'bit.print_str {n}, {a}', [('a', 'bit', '8*n')], 'bit_print_str {n}',
      inst=I([P(n=1)], [P(n=1), P(n=2, w=[64])], [P(n=3), P(n=5)])),
    E('bit._.print_str_one_char', 'bit/output.fj', 'def print_str_one_char char, end', 'bit._.print_str_one_char {a}, {x1}',
      [('a', 'bit', '8')], 'bit_print_str_one_char', exits=1, inst=I([P()], [P()])),
    E('bit.print_as_digit/1', 'bit/output.fj', 'def print_as_digit x', 'bit.print_as_digit {a}', [('a', 'bit', '1')],
      'bit_print_as_digit 1', inst=I([P()], [P()])),
    E('bit.print_as_digit', 'bit/output.fj', 'def print_as_digit n, x', 'bit.print_as_digit {n}, {a}', [('a', 'bit', 'n')],
      'bit_print_as_digit {n}', inst=I([P(n=4)], [P(n=1), P(n=2), P(n=4), P(n=8)], [P(n=16)])),
    E('bit.print_hex_uint', 'bit/output.fj', 'def print_hex_uint n, x, x_prefix', 'bit.print_hex_uint {n}, {a}, {p}',
      [('a', 'bit', 'n')], 'bit_print_hex_uint {n} {p}', temps=[('printed_flag', '1'), ('ascii', '8'), ('carry', '1')],
      inst=I([P(n=8, p=0), P(n=8, p=1)], [P(n=n, p=p) for n in (4, 8) for p in (0, 1)] + [P(n=12, p=1, w=[64])],
             [P(n=16, p=1), P(n=32, p=0)])),
    E('bit.print_hex_uint.print_digit', 'bit/output.fj', 'def print_digit hex, printed_flag',
      'bit.print_hex_uint.print_digit {a}, {b}', [('a', 'bit', '4'), ('b', 'bit', '1')], 'bit_print_hex_digit',
      temps=[('ascii', '8'), ('carry', '1')], inst=I([P()], [P()])),
    E('bit.print_hex_int', 'bit/output.fj', 'def print_hex_int n, x, x_prefix', 'bit.print_hex_int {n}, {a}, {p}',
      [('a', 'bit', 'n')], 'bit_print_hex_int {n} {p}', temps=[('printed_flag', '1'), ('ascii', '8'), ('neg', '1'), ('carry', '1')],
      inst=I([P(n=8, p=1)], [P(n=n, p=p) for n in (4, 8) for p in (0, 1)] + [P(n=12, p=0, w=[64])], [P(n=16, p=1), P(n=32, p=0)])),
    E('bit.print_dec_uint', 'bit/output.fj', 'def print_dec_uint n, x', 'bit.print_dec_uint {n}, {a}', [('a', 'bit', 'n')],
      'bit_print_dec_uint {n}', temps=T_BITDEC,
      inst=I([P(n=3), P(n=8)], [P(n=n) for n in (1, 2, 3, 4, 7, 8, 10)] + [P(n=12, w=[64])], [P(n=16), P(n=32)])),
    E('bit.print_dec_int', 'bit/output.fj', 'def print_dec_int n, x', 'bit.print_dec_int {n}, {a}', [('a', 'bit', 'n')],
      'bit_print_dec_int {n}', temps=T_BITDEC + [('neg', '1')],
      inst=I([P(n=8)], [P(n=n) for n in (2, 4, 8, 10)] + [P(n=12, w=[64])], [P(n=16), P(n=32)])),
    E('bit.print_dec_uint.print_char', 'bit/output.fj', 'def print_char ascii4, char_flag',
      'bit.print_dec_uint.print_char {a}, {b}', [('a', 'bit', '4'), ('b', 'bit', '1')], 'bit_print_char', inst=I([P()], [P()])),
    # ---- bit/input.fj
    E('bit.input_bit', 'bit/input.fj', 'def input_bit dst', 'bit.input_bit {a}', [('a', 'bit', '1')], 'bit_input_bit',
      inst=I([P(A='allbytes', L=1)], [P(A='allbytes', L=1), P(A='allbytes', L=2, w=[64], pin=1)]), pin={'a': 1}),
    E('bit.input/1', 'bit/input.fj', 'def input dst', 'bit.input {a}', [('a', 'bit', '8')], 'bit_input 1', io={'dom': {'a': 'pin'}},
      inst=I([P(A='allbytes', L=1)], [P(A='allbytes', L=1), P(A='allbytes', L=2, w=[64])])),
    E('bit.input', 'bit/input.fj', 'def input n, dst', 'bit.input {n}, {a}', [('a', 'bit', '8*n')], 'bit_input {n}',
      io={'dom': {'a': 'pin'}}, inst=I([P(n=2, A='hex16', L=3)], [P(n=1, A='allbytes', L=2, w=[64]), P(n=2, A='allbytes', L=2, w=[64]), P(n=3, A='hex16', L=3)]),
      note='the first byte read is the most significant one'),
    # ---- hex/input.fj
    E('hex.input_hex', 'hex/input.fj', 'def input_hex hex', 'hex.input_hex {a}', [('a', 'hex', '1')], 'hex_input_hex',
      inst=I([P(A='allbytes', L=1)], [P(A='allbytes', L=1), P(A='allbytes', L=2, pin=1, w=[64])]), io={'dom': {}}, pin={'a': 0xa}),
    E('hex.input/1', 'hex/input.fj', 'def input byte', 'hex.input {a}', [('a', 'hex', '2')], 'hex_input 1', io={'dom': {'a': 'pin'}},
      inst=I([P(A='allbytes', L=1)], [P(A='allbytes', L=1), P(A='allbytes', L=2, w=[64])])),
    E('hex.input', 'hex/input.fj', 'def input n, bytes', 'hex.input {n}, {a}', [('a', 'hex', '2*n')], 'hex_input {n}',
      io={'dom': {'a': 'pin'}}, inst=I([P(n=2, A='hex16', L=3)], [P(n=1, A='allbytes', L=2, w=[64]), P(n=2, A='allbytes', L=2, w=[64]), P(n=3, A='hex16', L=3)])),
    E('hex.input_as_hex/1', 'hex/input.fj', 'def input_as_hex hex, error', 'hex.input_as_hex {a}, {x1}', [('a', 'hex', '1')],
      'hex_input_as_hex 1', exits=1, temps=[('upper', '1')], pin={'a': 0x5},
      inst=I([P(A='allbytes', L=1)], [P(A='allbytes', L=1), P(A='allbytes', L=2, pin=1, w=[64])])),
    E('hex.input_as_hex', 'hex/input.fj', 'def input_as_hex n, hex, error', 'hex.input_as_hex {n}, {a}, {x1}', [('a', 'hex', 'n')],
      'hex_input_as_hex {n}', exits=1, temps=[('upper', '1')], io={'dom': {'a': 'pin'}},
      inst=I([P(n=2, A='hex16', L=3)], [P(n=2, A='allbytes', L=2, w=[64]), P(n=2, A='hex16', L=3), P(n=3, A='hex16', L=3)])),
    E('hex.input_dec_uint_until', 'hex/input.fj', 'def input_dec_uint_until n, dst, stop_byte',
      'hex.input_dec_uint_until {n}, {a}, {b}', [('a', 'hex', 'n'), ('b', 'hex', '2')], 'hex_input_dec_uint_until {n}',
      temps=T_DECIN, io={'dom': {'a': 'pin', 'b': 'pin'}},
      inst=I([P(n=2, A='dec12', L=3)], [P(n=1, A='dec12', L=3), P(n=2, A='dec12', L=3)], [P(n=4, A='dec12', L=7), P(n=8, A='dec12', L=12)])),
    E('hex.input_dec_int_until', 'hex/input.fj', 'def input_dec_int_until n, dst, stop_byte',
      'hex.input_dec_int_until {n}, {a}, {b}', [('a', 'hex', 'n'), ('b', 'hex', '2')], 'hex_input_dec_int_until {n}',
      temps=T_DECIN, io={'dom': {'a': 'pin', 'b': 'pin'}},
      inst=I([P(n=2, A='dec12', L=3)], [P(n=1, A='dec12', L=3), P(n=2, A='dec12', L=3)], [P(n=4, A='dec12', L=7), P(n=8, A='dec12', L=12)])),
    E('hex.input_dec_uint', 'hex/input.fj', 'def input_dec_uint n, dst, error', 'hex.input_dec_uint {n}, {a}, {x1}',
      [('a', 'hex', 'n')], 'hex_input_dec_uint {n}', exits=1, temps=T_DECIN, io={'dom': {'a': 'pin'}},
      inst=I([P(n=2, A='dec12', L=3)], [P(n=1, A='dec12', L=3), P(n=2, A='dec12', L=3, w=[32]), P(n=2, A='dec12', L=4, w=[64])], [P(n=4, A='dec12', L=7), P(n=8, A='dec12', L=12)])),
    E('hex.input_dec_int', 'hex/input.fj', 'def input_dec_int n, dst, error', 'hex.input_dec_int {n}, {a}, {x1}',
      [('a', 'hex', 'n')], 'hex_input_dec_int {n}', exits=1, temps=T_DECIN, io={'dom': {'a': 'pin'}},
      inst=I([P(n=2, A='dec12', L=3)], [P(n=1, A='dec12', L=3), P(n=2, A='dec12', L=3, w=[32]), P(n=2, A='dec12', L=4, w=[64])], [P(n=4, A='dec12', L=7), P(n=8, A='dec12', L=12)])),
    # ---- bit/casting.fj
    E('bit.str', 'bit/casting.fj', 'def str str', 'bit.print_str 4, {pre}_s', [], 'stl_output_str 2189640',
      io={'data': ['{pre}_s: bit.str "Hi!"']}, inst=I([P()], [P()]),
      note='the declared vector holds the bytes of the string and a NUL: printing it with bit.print_str gives the string back'),
    E('bit.bin2ascii', 'bit/casting.fj', 'def bin2ascii ascii, bin', 'bit.bin2ascii {a}, {b}', [('a', 'bit', '8'), ('b', 'bit', '1')],
      'bit_bin2ascii', inst=I([P()], [P()])),
    E('bit.dec2ascii', 'bit/casting.fj', 'def dec2ascii ascii, dec', 'bit.dec2ascii {a}, {b}', [('a', 'bit', '8'), ('b', 'bit', '4')],
      'bit_dec2ascii', io={'dom': {'b': (0, 10)}}, inst=I([P(pin=1)], [P()]), pin={'a': 0xa5}),
    E('bit.hex2ascii', 'bit/casting.fj', 'def hex2ascii ascii, hex', 'bit.hex2ascii {a}, {b}', [('a', 'bit', '8'), ('b', 'bit', '4')],
      'bit_hex2ascii', temps=[('carry', '1')], inst=I([P(pin=1)], [P()]), pin={'a': 0xa5}),
    E('bit.ascii2bin', 'bit/casting.fj', 'def ascii2bin error, bin, ascii', 'bit.ascii2bin {e}, {b}, {a}',
      [('e', 'bit', '1'), ('b', 'bit', '1'), ('a', 'bit', '8')], 'bit_ascii2bin', inst=I([P()], [P()])),
    E('bit.ascii2dec', 'bit/casting.fj', 'def ascii2dec error, dec, ascii', 'bit.ascii2dec {e}, {b}, {a}',
      [('e', 'bit', '1'), ('b', 'bit', '4'), ('a', 'bit', '8')], 'bit_ascii2dec', inst=I([P(pin=1)], [P()]), pin={'b': 0xa}),
    E('bit.ascii2hex', 'bit/casting.fj', 'def ascii2hex error, hex, ascii', 'bit.ascii2hex {e}, {b}, {a}',
      [('e', 'bit', '1'), ('b', 'bit', '4'), ('a', 'bit', '8')], 'bit_ascii2hex', temps=[('carry', '1')],
      inst=I([P(pin=1)], [P()]), pin={'b': 0x5},
      note='`ascii` is a clobbered operand: the macro increments its low three bits on the letter paths and the documentation is silent '
           'about it (decided: not a finding)'),
    # ---- casting.fj
    E('stl.bit2hex/1', 'casting.fj', 'def bit2hex hex, bit', 'stl.bit2hex {a}, {b}', [('a', 'hex', '1'), ('b', 'bit', '1')],
      'stl_bit2hex 1', inst=I([P()], [P()])),
    E('stl.bit2hex', 'casting.fj', 'def bit2hex n, hex, bit', 'stl.bit2hex {n}, {a}, {b}', [('a', 'hex', '(n+3)//4'), ('b', 'bit', 'n')],
      'stl_bit2hex {n}', inst=I([P(n=4), P(n=6, cap=16)], [P(n=n) for n in (1, 2, 3, 4, 5, 7)] + [P(n=8, w=[64])], [P(n=16), P(n=31), P(n=64)])),
    E('stl.hex2bit/1', 'casting.fj', 'def hex2bit bit, hex', 'stl.hex2bit {a}, {b}', [('a', 'bit', '4'), ('b', 'hex', '1')],
      'stl_hex2bit 1', inst=I([P()], [P()])),
    E('stl.hex2bit', 'casting.fj', 'def hex2bit n, bit, hex', 'stl.hex2bit {n}, {a}, {b}', [('a', 'bit', '4*n')  , ('b', 'hex', 'n')],
      'stl_hex2bit {n}', inst=I([P(n=1)], [P(n=1), P(n=2, w=[64])], [P(n=4), P(n=8), P(n=16)])),
    E('roundtrip hex->bit->hex', 'casting.fj', 'def hex2bit n, bit, hex', 'stl.hex2bit {n}, {b}, {a}\n    stl.bit2hex 4*{n}, {c}, {b}',
      [('a', 'hex', 'n'), ('b', 'bit', '4*n'), ('c', 'hex', 'n')], 'cast_roundtrip3', io={'dom': {'b': 'pin', 'c': 'pin'}},
      inst=I([P(n=2)], [P(n=1), P(n=2), P(n=3), P(n=4, w=[64])], [P(n=8), P(n=16)])),
    E('roundtrip bit->hex->bit', 'casting.fj', 'def bit2hex n, hex, bit', 'stl.bit2hex {n}, {b}, {a}\n    stl.hex2bit {n}/4, {c}, {b}',
      [('a', 'bit', 'n'), ('b', 'hex', 'n//4'), ('c', 'bit', 'n')], 'cast_roundtrip3', io={'dom': {'b': 'pin', 'c': 'pin'}},
      inst=I([P(n=8)], [P(n=4), P(n=8), P(n=12)], [P(n=16), P(n=32), P(n=64)])),
    E('roundtrip hex->ascii->hex', 'bit/casting.fj', 'def hex2ascii ascii, hex', 'bit.hex2ascii {a}, {b}\n    bit.ascii2hex {e}, {c}, {a}',
      [('a', 'bit', '8'), ('b', 'bit', '4'), ('e', 'bit', '1'), ('c', 'bit', '4')], 'ascii_roundtrip 16', temps=[('carry', '1')],
      io={'dom': {'a': 'pin'}}, inst=I([P()], [P()]),
      note='the intermediate ascii is clobbered by ascii2hex (see there); the value and error = 0 are what is proved'),
    E('roundtrip dec->ascii->dec', 'bit/casting.fj', 'def dec2ascii ascii, dec', 'bit.dec2ascii {a}, {b}\n    bit.ascii2dec {e}, {c}, {a}',
      [('a', 'bit', '8'), ('b', 'bit', '4'), ('e', 'bit', '1'), ('c', 'bit', '4')], 'ascii_roundtrip 10',
      io={'dom': {'a': 'pin', 'b': (0, 10)}}, inst=I([P()], [P()])),
    E('roundtrip bin->ascii->bin', 'bit/casting.fj', 'def bin2ascii ascii, bin', 'bit.bin2ascii {a}, {b}\n    bit.ascii2bin {e}, {c}, {a}',
      [('a', 'bit', '8'), ('b', 'bit', '1'), ('e', 'bit', '1'), ('c', 'bit', '1')], 'ascii_roundtrip 2',
      io={'dom': {'a': 'pin'}}, inst=I([P()], [P()])),
    # ---- exact inverses, composed (read then print in one block)
    E('echo hex.input;hex.print', 'hex/input.fj', 'def input n, bytes', 'hex.input {n}, {a}\n    hex.print {n}, {a}', [('a', 'hex', '2*n')],
      'echo_bytes {n}', io={'dom': {'a': 'pin'}},
      inst=I([P(n=2, A='hex16', L=3)], [P(n=1, A='allbytes', L=1), P(n=2, A='hex16', L=3), P(n=2, A='allbytes', L=2, w=[64])]),
      note='hex.input n then hex.print n on the same variable echoes the bytes read'),
    E('echo bit.input;bit.print', 'bit/input.fj', 'def input n, dst', 'bit.input {n}, {a}\n    bit.print {n}, {a}', [('a', 'bit', '8*n')],
      'echo_bytes_rev {n}', io={'dom': {'a': 'pin'}},
      inst=I([P(n=2, A='hex16', L=3)], [P(n=1, A='allbytes', L=1), P(n=2, A='hex16', L=3), P(n=3, A='hex16', L=3, w=[64])]),
      note='bit.input n stores the first byte as the most significant one and bit.print n prints from the least significant byte: '
           'the two documented contracts together give the bytes read in REVERSE order'),
    E('echo hex.input_dec_int;hex.print_dec_int', 'hex/input.fj', 'def input_dec_int n, dst, error',
      'hex.input_dec_int {n}, {a}, {x1}\n    hex.print_dec_int {n}, {a}', [('a', 'hex', 'n')], 'echo_dec_int {n}', exits=1,
      temps=T_DECIN + T_HEXDEC, io={'dom': {'a': 'pin'}},
      inst=I([P(n=2, A='dec12', L=3)], [P(n=2, A='dec12', L=3)]),
      note='the text printed is the canonical decimal form (sign, no leading zeros) of the number read, mod 16^n'),
    E('echo hex.input_as_hex;hex.print_as_digit', 'hex/input.fj', 'def input_as_hex n, hex, error',
      'hex.input_as_hex {n}, {a}, {x1}\n    hex.print_as_digit {n}, {a}, 0', [('a', 'hex', 'n')], 'echo_hex_digits {n}', exits=1,
      temps=[('upper', '1')], io={'dom': {'a': 'pin'}}, inst=I([P(n=2, A='hex16', L=3)], [P(n=2, A='hex16', L=3), P(n=3, A='hex16', L=3, w=[64])])),
] + _strings_entries()

# ---------------------------------------------------------------------------------------------------------
# the SAME code instance executed twice (local flags / buffers / carries left by the first pass), see StlIOSpec.io_twice

_BY = {e['name']: e for e in C09}


def TW(base, inst, mix=None, note=None):
    b = _BY[base]
    e = dict(b)
    nv = len(b['vars'])
    e['name'] = 'twice: ' + base
    e['vars'] = list(b['vars'])
    e['dom'] = dict(b['dom'])
    if mix:
        ph, kind, ex = b['vars'][0]
        bits = f"({4 if kind == 'hex' else 1})*({ex})"
        e['vars'].append(('m', kind, ex))
        e['dom']['m'] = f'((1 << ({bits})) - 2, (1 << ({bits})) - 1)'      # value ^ 0xff..fe: (all digits, one digit) in both orders
    e['twice'] = {'mix': mix}
    e['spec'] = f"io_twice {nv} {1 if mix else 0} ({b['spec']})"
    e['inst'] = inst
    e['guard'] = None
    e['witness'] = None
    e['sigmacro'] = None
    e['note'] = note or ('the fall-through exit returns once to the SAME code instance: the second pass starts from the local '
                         'flags / buffers / carries the first one left' + ('; between the passes the value is xored with 0xff..fe' if mix else ''))
    return e


XH, XB = 'hex.xor {n}, {a}, {m}', 'bit.xor {n}, {a}, {m}'
C09 += [
    # readers: two numerals / digit groups / lines in one input
    TW('hex.input_dec_int', I([P(n=2, A='dec4', L=5)], [P(n=2, A='dec4', L=5), P(n=1, A='dec4', L=5, w=[64])])),
    TW('hex.input_dec_int_until', I([P(n=2, A='dec4', L=5)], [P(n=2, A='dec4', L=5)])),
    TW('hex.input_dec_uint', I([P(n=2, A='dec4', L=4)], [P(n=2, A='dec4', L=5)])),
    TW('hex.input_dec_uint_until', I([P(n=2, A='dec4', L=4)], [P(n=2, A='dec4', L=5)])),
    TW('hex.input_as_hex/1', I([P(A='hex16', L=2, pin=1)], [P(A='hex16', L=3, pin=1)])),
    TW('hex.input_as_hex', I([P(n=2, A='hex6', L=4)], [P(n=2, A='hex6', L=4)])),
    TW('hex.input/1', I([P(A='hex16', L=2)], [P(A='hex16', L=3)])),
    TW('bit.input/1', I([P(A='hex16', L=2)], [P(A='hex16', L=3)])),
    # printers: (value, value ^ 0xff..fe) - a value needing all digits then a one-digit value, and the other way round
    TW('hex.print_dec_uint', I([P(n=2)], [P(n=1), P(n=2), P(n=3, w=[64])]), mix=XH),
    TW('hex.print_dec_int', I([P(n=2)], [P(n=1), P(n=2), P(n=3, w=[64])]), mix=XH),
    TW('bit.print_dec_uint', I([P(n=8)], [P(n=3), P(n=8), P(n=10, w=[64])]), mix=XB),
    TW('bit.print_dec_int', I([P(n=8)], [P(n=4), P(n=8), P(n=10, w=[64])]), mix=XB),
    TW('hex.print_uint', I([P(n=2, p=1, up=1)], [P(n=2, p=1, up=1), P(n=3, p=0, up=0)]), mix=XH),
    TW('hex.print_int', I([P(n=2, p=0, up=0)], [P(n=2, p=0, up=0), P(n=3, p=1, up=1)]), mix=XH),
    TW('bit.print_hex_uint', I([P(n=8, p=0)], [P(n=8, p=0), P(n=12, p=1, w=[64])]), mix=XB),
    TW('bit.print_hex_int', I([P(n=8, p=1)], [P(n=8, p=1), P(n=12, p=0, w=[64])]), mix=XB),
    TW('bit.print_str', I([P(n=1)], [P(n=1)]), mix=XB.replace('{n}', '8*{n}')),
    # casts with temporaries
    TW('bit.hex2ascii', I([P(pin=1)], [P()])),
    TW('bit.ascii2dec', I([P(pin=1)], [P(pin=1)])),
    # buffer helpers (pointer copies, counters, byte buffers are locals of the macro)
    TW('hex.input_ptr_line/k2', I([P(A='line3', L=4)], [P(A='line3', L=5)])),
    TW('hex.print_ptr_text/k2', I([P(cap=8)], [P(cap=32)])),
    TW('hex.print_ptr_line/k2', I([P()], [P()])),
    TW('hex.fill_bytes/k2', I([P(cap=8)], [P(cap=32)])),
    TW('hex.copy_bytes/k2', I([P(cap=8)], [P(cap=32)])),
]


# ---------------------------------------------------------------------------------------------------------
# SIZE SWEEPS (tests on the real engines, labelled as samples): every size the macros accept in the range, operands that
# stress the decimal digit count (0, 1, 10^k - 1, 10^k, 2^n - 1, 2^(n-1), negatives, random), compared with the mirror above

def SW(base, sizes, stress, **extra):
    b = _BY[base]
    e = dict(b)
    e['name'] = 'sweep: ' + base
    e['inst'] = {'quick': [], 'thorough': [], 'sample': [P(n=n, **extra) for n in sizes]}
    e['stress'] = stress
    e['startup'] = 'stl.startup'
    e['guard'] = None
    e['witness'] = None
    e['note'] = 'sampled-only size sweep on the real engines (not a theorem)'
    return e


C09 += [
    SW('bit.print_dec_uint', range(1, 131), 'dec'),
    SW('bit.print_dec_int', range(2, 131), 'sdec'),
    SW('hex.print_dec_uint', range(1, 34), 'dec'),
    SW('hex.print_dec_int', range(1, 34), 'sdec'),
    SW('bit.print_hex_uint', (16, 64, 128), 'dec', p=1),
    SW('bit.print_hex_int', (16, 64, 128), 'sdec', p=0),
    SW('hex.print_uint', (5, 16, 33), 'dec', p=1, up=0),
    SW('hex.print_int', (5, 16, 33), 'sdec', p=0, up=1),
    SW('hex.print_as_digit', (5, 17, 33), 'dec', up=1),
    SW('bit.print_as_digit', (17, 64, 130), 'dec'),
    SW('stl.bit2hex', (9, 33, 65, 130), 'dec'),
    SW('stl.hex2bit', (3, 9, 17, 33), 'dec'),
]
