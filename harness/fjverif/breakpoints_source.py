"""C16 source tie for breakpoint resolution (wiring used by checks/c16.py).

prepare(ctx)                      regenerate coq/Gen/Facts_Breakpoints.v (gen_facts_breakpoints, fail closed), build
                                  Tie/Breakpoints_steps.vo, Tie/Breakpoints_tie.vo, Properties/C16_source.vo.
compare(ctx, header, groups, n)   the translator's own tie: the breakpoint queries of the campaign are resolved by the REGENERATED
                                  update_breakpoints_* functions (PyIR.exec inside Coq, Tie/Breakpoints_steps.check_bcase_src) and
                                  compared with the dict the REAL get_breakpoint_handler built and the warning lines it printed."""
from . import framework as fw
from . import gen_facts_breakpoints as gen
from .source_tie import SourceTie

TIE = SourceTie('Breakpoints source tie', gen, 'Facts_Breakpoints', 'Tie/Breakpoints_steps.v', 'Tie/Breakpoints_tie.v',
                'Properties/C16_source.v', ['Proofs/LabelsProps.vo', 'Proofs/PyIRProps.vo', 'Model/PyIR.vo'])
DEFS = ('Definition chk_src (p : table * list (table -> bcase)) := forallb (fun q => check_bcase_src (q (fst p))) (snd p).\n')


def prepare(ctx):
    props, targets = TIE.prepare(ctx)
    if TIE.state(ctx)['text'] is not None:
        ctx.coverage['trusted_base'] += [
            'Model/PyIR.v (semantics of the Python subset: dicts as item lists in insertion order, data strings with `in` = substring, '
            'tuple(d), x[::-1], print to the output stream) and harness/fjverif/gen_facts_breakpoints.py (fail-closed ast translator of '
            'the three update_breakpoints_* functions and of the call order in get_breakpoints, rules B1-B4 in its header); '
            'cross-checked on every run by running the regenerated functions inside Coq against the real get_breakpoint_handler '
            '(coverage.source_ir_agreeing)',
            'Tie/Breakpoints_steps.v: sets as lists in iteration order, the dict the caller sees = the final value of the parameter '
            '(never rebound), the warnings = the lines printed']
        ctx.assumptions += ['Breakpoints source tie: covers update_breakpoints_from_{addresses,breakpoint_contains,breakpoint}_set and the '
                            'order of their calls in get_breakpoints; get_breakpoint_handler (loading the table, address_to_label) and '
                            'BreakpointHandler stay hand-transcribed (Model/Labels.v, Model/Debug.v)']
    return props, targets


def compare(ctx, header, groups, nqueries):
    """groups: bgroup terms ([table], [queries]) of the campaign; nqueries: number of queries in each"""
    st = TIE.state(ctx)
    if not st or not st['steps']:
        return
    limit = ctx.n(400, 4000)
    groups, nqueries = groups[:limit], nqueries[:limit]
    full = header + 'From FJ Require Import Model.PyIR.\n' + TIE.steps_import(ctx) + DEFS
    oks = fw.coq_eval_shards(ctx, 'src_bp', full, groups, 'chk_src', shard=max(20, len(groups) // (fw.NCPU * 2) + 1))
    good = sum(n for ok, n in zip(oks, nqueries) if ok)
    ctx.coverage['source_ir_agreeing'] = ctx.coverage.get('source_ir_agreeing', 0) + good
    for g, ok, n in zip(groups, oks, nqueries):
        if ok is None:
            continue
        for k in range(n):
            ctx.count(('source-ir', g, k), True)
        ctx.hist('source_ir_cases', 'agrees' if ok else 'DISAGREES', n)
    for g in [g for g, ok in zip(groups, oks) if ok is False][:3]:
        ctx.broken_tie('Breakpoints source tie: the regenerated update_breakpoints_* functions (PyIR.exec) disagree with the real '
                       'get_breakpoint_handler', f'table and queries: {g[:3000]}')
    TIE.check_unchanged(ctx)
