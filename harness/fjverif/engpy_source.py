"""C01 source tie for the pure-Python engines (wiring used by checks/c01.py).

prepare(ctx)                 regenerate coq/Gen/Facts_EngPy.v from the current source (gen_facts_engpy, fail closed) and
                             build Tie/EngPy_steps.vo, Tie/EngPy_tie.vo, Properties/C01_source.vo; a failure is a broken tie
                             named after the file / theorem that no longer checks.  Returns (property files to harvest,
                             extra make targets) for fw.static_proofs.
compare_source(ctx, ...)     the translator's own tie: PyIR.exec on the regenerated loop bodies is evaluated inside Coq
                             (vm_compute, Tie/EngPy_steps.check_case_src) on cases of the campaign and compared with what the
                             REAL engines returned (cause, fault address, ops, output, last-ops ring, final memory)."""
import re
import subprocess
from pathlib import Path

from . import enginecamp as ec
from . import framework as fw
from . import gen_facts_engpy as gen

GEN = fw.COQ / 'Gen' / 'Facts_EngPy.v'
HEADER = ('From FJ Require Import Lib.Base Spec.MachineSpec Model.RunCase Tie.EngPy_steps.\n'
          'Local Open Scope N_scope.\n')
MAX_OPS = 4000      # bounded number of steps per case for the in-Coq interpreter


def failing_item(out):
    """name the file and, when possible, the theorem in which coqc stopped"""
    m = re.search(r'File "([^"]+)", line (\d+)', out)
    if not m:
        return 'coq build'
    f, line = m.group(1), int(m.group(2))
    path = Path(f) if f.startswith('/') else fw.COQ / f
    shown = path.name.replace('Priv_', '')
    name = None
    try:
        for i, l in enumerate(path.read_text().splitlines(), 1):
            if i > line:
                break
            mm = re.match(r'\s*(?:Theorem|Lemma|Example|Definition)\s+(\w+)', l)
            if mm:
                name = mm.group(1)
    except OSError:
        pass
    return f'{name} ({shown}:{line})' if name else f'{shown}:{line}'


def tie_lemmas():
    return len(re.findall(r'^(?:Theorem|Lemma)\s', (fw.COQ / 'Tie' / 'EngPy_tie.v').read_text(), re.M))


def prepare(ctx):
    """returns (property files, extra targets) to hand to fw.static_proofs"""
    ctx.engpy = {'text': None, 'steps': False, 'header': HEADER, 'shared': str(fw.REPO) == '/repo'}
    try:
        text = gen.generate(fw.REPO)
    except gen.GenError as e:
        if ctx.engpy['shared']:
            fw.write_if_changed(GEN, gen.stub(str(e)))
        ctx.broken_tie('EngPy source tie: translator gen_facts_engpy failed closed', str(e))
        ctx.coverage['obligations'] += 1
        return [], []
    ctx.engpy['text'] = text
    ctx.coverage['trusted_base'] += [
        'Model/PyIR.v: the executable big-step semantics of the Python subset (ints as N, Unsupported on anything else) and '
        'harness/fjverif/gen_facts_engpy.py: fail-closed ast translator of the Reader memory methods and of the _run_fast / '
        '_run_featured loop bodies (rules R1-R6 in its header); both are cross-checked on every run by evaluating the '
        'regenerated IR inside Coq against the real engines (coverage.source_ir_agreeing)',
        'Tie/EngPy_steps.v: reading of one loop iteration as a step on the model state (loop-carried ip/ops, '
        'statistics.op_counter, RuntimeMemoryError produced by fjm_run.run from the memory exception); RunStatistics / '
        'IODevice methods are interpreter primitives']
    ctx.assumptions += ['EngPy source tie: _run_featured is taken with breakpoint_handler=None and show_trace=False; '
                        'Reader.__init__/_init_memory, fjm_run.run and RunStatistics stay hand-transcribed']
    if not ctx.engpy['shared']:
        prepare_private(ctx, text)
        return [], []
    # the repository under test is the default one: shared, cached build under coq/ (every such run writes the same facts)
    fw.write_if_changed(GEN, text)
    ok, out = fw.coq_make(['Tie/EngPy_steps.vo'], timeout=900)
    if not ok:
        ctx.broken_tie(f'EngPy source tie: {failing_item(out)} - the regenerated IR no longer fits the step definitions', out)
        ctx.coverage['obligations'] += 1
        return [], []
    ctx.engpy['steps'] = True
    ok, out = fw.coq_make(['Tie/EngPy_tie.vo', 'Properties/C01_source.vo'], timeout=2400)
    ctx.coverage['obligations'] += tie_lemmas()
    if not ok:
        ctx.broken_tie(f'EngPy source tie: {failing_item(out)}', out)
        return [], ['Tie/EngPy_steps.vo']
    ctx.coverage['discharged'] += tie_lemmas()
    return ['Properties/C01_source.v'], ['Tie/EngPy_tie.vo']


PRIVATE = [('Tie/EngPy_steps.v', 'Priv_EngPy_steps.v'), ('Tie/EngPy_tie.v', 'Priv_EngPy_tie.v'),
           ('Properties/C01_source.v', 'Priv_C01_source.v')]


def relocate(src):
    """the copy of a tie file that imports the regenerated modules from the scratch directory"""
    def line(m):
        mods = ['Priv_' + x.split('.')[-1] for x in m.group(1).split()]
        return 'Require Import ' + ' '.join(mods) + '.'
    out, n = re.subn(r'^From FJ Require Import ((?:(?:Gen|Tie)\.EngPy\w*|Gen\.Facts_EngPy|\s)+)\.[^\n]*regenerated[^\n]*$', line, src, flags=re.M)
    if n != 1:
        raise gen.GenError('tie file without its "regenerated" import line')
    return out


def prepare_private(ctx, text):
    """a scratch copy of the repository is under test (seeded change): the regenerated facts and the files that depend on
    them are compiled in the scratch directory of this run, so that the shared build under coq/ is never touched"""
    d = ctx.scratch
    (d / 'Priv_Facts_EngPy.v').write_text(text)
    files = [d / 'Priv_Facts_EngPy.v']
    for src, dst in PRIVATE:
        (d / dst).write_text(relocate((fw.COQ / src).read_text()))
        files.append(d / dst)
    ok, out = fw.coq_make(['Proofs/EngPyProps.vo', 'Proofs/PyIRProps.vo', 'Model/PyIR.vo', 'Model/RunCase.vo'])      # what the copies import
    lp = subprocess.run([str(fw.VERIF / 'lint.sh')] + [str(f) for f in files], stdout=subprocess.PIPE,
                        stderr=subprocess.STDOUT, text=True)
    lok, lout = lp.returncode == 0, lp.stdout
    ctx.engpy['header'] = HEADER.replace(' Tie.EngPy_steps', '') + 'Require Import Priv_EngPy_steps.\n'
    ctx.coverage['obligations'] += tie_lemmas()
    proved = ok and lok
    if not ok:
        ctx.broken_tie('EngPy source tie: the models the tie imports do not build', out)
    if not lok:
        ctx.broken_tie('EngPy source tie: lint', lout)
    for f in files if ok else []:
        rc, out = fw.coqc_file(f, timeout=2400)
        if rc != 0:
            what = ' - the regenerated IR no longer fits the step definitions' if f.name == 'Priv_EngPy_steps.v' else ''
            ctx.broken_tie(f'EngPy source tie: {failing_item(out)}{what}', out)
            proved = False
            break
        if f.name == 'Priv_EngPy_steps.v':
            ctx.engpy['steps'] = True
        if f.name == 'Priv_C01_source.v':
            src = f.read_text()
            theorems = re.findall(r'^\s*(?:Theorem|Lemma|Corollary)\s+(\w+)', src, re.M)
            printed = re.findall(r'Print Assumptions\s+(\w+)', src)
            blocks = [b.strip() for b in re.split(r'(?=Closed under the global context|Axioms:|Section Variables:)', out) if b.strip()]
            ctx.coverage['obligations'] += len(theorems)
            ctx.coverage['discharged'] += len(theorems)
            for name, blk in zip(printed, blocks):
                ctx.coverage['trusted_base'].append(f'Print Assumptions {name}: ' + re.sub(r'\s+', ' ', blk)[:600])
            ctx.coverage.setdefault('theorems', []).extend(theorems)
    if proved:
        ctx.coverage['discharged'] += tie_lemmas()


def compare_source(ctx, cases, results):
    st = getattr(ctx, 'engpy', None)
    if not st or not st['steps']:
        return
    sel = [(c, r) for c, r in zip(cases, results)
           if c['engine'] in ('featured', 'fast') and 'exc' not in r and r.get('cause') != 6 and r.get('ops', 0) <= MAX_OPS]
    sel = sel[:ctx.n(600, 5000)]
    terms = [ec.coq_case(c, r) for c, r in sel]
    oks = fw.coq_eval_shards(ctx, 'c01src', st['header'], terms, 'check_case_src', shard=100)
    bad = []
    for (c, r), ok in zip(sel, oks):
        if ok is None:
            continue
        ctx.count(('source-ir', c['w'], c['segs'], c['input'], c['engine'], c.get('last_ops')), r.get('ops', 0) >= 2)
        ctx.hist('source_ir_cases', f'{c["engine"]}:{r.get("cause")}')
        if not ok:
            bad.append((c, r))
    ctx.coverage['source_ir_agreeing'] = sum(1 for ok in oks if ok)
    for c, r in bad[:3]:
        rc, model = fw.coq_eval_term(ctx, f'c01src_diag{id(c) % 100000}', st['header'], f'observe_src ({ec.coq_case(c, r)})')
        ctx.broken_tie('EngPy source tie: PyIR.exec on the regenerated loop body disagrees with the real engine',
                       f'{c["engine"]} engine w={c["w"]} segs={c["segs"]} input={c["input"]}: observed cause={r.get("cause")} '
                       f'ops={r.get("ops")} fault={r.get("fault")} out={r.get("out")}; interpreter gives {model[-400:]}')
    # shared build: the facts the proofs and the evaluation used must still be the ones generated by THIS run
    if st['shared']:
        try:
            now = GEN.read_text()
        except OSError:
            now = None
        if now != st['text']:
            ctx.broken_tie('EngPy source tie: coq/Gen/Facts_EngPy.v was rewritten by a concurrent run - run again', '')
