"""Standard-library theorems for ALL operands of the full-width flagship macros, by COMPOSITION instead of enumeration
(DESIGN 4, "S beyond enumeration, by composition"; Coq side: Model/StlDigit.v, Proofs/Locality.v, Proofs/StlCompose.v,
static statements Properties/C04_compositional.v and C05_compositional.v).

`hex.add 16, dst, src` (64-bit add) has 2^128 operand pairs - they cannot be enumerated.  The macro is a `rep` over the
digit positions, the code of digit step i lives at its own addresses, and between two steps the memory is the image
except for the operand digits, the temporaries private to one step (`_src` of bit.add1) and a few STATE CELLS (the carry
bit kept in the jump word of `hex.add.dst` / in bit.add's `carry`, word 0 whose bit 0 every `;label` op flips, word 1 =
the harness' entry redirect, the output port of the blocks that print an exit marker).  Per run, for every composed
block (table COMPOSED: hex.add sub xor or and not inc dec cmp if if0 if1 xor_zero zero, bit.xor not add inc cmp if if0 if1
or and xor_zero swap zero; the cheaper-to-believe ones only in the thorough tier):

 1. the harness block (same text as the enumerated blocks of stl.py: the REAL macro call, variables, canaries) is
    assembled with the current assembler + stl (worker stl_compose_asm); the step boundaries A_0..A_n are read from the
    macro-local labels of the `rep` iterations in the debug-label file (hex.cmp: + the harness' exit tails), the state
    cells, the values they take and the private temporaries are discovered by running sampled operands on a small
    Python copy of the machine.  ALL OF THIS IS ONLY A HINT: a wrong boundary or a missing cell value makes a lemma
    false, never a theorem wrong.
 2. coq/Gen/Img_<tag>_cmp_w<w>.v (image + block + chain descriptors), files StlP_<tag>_cmp_w<w>_<j>.v with the finite
    lemmas (vm_compute; a few digit lemmas per file):
        D_<block>_d<i> : forallb (digit_check ww segs img ch <dspec> i) (digit_dom ch i) = true     (digit_dom = every digit
                         value of every operand and private temporary x every declared value of every cell)
        S_ / P_ / E_   : static side conditions, prologue, every exit tail x every cell state
    then StlT_<tag>_cmp_w<w>.v with the composed theorems, e.g.
        TC_hex_add_n16_w64 : forall a b, a < 16 ^ 16 -> b < 16 ^ 16 -> block_correct ww segs img b<k> (hex_add 16) [a; b]
    closed by Proofs/StlCompose.v (locality + run_split + induction over the steps + the arithmetic of the digit
    specification).  All files are compiled in parallel; every theorem must print "Closed under the global context".
 3. a lemma that does not compile is a broken obligation; the failing digit states are then extracted in Coq
    (first_fails + digit_observe), turned into full operands that drive the macro into that state (lower digits chosen
    to produce the carry / equal upper digits), and those plus edge/random operands are run on the REAL engines with the
    frame comparison of stl.py: an operand on which the engine violates the documented result is reported with a replay.

Entry point: run(ctx, cfg) - called from checks/c04.py and c05.py after stl.run_property; any exception in here is
reported as its own broken obligation and never hides the enumerated results.
Development aids: FJVERIF_CMP_ONLY=<regex on table names>, FJVERIF_KEEP_GEN=1.
"""
import atexit
import os
import re
import time
import traceback

from . import framework as fw
from . import stl

HDR = ('From FJ Require Import Lib.Base Spec.MachineSpec Spec.StlSpec Model.StlRun Model.StlDigit Proofs.StlProps '
       'Proofs.Locality Proofs.StlCompose')

# lemma files only compute: they need the model, not the proofs
HDR_L = 'From FJ Require Import Lib.Base Spec.MachineSpec Spec.StlSpec Model.StlRun Model.StlDigit'

# ---------------------------------------------------------------------------------------------------------
# what is composed.  kind = the closing theorem of Proofs/StlCompose.v; dspec = the digit specification (Coq term of
# Model/StlDigit.v, B = digit base); pexp = positions the first cells must have after the prologue;
# carry = top-level label of the op whose jump word holds the carry (None: no carry cell)

def _sizes(quick, thorough):
    return {'quick': quick, 'thorough': thorough}


# (w, n) per tier.  quick: the flagship sizes (64-bit vectors at w=64); thorough adds w=32 and odd sizes
FULL = _sizes([(64, 16)], [(64, 16), (32, 8), (32, 16), (64, 5)])
SOME = _sizes([(64, 16)], [(64, 16), (32, 8)])
THOR = _sizes([], [(64, 16), (32, 8)])          # thorough only (keeps the quick tier inside its budget)
BITS = _sizes([(64, 64)], [(64, 64), (32, 32), (16, 8)])
BITS2 = _sizes([(64, 64)], [(64, 64), (32, 32)])
BTHOR = _sizes([], [(64, 64), (32, 32)])

COMPOSED = {
    'hex': [
        dict(name='hex.add', kind='add', dspec='dspec_add {B}', pexp=[0], carry='hex.add.dst', sizes=FULL),
        dict(name='hex.sub', kind='sub', dspec='dspec_sub {B}', pexp=[0], carry='hex.sub.dst', sizes=FULL),
        dict(name='hex.xor', kind='xor', dspec='dspec_map2 N.lxor', pexp=[], carry=None, sizes=SOME),
        dict(name='hex.or', kind='or', dspec='dspec_map2 N.lor', pexp=[], carry=None, sizes=THOR),
        dict(name='hex.and', kind='and', dspec='dspec_map2 N.land', pexp=[], carry=None, sizes=THOR),
        dict(name='hex.not', kind='not', dspec='dspec_map1 (fun d => {B} - 1 - d)', pexp=[], carry=None, sizes=SOME),
        dict(name='hex.inc', kind='inc', tail_label=True, dspec='dspec_inc {B}', pexp=[], carry=None, sizes=FULL),
        dict(name='hex.dec', kind='dec', tail_label=True, dspec='dspec_dec {B}', pexp=[], carry=None, sizes=FULL),
        dict(name='hex.cmp', kind='cmp', tail_label=True, dspec='dspec_cmp', pexp=[], carry=None, sizes=FULL),
        dict(name='hex.if', kind='if', xz=1, xnz=2, tail_label=True, dspec='dspec_if 2', pexp=[], carry=None, sizes=FULL),
        dict(name='hex.if0', kind='if', xz=1, xnz=0, tail_label=True, dspec='dspec_if 0', pexp=[], carry=None, sizes=THOR),
        dict(name='hex.if1', kind='if', xz=0, xnz=1, tail_label=True, dspec='dspec_if 1', pexp=[], carry=None, sizes=THOR),
        dict(name='hex.xor_zero', kind='xor_zero', dspec='dspec_map22 N.lxor (fun _ _ => 0)', pexp=[], carry=None, sizes=THOR),
        dict(name='hex.zero', kind='zero', dspec='dspec_map1 (fun _ => 0)', pexp=[], carry=None, sizes=THOR),
    ],
    'bit': [
        dict(name='bit.xor', kind='xor', dspec='dspec_map2 N.lxor', pexp=[], carry=None, sizes=BITS),
        dict(name='bit.not', kind='not', dspec='dspec_map1 (fun d => {B} - 1 - d)', pexp=[], carry=None, sizes=BITS),
        dict(name='bit.add', kind='add', dspec='dspec_add {B}', pexp=[0], carry='local:carry', sizes=BITS2),
        dict(name='bit.inc', kind='binc', tail_label=True, dspec='dspec_binc', pexp=[1], carry='local:carry', sizes=BITS2),
        dict(name='bit.cmp', kind='cmp', tail_label=True, dspec='dspec_cmp', pexp=[], carry=None, sizes=BITS2),
        dict(name='bit.if', kind='if', xz=1, xnz=2, tail_label=True, dspec='dspec_if 2', pexp=[], carry=None, sizes=BITS2),
        dict(name='bit.if0', kind='if', xz=1, xnz=0, tail_label=True, dspec='dspec_if 0', pexp=[], carry=None, sizes=BTHOR),
        dict(name='bit.if1', kind='if', xz=0, xnz=1, tail_label=True, dspec='dspec_if 1', pexp=[], carry=None, sizes=BTHOR),
        dict(name='bit.or', kind='or', dspec='dspec_map2 N.lor', pexp=[], carry=None, sizes=BTHOR),
        dict(name='bit.and', kind='and', dspec='dspec_map2 N.land', pexp=[], carry=None, sizes=BTHOR),
        dict(name='bit.xor_zero', kind='xor_zero', dspec='dspec_map22 N.lxor (fun _ _ => 0)', pexp=[], carry=None, sizes=BTHOR),
        dict(name='bit.swap', kind='swap', dspec='dspec_map22 (fun _ s => s) (fun d _ => d)', pexp=[], carry=None, sizes=BTHOR),
        dict(name='bit.zero', kind='zero', dspec='dspec_map1 (fun _ => 0)', pexp=[], carry=None, sizes=BTHOR),
    ],
}


# ---------------------------------------------------------------------------------------------------------
# a small copy of Spec/MachineSpec.v (aligned ops, no input): used only to DISCOVER cells and to cross-check hints

class Mini:
    def __init__(self, res, w):
        self.w = w
        self.ww = w.bit_length() - 1
        self.segs = [(s, s + l) for s, l in res['segs']]
        self.img = {}
        for s, ws in res['words']:
            for i, v in enumerate(ws):
                if v:
                    self.img[s + i] = v

    def valid(self, a):
        return any(lo <= a < hi for lo, hi in self.segs)

    def run(self, patch, marks, maxops=2_000_000):
        """run from op 0 on the patched image; returns (cause, ops, {mark: snapshot of written words at first arrival},
        final written-words snapshot)"""
        w, ww = self.w, self.ww
        mem = dict(self.img)
        for a, v in patch:
            mem[a] = v
        written = set()
        snaps = {}
        want = set(marks)
        ip = 0
        ops = 0
        while ops < maxops:
            if ip in want and ip not in snaps:
                snaps[ip] = {a: mem.get(a, 0) for a in written}
            if ip % w:
                return 'unaligned', ops, snaps, None
            wa = ip >> ww
            if not self.valid(wa) or not self.valid(wa + 1):
                return 'fault', ops, snaps, None
            f = mem.get(wa, 0)
            fw_ = f >> ww
            if not self.valid(fw_):
                return 'fault', ops, snaps, None
            mem[fw_] = mem.get(fw_, 0) ^ (1 << (f & (w - 1)))
            written.add(fw_)
            j = mem.get(wa + 1, 0)
            ops += 1
            if j == ip and not (ip <= f < ip + 2 * w):
                return 'loop', ops, snaps, mem
            if j < 2 * w:
                return 'null', ops, snaps, None
            ip = j
        return 'fuel', ops, snaps, None


# ---------------------------------------------------------------------------------------------------------

def table_entry(cfg, name):
    for e in cfg.table:
        if e['name'] == name:
            return e
    return None


def plan(ctx, cfg):
    out = []
    only = os.environ.get('FJVERIF_CMP_ONLY')
    for d in COMPOSED.get(cfg.ns, []):
        if only and not re.search(only, d['name']):
            continue
        e = table_entry(cfg, d['name'])
        if e is None:
            continue
        for w, n in d['sizes'][ctx.tier]:
            b = stl.make_block(e, {'n': n}, w)
            b.bid = 'cmp_' + b.bid
            b.cmp = d
            b.n = n
            out.append(b)
    return out


def find_marks(b, k, res, niter=None):
    """A_0..A_niter from the macro-local labels of the block's macro call.  Iteration i of the top-level `rep` starts at its
    `:start:` label (the assembler labels every macro-call start unless the address already carries a label) or - when
    its address already carries another label (the block entry, an `end:` of the code before the rep, the `next:` that ends
    the previous iteration) - at the last labelled address before its first own label.  The last iteration ends at its
    own last label when the step macro is known to end with a label of its own (`next:` of hex.inc.step, `eq:` of
    hex.cmp.cmp_eq_next: `tail_label` in the table), else at the first labelled address after it.  HINTS ONLY: a wrong boundary makes a digit lemma false."""
    lo, hi = b.addr['entry'], b.addr['exits'][0][0]
    comp = re.compile(r'^s\d+:l\d+:rep(\d+):')
    raw = []
    for name, a in res['inner']:
        if not (lo <= a <= hi) or ':wflips:' in name:
            continue
        parts = name.split('---')
        reps = [(d, int(comp.match(c).group(1))) for d, c in enumerate(parts) if comp.match(c)]
        raw.append((name, a, len(parts) - 1, reps[0] if reps else None))
    # the rep over the digits is the outermost one: the smallest nesting depth at which a rep iteration appears
    top = min((r[0] for _, _, _, r in raw if r), default=None)
    labs = [(lo, None, 0), (hi, None, 0)]          # (address, rep iteration or None, nesting depth of the label)
    starts = set()
    for name, a, depth, r in raw:
        it = r[1] if r and r[0] == top else None
        labs.append((a, it, depth))
        if it is not None and name.endswith(':start:'):
            starts.add((it, a))
    n = b.n if niter is None else niter
    first = {i: min(a for a, it, _ in labs if it == i) for i in {it for _, it, _ in labs if it is not None}}
    last = {i: max(a for a, it, _ in labs if it == i) for i in first}
    if any(i >= n for i in first) or any(i not in first for i in range(1, n)):
        return None
    marks = []
    for i in range(n):
        if i in first and (i, first[i]) in starts:
            marks.append(first[i])
            continue
        nxt = first[i] if i in first else (first[i + 1] if i + 1 < n else hi)
        lower = marks[-1] if marks else lo
        marks.append(max(a for a, it, _ in labs if (it is None or it < i) and lower <= a <= nxt and a < hi))
    end_of_last = last.get(n - 1, marks[-1])
    if b.cmp.get('tail_label') or any(a == end_of_last and it is None for a, it, _ in labs):
        marks.append(end_of_last)           # the step macro ends with a label of its own (`next:`, `eq:`)
    else:
        marks.append(min(a for a, it, _ in labs if it is None and a > end_of_last))
    return marks


def block_marks(b, k, res):
    """marks A_0..A_n, early-leave tails [(exit, address)], fall-through exit, reversed digit order"""
    if b.cmp['kind'] == 'cmp':
        # rep over the n-1 upper digits (from the most significant), then one more `.cmp` for digit 0; lt/gt leave to the
        # harness' exit tails b<k>_x1 / b<k>_x3, running through everything is eq = b<k>_x2
        L = res['labels']
        marks = find_marks(b, k, res, b.n - 1) if b.n >= 2 else None
        if marks is None or any(f'b{k}_x{i}' not in L for i in (1, 2, 3)):
            return None
        return marks + [L[f'b{k}_x2']], [(1, L[f'b{k}_x1']), (3, L[f'b{k}_x3'])], 2, True
    if b.cmp['kind'] == 'if':
        # rep over the n-1 lower digits (leave to the non-zero exit at the first non-zero digit), then one more `.if`;
        # exit e > 0 continues at the harness tail b<k>_x<e>, exit 0 (a macro-local label at the end) at the block's stl.loop
        L = res['labels']
        xz, xnz = b.cmp['xz'], b.cmp['xnz']

        def tail(e):
            return b.addr['exits'][0][0] if e == 0 else L.get(f'b{k}_x{e}')
        marks = find_marks(b, k, res, b.n - 1) if b.n >= 2 else None
        if marks is None or tail(xz) is None or tail(xnz) is None:
            return None
        return marks + [tail(xz)], [(xnz, tail(xnz))], xz, False
    marks = find_marks(b, k, res)
    if marks is None:
        return None
    outs = []
    if b.cmp['kind'] in ('inc', 'dec'):
        outs = [(0, marks[-1])]
    elif b.cmp['kind'] == 'binc':
        outs = [(0, b.addr['exits'][0][0])]       # bit.inc's `end:` is the last thing of the macro = the block's stl.loop
    return marks, outs, 0, False


def discover(ctx, b, res, marks):
    """cells = the non-operand words that differ from the image at some mark (+ words 0 and 1), with the values seen"""
    w = b.w
    ww = w.bit_length() - 1
    mini = Mini(res, w)
    varwords = {jw + 2 * i for _, jw, n in b.addr['vars'] for i in range(n)}
    cells = {0: [mini.img.get(0, 0)], 1: [b.addr['entry']]}
    if b.exits:
        cells[2] = [mini.img.get(2, 0)]         # the output port: the exit tails print their marker (bits 0-1 are scratch)
    full = [hi - 1 for _, hi in b.dom]
    ops_max = 0
    samples = [[0] * len(b.dom), full, [full[0]] + [1] * (len(b.dom) - 1), [1] + full[1:]]
    samples += stl.sample_operands(ctx.rng, b, 40)
    pyf = stl.py_spec(b.spec)
    bad = None
    for vs in samples:
        cause, ops, snaps, fin = mini.run(stl.patches(b, vs, ww), marks)
        ops_max = max(ops_max, ops)
        if cause != 'loop' or marks[0] not in snaps:
            bad = bad or (vs, f'the reference run ends with {cause} after {ops} ops / does not pass the first digit boundary')
            continue
        for a in marks:
            for x, v in snaps.get(a, {}).items():
                if x in varwords:
                    continue
                if v != mini.img.get(x, 0) or x in cells:
                    cells.setdefault(x, [mini.img.get(x, 0)])
                    if v not in cells[x]:
                        cells[x].append(v)
        exp = pyf(vs)
        if exp is not None:
            got = [sum((fin.get(jw + 2 * i, 0) >> (ww + 1)) << (bits * i) for i in range(n)) for bits, jw, n in b.addr['vars']]
            if got != exp[0]:
                bad = bad or (vs, f'reference run result {got}, documented {exp[0]}')
    return cells, ops_max, bad


def split_private(b, cells, marks):
    """cells that live inside the code of ONE digit step and hold digit-encoded values are that step's private temporaries
    (`_src` of bit.add1): they behave like extra digits of the row instead of multiplying every lemma's domain"""
    ww = b.w.bit_length() - 1
    bits = stl._bits(b.vars[0][1])
    priv = [[] for _ in range(b.n)]
    for x in sorted(cells):
        if x in (0, 1):
            continue
        k = next((i for i in range(b.n) if marks[i] <= x * b.w < marks[i + 1]), None)
        if k is not None and all(v % (1 << (ww + 1)) == 0 and (v >> (ww + 1)) < (1 << bits) for v in cells[x]):
            priv[k].append(x)
    for row in priv:
        for x in row:
            del cells[x]
    return priv if any(priv) else []


def order_cells(b, res, cells):
    """the cells a digit specification talks about come first (the carry), then word 0, word 1, the rest.
    carry = a top-level label (`hex.add.dst`) or `local:<name>` = a macro-local label inside the block (`carry` of bit.add)"""
    ww = b.w.bit_length() - 1
    first = []
    c = b.cmp.get('carry')
    if c and c.startswith('local:'):
        lo, hi = b.addr['entry'], b.addr['exits'][0][0]
        first += [(a >> ww) + 1 for nm, a in res['inner'] if lo <= a <= hi and nm.rsplit('---', 1)[-1] == c[6:]
                  and nm.count('---') == 1]
    elif c:
        lab = res['labels'].get(c)
        if lab is not None:
            first.append((lab >> ww) + 1)
    order = [a for a in first if a in cells] + [a for a in sorted(cells) if a not in first]
    return [(a, cells[a]) for a in order], [a for a in first if a not in cells]


# ---------------------------------------------------------------------------------------------------------
# Coq generation

def dspec_text(b):
    return b.cmp['dspec'].format(B=1 << stl._bits(b.vars[0][1]))


def chain_name(b):
    return f'ch_{b.bid}'


def emit_image(im):
    path = stl.emit_image(im)
    txt = path.read_text().replace('Model.StlRun.', 'Model.StlRun Model.StlDigit.', 1)
    add = []
    for b in im['blocks']:
        cells = '; '.join(f'({a}, {fw.nlist(vs)})' for a, vs in b.cells)
        add.append(f'(* chain of {b.title}: digit boundaries from the rep labels, cells discovered on sampled runs *)\n'
                   f'Definition {chain_name(b)} : chain := Eval vm_compute in\n'
                   f'  mkchain b{b.k} {stl._bits(b.vars[0][1])} {b.n} {fw.nlist(b.marks)} [{cells}] '
                   f'[{"; ".join(fw.nlist(r) for r in b.priv)}] {"true" if b.rev else "false"} {b.fall} {fw.npairs(b.outs)} {b.fuel}.\n')
    path.write_text(txt + '\n'.join(add))
    return path


def lemma_prefix(b):
    return f'{b.bid}_w{b.w}'


PACK_STATES = 2200        # digit states per generated lemma file (one hex.add digit lemma = 1024 states, about 3.5 s of vm_compute)


def nstates(b, i=None):
    """digit states of digit lemma i (max over the digits when i is None)"""
    if i is None:
        return max(nstates(b, j) for j in range(b.n))
    npriv = len(b.priv[i]) if b.priv else 0
    nst = (1 << stl._bits(b.vars[0][1])) ** (len(b.vars) + npriv)
    for _, vs in b.cells:
        nst *= len(vs)
    return nst


def unit_text(b, what):
    """the lemma(s) of one unit: 'ends' = static side conditions + prologue + epilogue; i = digit lemma i"""
    ch = chain_name(b)
    p = lemma_prefix(b)
    qed = 'Proof. vm_cast_no_check (eq_refl true). Qed.'
    if what == 'ends':
        return [f'(* static conditions, prologue and epilogue of {b.title} (w = {b.w}) *)',
                f'Lemma S_{p} : chain_static ww img {ch} = true.', qed,
                f'Lemma P_{p} : pro_check ww segs img {ch} {fw.nlist(b.cmp["pexp"])} = true.', qed,
                f'Lemma E_{p} : epi_all ww segs img {ch} = true.', qed]
    return [f'(* digit lemma {what} of {b.title} (w = {b.w}); domain: {b.nstates} states = every digit value of every operand x '
            f'every declared value of every state cell *)',
            f'Lemma D_{p}_d{what} : forallb (digit_check ww segs img {ch} ({dspec_text(b)}) {what}) (digit_dom {ch} {what}) = true.', qed]


def emit_lemma_file(im, idx, units):
    name = f'StlP_{im["name"]}_{idx}'
    txt = [f'(* GENERATED - finite lemmas (vm_compute) of the compositional theorems of image {im["name"]} *)',
           f'{HDR_L} Gen.Img_{im["name"]}.', 'Local Open Scope N_scope.']
    for b, what in units:
        txt += unit_text(b, what)
    path = stl.GEN / f'{name}.v'
    path.write_text('\n'.join(txt) + '\n')
    return name, path


def pack_units(im):
    """[(block, unit)] lists of about PACK_STATES digit states each"""
    files, cur, cost = [], [], 0
    for b in im['blocks']:
        b.nstates = nstates(b)
        for what in ['ends'] + list(range(b.n)):
            c = 40 if what == 'ends' else nstates(b, what) + 150      # 150: fixed cost of one digit lemma (domain, decoding)
            if cur and cost + c > PACK_STATES:
                files.append(cur)
                cur, cost = [], 0
            cur.append((b, what))
            cost += c
    if cur:
        files.append(cur)
    return files


def theorem_name(b):
    return f'TC_{b.bid[4:]}_w{b.w}'


def statement(b):
    """the composed theorem, operand bounds written out"""
    S = stl.thm_spec(b)
    names = ['a', 'b', 'c', 'd'][:len(b.dom)]
    hyps = ' -> '.join(f'{v} < {bound_text(b, i)}' for i, v in enumerate(names))
    return f'forall {" ".join(names)}, {hyps} -> block_correct ww segs img b{b.k} {S} [{"; ".join(names)}]'


def bound_text(b, i):
    _, kind, n = b.vars[i]
    return f'{16 if kind == "hex" else 2} ^ {n}'


def _closer_carry(thm):
    def f(b, p, ch):
        bits = stl._bits(b.vars[0][1])
        base = 1 << bits
        return (f'exact ({thm} ww segs img {ch} b{b.k} {base} ({base} ^ {b.n}) {bits * b.n} {b.n}%nat {stl.thm_spec(b)} '
                f'eq_refl eq_refl eq_refl eq_refl eq_refl eq_refl eq_refl eq_refl S_{p} eq_refl P_{p} DD_{p} E_{p}).')
    return f


def _closer_cmp(thm):
    def f(b, p, ch):
        bits = stl._bits(b.vars[0][1])
        base = 1 << bits
        return (f'exact ({thm} ww segs img {ch} b{b.k} ({base} ^ {b.n}) {bits * b.n} {b.n}%nat {stl.thm_spec(b)} '
                f'eq_refl eq_refl eq_refl eq_refl eq_refl eq_refl eq_refl S_{p} eq_refl P_{p} DD_{p} E_{p}).')
    return f


def _closer_if(thm):
    def f(b, p, ch):
        bits = stl._bits(b.vars[0][1])
        base = 1 << bits
        return (f'exact ({thm} ww segs img {ch} b{b.k} ({base} ^ {b.n}) {bits * b.n} {b.n}%nat {b.cmp["xz"]} {b.cmp["xnz"]} '
                f'{stl.thm_spec(b)} eq_refl eq_refl eq_refl eq_refl eq_refl eq_refl eq_refl S_{p} eq_refl P_{p} DD_{p} E_{p}).')
    return f


def _closer_binc(thm):
    def f(b, p, ch):
        return (f'exact ({thm} ww segs img {ch} b{b.k} (2 ^ {b.n}) {b.n} {b.n}%nat {stl.thm_spec(b)} '
                f'eq_refl eq_refl eq_refl eq_refl eq_refl eq_refl eq_refl eq_refl S_{p} eq_refl P_{p} DD_{p} E_{p}).')
    return f


def _closer_map1(thm):
    def f(b, p, ch):
        bits = stl._bits(b.vars[0][1])
        return (f'intros a _. exact ({thm} ww segs img {ch} b{b.k} {bits} {b.n}%nat {stl.thm_spec(b)} '
                f'eq_refl eq_refl eq_refl eq_refl eq_refl eq_refl S_{p} eq_refl P_{p} DD_{p} E_{p} a).')
    return f


def _closer_map2(thm):
    def f(b, p, ch):
        bits = stl._bits(b.vars[0][1])
        return (f'intros a b _ _. exact ({thm} ww segs img {ch} b{b.k} {bits} {b.n}%nat {stl.thm_spec(b)} '
                f'eq_refl eq_refl eq_refl eq_refl eq_refl eq_refl S_{p} eq_refl P_{p} DD_{p} E_{p} a b).')
    return f


# kind -> (closing theorem of Proofs/StlCompose.v, proof script of the generated instance)
CLOSERS = {
    'add': ('compose_add', _closer_carry('compose_add_inst')),
    'sub': ('compose_sub', _closer_carry('compose_sub_inst')),
    'not': ('compose_not', _closer_carry('compose_not_inst')),
    'inc': ('compose_inc', _closer_carry('compose_inc_inst')),
    'dec': ('compose_dec', _closer_carry('compose_dec_inst')),
    'cmp': ('compose_cmp', _closer_cmp('compose_cmp_inst')),
    'if': ('compose_if', _closer_if('compose_if_inst')),
    'binc': ('compose_binc', _closer_binc('compose_binc_inst')),
    'xor_zero': ('compose_map22 (N.lxor, 0)', _closer_map2('compose_xor_zero_inst')),
    'swap': ('compose_map22 (swap)', _closer_map2('compose_swap_inst')),
    'zero': ('compose_map1 (0)', _closer_map1('compose_zero_inst')),
    'xor': ('compose_map2 (N.lxor)', _closer_map2('compose_xor_inst')),
    'or': ('compose_map2 (N.lor)', _closer_map2('compose_or_inst')),
    'and': ('compose_map2 (N.land)', _closer_map2('compose_and_inst')),
}


def emit_master(im, ok_blocks, idx=0):
    """every proof term below matches its statement SYNTACTICALLY (the derived quantities are passed explicitly and tied by
    eq_refl on small closed terms): type checking never has to convert a term that contains a check"""
    name = f'StlT_{im["name"]}_{idx}'
    files = []
    for b in ok_blocks:
        files += [f for f in b.lemma_files if f not in files]
    txt = [f'(* GENERATED - theorems for ALL operands, by composition, image {im["name"]} (w = {im["w"]}) *)',
           f'{HDR} Gen.Img_{im["name"]}' + ''.join(f' Gen.{f}' for f in files) + '.', 'Local Open Scope N_scope.']
    for b in ok_blocks:
        p = lemma_prefix(b)
        ch = chain_name(b)
        txt.append(f'(* {b.title}: the digit lemmas of all {b.n} digit positions *)')
        txt.append(f'Lemma DD_{p} : forall i, (i < {b.n})%nat -> '
                   f'forallb (digit_check ww segs img {ch} ({dspec_text(b)}) i) (digit_dom {ch} i) = true.')
        txt.append('Proof.\n  intros i Hi.\n' +
                   '\n'.join(f'  destruct i as [|i]; [exact D_{p}_d{i}|].' for i in range(b.n)) + '\n  exfalso; lia.\nQed.')
        tn = theorem_name(b)
        txt.append(f'Theorem {tn} : {statement(b)}.')
        txt.append(f'Proof. {CLOSERS[b.cmp["kind"]][1](b, p, ch)} Qed.')
        txt.append(f'Print Assumptions {tn}.')
    path = stl.GEN / f'{name}.v'
    path.write_text('\n'.join(txt) + '\n')
    return path


# ---------------------------------------------------------------------------------------------------------
# failing lemma -> failing operand on the real engines

def reach_sub(b, i, row, cidx):
    """operands that bring the borrow chain into digit state (row, borrow cidx[0]) at position i: 0 - 1 borrows all the way"""
    bits = stl._bits(b.vars[0][1])
    c = cidx[0] if cidx else 0
    if c and i == 0:
        return None
    return [row[0] << (bits * i), (row[1] << (bits * i)) | (1 if c else 0)]


def reach_add(b, i, row, cidx):
    """operands that bring an add-like carry chain into digit state (row, carry cidx[0]) at position i"""
    bits = stl._bits(b.vars[0][1])
    mask = (1 << bits) - 1
    c = cidx[0] if cidx else 0
    if c and i == 0:
        return None
    low = (1 << (bits * i)) - 1
    vals = [(row[0] << (bits * i)) | (low if c else 0)]
    if len(row) > 1:
        vals.append((row[1] << (bits * i)) | (1 if c else 0))
    return [v & ((1 << (bits * b.n)) - 1) for v in vals] if all(d <= mask for d in row) else None


def reach_inc(b, i, row, cidx):
    bits = stl._bits(b.vars[0][1])
    return [(row[0] << (bits * i)) | ((1 << (bits * i)) - 1)]


def reach_dec(b, i, row, cidx):
    return [row[0] << (stl._bits(b.vars[0][1]) * i)]


REACH = {k: reach_add for k in ('add', 'xor', 'or', 'and', 'not')}
def reach_cmp(b, i, row, cidx):
    p = stl._bits(b.vars[0][1]) * (b.n - 1 - i)
    return [row[0] << p, row[1] << p]


def reach_binc(b, i, row, cidx):
    return reach_inc(b, i, row, cidx) if (cidx and cidx[0]) else reach_dec(b, i, row, cidx)


REACH['cmp'] = reach_cmp
REACH['inc'] = reach_inc
REACH['dec'] = reach_dec
REACH['sub'] = reach_sub
REACH['if'] = reach_dec
REACH['binc'] = reach_binc
REACH['xor_zero'] = REACH['swap'] = REACH['zero'] = reach_add


def diagnose_digits(im, b, digits):
    """first failing states of the given digit lemmas (Coq, in parallel), with what the model observed:
    {i: ([(digits, cell values)], observation text)}"""
    ch = chain_name(b)
    paths = {}
    for i in digits:
        path = stl.GEN / f'StlD_{im["name"]}_{b.bid}_d{i}.v'
        path.write_text(f'{HDR_L} Gen.Img_{im["name"]}.\nLocal Open Scope N_scope.\n'
                        f'Eval vm_compute in (map (fun x => (x, digit_observe ww segs img {ch} ({dspec_text(b)}) {i} x)) '
                        f'(first_fails 3 (digit_check ww segs img {ch} ({dspec_text(b)}) {i}) (digit_dom {ch} {i}))).\n')
        paths[i] = path
    res = stl.coqc_many(list(paths.values()), 600)
    out = {}
    for i, path in paths.items():
        flat = re.sub(r'\s+', ' ', res[path][1])
        states = []
        for m in re.finditer(r'\(\[([0-9; ]*)\], \[([0-9; ]*)\], \(', flat):
            states.append(([int(x) for x in m.group(1).replace(';', ' ').split()],
                           [int(x) for x in m.group(2).replace(';', ' ').split()]))
        out[i] = (states, flat[-900:])
    return out


def search_operand(ctx, cfg, b, im, so, seeds, origin, model_obs):
    """run candidate operands on the REAL engines (frame comparison of stl.py); report the first violating one"""
    ww = b.w.bit_length() - 1
    pyf = stl.py_spec(b.spec)
    full = [hi - 1 for _, hi in b.dom]
    cands = [list(s) for s in seeds if s]
    for s in list(cands):
        # the same low part under random high digits
        for _ in range(3):
            cands.append([v | (ctx.rng.randrange(hi) & ~((1 << max(v.bit_length(), 1)) - 1)) for v, (_, hi) in zip(s, b.dom)])
    cands += [full, [0] * len(full), [full[0]] + [1] * (len(full) - 1)]
    bits = stl._bits(b.vars[0][1])
    for i in range(b.n):          # one carry / one digit pattern per position
        cands.append([(1 << (bits * (i + 1))) - 1] + [1] * (len(full) - 1))
        cands.append([ctx.rng.randrange(hi) for _, hi in b.dom])
    cands += stl.sample_operands(ctx.rng, b, ctx.n(150, 600))
    seen, uniq = set(), []
    for c in cands:
        c = [v % hi for v, (_, hi) in zip(c, b.dom)]
        if tuple(c) not in seen:
            seen.add(tuple(c))
            uniq.append(c)
    jobs, meta = [], []
    for eng in ('fast', 'native'):
        cases, exps = [], []
        for j, v in enumerate(uniq):
            c, e = stl.engine_case(b, v, ww, pyf, j)
            cases.append(c)
            exps.append(e)
        jobs.append({'fjm': im['res']['fjm'], 'w': b.w, 'engine': eng, 'cases': cases})
        meta.append((eng, exps))
    results = stl.run_engines(ctx, so, jobs)
    found = None
    per = {}
    for (eng, exps), rs in zip(meta, results):
        for v, e, r in zip(uniq, exps, rs):
            ctx.coverage['evaluations'] += 1
            bad = stl.judge(b, e, r)
            per.setdefault(tuple(v), {})[eng] = (bad, e, r)
    for v in uniq:
        d = per.get(tuple(v), {})
        if any(x[0] for x in d.values()):
            found = v
            verdicts = {eng: x[0] for eng, x in d.items()}
            exp = next(iter(d.values()))[1]
            eobs = {eng: {k: x[2].get(k) for k in ('cause', 'ops', 'out', 'out_bits', 'diffs', 'exc')} for eng, x in d.items()}
            stl.report_failure(ctx, cfg, b, v, exp, model_obs, eobs, verdicts, origin)
            break
    return found, len(uniq)


# ---------------------------------------------------------------------------------------------------------
# the run

def run(ctx, cfg):
    """entry point (called from the property's check after stl.run_property).  A failure of this part is its own broken
    obligation; it never hides or alters the enumerated results."""
    comp = ctx.coverage.setdefault('compositional', {'theorems': [], 'broken': []})
    try:
        _run(ctx, cfg, comp)
    except Exception as e:  # noqa
        ctx.coverage['obligations'] += 1
        ctx.broken_tie(f'{ctx.prop} compositional theorems (stl_compose.py): the harness part raised {type(e).__name__}',
                       traceback.format_exc()[-2500:])


def _so(ctx):
    so = ctx.scratch / '_fjcore.so'
    return so if so.exists() else fw.build_fjcore(ctx)


def _run(ctx, cfg, comp):
    t0 = time.time()
    cov = ctx.coverage
    if os.environ.get('FJVERIF_STL_ONLY') and not os.environ.get('FJVERIF_CMP_ONLY'):
        return                                    # development runs restricted to some enumerated macros
    blocks = plan(ctx, cfg)
    if not blocks:
        return
    fw.static_proofs(ctx, [f'Properties/{ctx.prop}_compositional.v'])
    tag = f'{ctx.prop}p{os.getpid()}'
    stl.clean_stale_gen()
    if not stl.fw_keep_gen():
        atexit.register(stl.clean_gen, stl.gen_prefixes(tag))
    d = str(ctx.scratch / 'asm_cmp')
    ws = sorted({b.w for b in blocks}, reverse=True)
    ims = []
    jobs = []
    for w in ws:
        bl = [b for b in blocks if b.w == w]
        im = {'name': f'{tag}_cmp_w{w}', 'w': w, 'blocks': bl}
        ims.append(im)
        jobs.append({'jobs': [{'name': im['name'], 'fj': stl.program_text(cfg, bl), 'w': w, 'dir': d,
                               'windows': [[f'b{k}', f'b{k}_l0'] for k in range(len(bl))],
                               'temps': sorted({nm for b in bl for nm, _ in b.temps})}]})
    for im, out in zip(ims, fw.run_workers_parallel(ctx, 'stl_compose_asm', jobs)):
        im['res'] = out[0]
    t_asm = time.time()

    def broken(b, what, detail):
        cov['obligations'] += 1
        comp['broken'].append({'block': b.title, 'w': b.w, 'what': what})
        ctx.broken_tie(f'compositional {b.title} (w={b.w}): {what}', detail)

    so = None
    live = []
    for im in ims:
        res = im['res']
        if not res['ok']:
            for b in im['blocks']:
                broken(b, 'the harness image does not assemble', res.get('error', '?'))
            im['blocks'] = []
            continue
        good = []
        for k, b in enumerate(im['blocks']):
            stl.resolve_block(b, k, res, im['w'], cfg.extra_scratch)
            b.image = im['name']
            bm = block_marks(b, k, res)
            b.marks, b.outs, b.fall, b.rev = bm if bm else (None, [], 0, False)
            if b.marks is None:
                broken(b, 'digit boundaries not found', f'the debug labels of the block do not show {b.n} top-level rep iterations')
                continue
            cells, ops, bad = discover(ctx, b, res, b.marks)
            b.ops = ops
            b.priv = split_private(b, cells, b.marks)
            b.cells, missing = order_cells(b, res, cells)
            b.fuel = min(60000, max(1500, 4 * ops // max(1, b.n) + 500))
            b.ref_bad = bad       # the reference run already disagrees with the documentation: seeds the operand search below
            if missing:
                broken(b, 'the carry cell never changes on the sampled runs', f'cell words {missing} of `{b.cmp["carry"]}`')
                continue
            good.append(b)
        im['blocks_all'] = im['blocks']
        im['blocks'] = good
        if good:
            live.append(im)
    # real engines on a few operands of every composed block (ties block + image to the engines; tests)
    jobs, meta = [], []
    for im in live:
        ww = im['w'].bit_length() - 1
        for b in im['blocks']:
            pyf = stl.py_spec(b.spec)
            vals = stl.sample_operands(ctx.rng, b, ctx.n(6, 16))
            for eng in ('fast', 'native'):
                cases, exps = [], []
                for j, v in enumerate(vals):
                    c, e = stl.engine_case(b, v, ww, pyf, j)
                    cases.append(c)
                    exps.append(e)
                jobs.append({'fjm': im['res']['fjm'], 'w': im['w'], 'engine': eng, 'cases': cases})
                meta.append((b, eng, vals, exps))
    if jobs:
        so = so or _so(ctx)
        for (b, eng, vals, exps), rs in zip(meta, stl.run_engines(ctx, so, jobs)):
            for v, e, r in zip(vals, exps, rs):
                cov['evaluations'] += 1
                ctx._distinct.add((b.bid, b.w, eng, tuple(v)))
                bad = stl.judge(b, e, r)
                if bad:
                    stl.report_failure(ctx, cfg, b, v, e, None, {k: r.get(k) for k in ('cause', 'ops', 'out', 'diffs', 'exc')},
                                       f'{eng}: {bad}', f'compositional block: sampled operands on the real {eng} engine')
    t_eng = time.time()

    # ---- Coq
    img_paths = {im['name']: emit_image(im) for im in live}
    rimg = stl.coqc_many(list(img_paths.values()), 900)
    lemma_jobs = []          # (image, [(block, unit)], file name, path)
    nfile = 0
    for im in live:
        rc, out, _ = rimg[img_paths[im['name']]]
        if rc != 0:
            for b in im['blocks']:
                broken(b, 'the generated image file does not compile', out)
            im['blocks'] = []
            continue
        for b in im['blocks']:
            b.lemma_files = []
        for units in pack_units(im):
            nm, p = emit_lemma_file(im, nfile, units)
            nfile += 1
            lemma_jobs.append((im, units, nm, p))
    rl = stl.coqc_many([p for _, _, _, p in lemma_jobs], ctx.n(900, 3000))
    # a file with several units that does not compile: every unit again on its own, to know which lemma is false
    redo = []
    for im, units, nm, p in lemma_jobs:
        if rl[p][0] != 0 and len(units) > 1:
            for u in units:
                nm2, p2 = emit_lemma_file(im, f'r{nfile}', [u])
                nfile += 1
                redo.append((im, [u], nm2, p2))
    if redo:
        rl.update(stl.coqc_many([p for _, _, _, p in redo], ctx.n(900, 3000)))
        lemma_jobs = [j for j in lemma_jobs if not (rl[j[3]][0] != 0 and len(j[1]) > 1)] + redo
    t_lem = time.time()
    failed = {}
    states_proved = 0
    for im, units, nm, p in lemma_jobs:
        rc, out, secs = rl[p]
        for b, what in units:
            cov['obligations'] += 1
            if rc == 0:
                cov['discharged'] += 1
                if nm not in b.lemma_files:
                    b.lemma_files.append(nm)
                if what != 'ends':
                    states_proved += b.nstates
            else:
                failed.setdefault(id(b), (im, b, []))[2].append((what, out))
    cov['evaluations'] += states_proved
    if hasattr(ctx._distinct, 'bulk'):
        ctx._distinct.bulk += states_proved
    for im, b, fl in failed.values():
        so = so or _so(ctx)
        seeds, notes = [], []
        if b.ref_bad:
            seeds.append(list(b.ref_bad[0]))
            notes.append(f'reference run of the digit discovery on operands {b.ref_bad[0]}: {b.ref_bad[1]}')
        for what, out in fl:
            if what == 'ends':
                notes.append('static conditions / prologue / epilogue: ' + re.sub(r'\s+', ' ', out)[-400:])
        fd = [w for w, _ in fl if w != 'ends']
        for what, (states, obs) in diagnose_digits(im, b, sorted(set(fd[:2] + fd[-2:]))).items():
            notes.append(f'digit {what}: failing (digits, cells) states {states[:3]}; model (result, specified, (ops, foreign words touched, '
                         f'other words left changed)): {obs}')
            for row, cv in states:
                cidx = [vs.index(v) if v in vs else 0 for (_, vs), v in zip(b.cells, cv)]
                r = REACH[b.cmp['kind']](b, what, row, cidx)
                if r:
                    seeds.append(r)
        found, tried = search_operand(ctx, cfg, b, im, so, seeds,
                                      f'compositional: digit lemma(s) {[w for w, _ in fl]} of {theorem_name(b)} do not compile', notes)
        whats = [w for w, _ in fl]
        comp['broken'].append({'block': b.title, 'w': b.w, 'what': f'lemmas {whats} false', 'failing_operand': found})
        ctx.broken_tie(f'compositional {b.title} (w={b.w}): lemma(s) {whats} do not hold on the current image '
                       f'(theorem {theorem_name(b)} not provable); real engines: ' +
                       (f'failing operands {found}' if found else f'no failing operand among {tried} tried'),
                       '\n'.join(notes))
    for im in live:
        for b in im['blocks']:
            if b.ref_bad and id(b) not in failed:
                broken(b, 'every lemma compiles although the harness\' reference run disagrees with the documentation',
                       f'operands {b.ref_bad[0]}: {b.ref_bad[1]} (harness copy of the machine differs from Spec/MachineSpec.v?)')
    masters = []
    for im in live:
        okb = [b for b in im['blocks'] if id(b) not in failed]
        cov['obligations'] += len(im['blocks'])
        for j, b in enumerate(okb):         # one theorem file per block: they compile in parallel
            masters.append((im, [b], emit_master(im, [b], j)))
    rm = stl.coqc_many([p for _, _, p in masters], 900)
    for im, okb, path in masters:
        rc, out, _ = rm[path]
        if rc != 0:
            ctx.broken_tie(f'generated compositional theorem file {path.name} does not compile', out)
            continue
        if out.count('Closed under the global context') != len(okb):
            ctx.broken_tie(f'{path.name}: Print Assumptions is not "Closed under the global context" for every theorem', out)
            continue
        cov['discharged'] += len(okb)
        for b in okb:
            tn = theorem_name(b)
            cov.setdefault('theorems', []).append(tn)
            comp['theorems'].append({
                'theorem': tn, 'statement': statement(b), 'macro': b.macro, 'w': b.w, 'digits': b.n,
                'operand_bound': bound_text(b, 0), 'spec': stl.spec_text(b.spec), 'closed_by': CLOSERS[b.cmp['kind']][0],
                'digit_lemmas': [f'D_{lemma_prefix(b)}_d{i}' for i in range(b.n)],
                'other_lemmas': [f'{x}_{lemma_prefix(b)}' for x in 'SPE'],
                'states_per_digit_lemma': b.nstates, 'digit_boundaries': b.marks, 'leaves': b.outs,
                'most_significant_digit_first': b.rev,
                'state_cells': [{'word': a, 'values': vs} for a, vs in b.cells],
                'private_temporaries_per_digit': max((len(r) for r in b.priv), default=0), 'ops_sampled_max': b.ops})
            ctx.hist('compositional_theorems_by_width', b.w)
    if comp['theorems']:
        t = comp['theorems'][0]
        ctx.sample({'kind': 'compositional theorem (all operands)', 'name': t['theorem'], 'statement': t['statement'],
                    'digit_lemma': f'forallb (digit_check ww segs img ch ({dspec_text(blocks[0])}) i) (digit_dom ch) = true, i < {t["digits"]}'}, limit=8)
    comp['timing_s'] = {'assembly+discovery': round(t_asm - t0, 1), 'engines': round(t_eng - t_asm, 1),
                        'coq_image+lemmas': round(t_lem - t_eng, 1), 'theorems': round(time.time() - t_lem, 1)}
    comp['rule'] = ('per composed block: static/prologue/exit-tail lemmas + one digit lemma per digit step (vm_compute over the stated '
                    'finite domain: all digit values of all operands and private temporaries x all declared cell values, whole footprint '
                    'compared with the image), closed by Proofs/StlCompose.v (locality, run_split, induction over the steps, arithmetic of '
                    'the digit specification) into block_correct for ALL operands below the bound; evaluations += digit states of compiled '
                    'lemmas')
    cov['checker_cmd'] += f' ; coqc on coq/Gen/Img_{tag}_cmp_*.v StlP_{tag}_cmp_*.v StlT_{tag}_cmp_*.v (compositional)'
    ctx.assumptions += ['compositional theorems: digit boundaries and state cells are discovered by the harness (hints only: a wrong hint '
                        'makes a lemma false, the composed theorem is closed under the global context)']
