"""Python mirror of coq/Spec/StlSpec.v (kept tiny, same names, same argument order) and the macro tables of
C04 (hex namespace) and C05 (bit namespace).

A spec instance is written once as a string, e.g. 'hex_add 2': it is pasted into the generated Coq theorem
(`hex_add 2 : bspec`) and evaluated here as SPECS['hex_add'](2) -> function(list of operand values) ->
(new values, exit index) | None.  The harness checks on every run that both give the same answers on the
sampled operands (mirror check), so the Python side is only ever used to judge the REAL engines on operands
the Coq theorems do not enumerate and to describe expected values in replays.

Macro table entry (function M below):
  name   unique key; by default also the macro that is called
  file   stl file (relative to flipjump/stl) that holds the definition
  sig    the exact `def ...` prefix of the documented macro (the doc comment above it is copied into the evidence;
         a missing signature is reported as a broken tie)
  call   call text; {n}.. are parameters, {a} {b}.. variables, {x1} {x2}.. the harness' exit labels
  vars   [(placeholder, kind 'hex'|'bit', digits expression)] in the order the spec takes them
  spec   spec instance template, e.g. 'hex_add {n}'
  exits  number of label parameters (exit 0 = fall through)
  temps  [(local label name, ops expression)] block-local temporaries the macro documents/declares itself
         (`carry: .bit`, `twice: .vec n` ...): their jump words are scratch
  inst   {'quick': [...], 'thorough': [...], 'sample': [...], 'deep': [...]} parameter dicts: exhaustive theorem instances
         per tier, the larger sizes that are only SAMPLED on the real engines, and (optional) instances too expensive
         for the thorough budget - they are SAMPLED (many operands) in thorough and enumerated only with FJVERIF_STL_DEEP=1
  rerun  {'quick': [(params, {placeholder: (lo, hi)})], 'thorough': [...]}: instances of the "same code instance twice"
         harness (stl.make_rerun) when the default (smallest quick instance) is not the right one - e.g. hex.mul needs
         n >= 2 for its private dst/src vectors to be left dirty; the ranges restrict the enumerated operands
  seq    call template on the shared variables {x} {y} {z} when the macro takes part in the composition harness
  pin    {placeholder: garbage value} - instances whose parameter dict carries pin=1 restrict the enumerated domain of
         these (pure OUTPUT) variables to that one value (masked to the variable size) so that the inputs stay
         enumerable at a larger n; the restriction is explicit in the generated theorem statement
  guard  spec-instance template of a boolean predicate (StlSpec.v + GUARDS here) describing the operands of a KNOWN,
         reported defect: the Coq theorem is stated for `guarded <guard> <spec>`, a `_refuted` example is generated
         from `witness` (params -> operand lists), and the real-engine runs keep using the unguarded spec so the
         defect stays reported until it is fixed or listed in known_findings.json
"""

MASK = lambda k: (1 << k) - 1  # noqa: E731


def sgn(k, x):
    return x if x < (1 << (k - 1)) else x - (1 << k)


def usg(k, z):
    return z % (1 << k)


def popcount(x):
    return bin(x).count('1')


def _ok(vs):
    return list(vs), 0


def _arity(k):
    def deco(f):
        def g(vs):
            if len(vs) != k:
                return None
            return f(*vs)
        return g
    return deco


def V(k):
    """the formulas shared by both namespaces on k-bit values (mirror of the v_* definitions)"""
    M = 1 << k
    d = {}
    d['zero'] = _arity(1)(lambda x: _ok([0]))
    d['ones'] = _arity(1)(lambda x: _ok([M - 1]))
    d['keep'] = lambda vs: _ok(vs)
    d['mov'] = _arity(2)(lambda a, s: _ok([s, s]))
    d['swap'] = _arity(2)(lambda a, b: _ok([b, a]))
    d['set'] = lambda c: _arity(1)(lambda x: _ok([c % M]))
    d['xor_by'] = lambda c: _arity(1)(lambda x: _ok([x ^ (c % M)]))
    d['xor'] = _arity(2)(lambda a, s: _ok([a ^ s, s]))
    d['xor_zero'] = _arity(2)(lambda a, s: _ok([a ^ s, 0]))
    d['double_xor'] = _arity(3)(lambda a, b, s: _ok([a ^ s, b ^ s, s]))
    d['or'] = _arity(2)(lambda a, s: _ok([a | s, s]))
    d['and'] = _arity(2)(lambda a, s: _ok([a & s, s]))
    d['not'] = _arity(1)(lambda x: _ok([M - 1 - x]))
    d['inc'] = _arity(1)(lambda x: _ok([(x + 1) % M]))
    d['dec'] = _arity(1)(lambda x: _ok([(x - 1) % M]))
    d['neg'] = _arity(1)(lambda x: _ok([(-x) % M]))
    d['abs'] = _arity(1)(lambda x: _ok([x if x < M // 2 else (M - x) % M]))
    d['add'] = _arity(2)(lambda a, s: _ok([(a + s) % M, s]))
    d['sub'] = _arity(2)(lambda a, s: _ok([(a - s) % M, s]))
    d['add_const'] = lambda c: _arity(1)(lambda x: _ok([(x + c) % M]))
    d['sub_const'] = lambda c: _arity(1)(lambda x: _ok([(x - c) % M]))
    d['add_self'] = _arity(1)(lambda x: _ok([(2 * x) % M]))
    d['mul10'] = _arity(1)(lambda x: _ok([(10 * x) % M]))
    d['mul3'] = _arity(3)(lambda r, a, b: _ok([(a * b) % M, a, b]))
    d['mul2'] = _arity(2)(lambda a, s: _ok([(a * s) % M, s]))
    d['square'] = _arity(1)(lambda x: _ok([(x * x) % M]))
    d['shl'] = lambda t: _arity(1)(lambda x: _ok([(x << t) % M]))
    d['shr'] = lambda t: _arity(1)(lambda x: _ok([x >> t]))
    d['shra'] = lambda t: _arity(1)(lambda x: _ok([usg(k, sgn(k, x) >> t)]))
    d['ror'] = _arity(1)(lambda x: _ok([(x >> 1) + (x & 1) * (M // 2)]))
    d['rol'] = _arity(1)(lambda x: _ok([(2 * x) % M + x // (M // 2)]))
    d['min'] = _arity(3)(lambda r, a, b: _ok([min(a, b), a, b]))
    d['max'] = _arity(3)(lambda r, a, b: _ok([max(a, b), a, b]))
    d['if'] = lambda x0, x1: _arity(1)(lambda x: ([x], x0 if x == 0 else x1))
    d['sign'] = lambda xneg, xzpos: _arity(1)(lambda x: ([x], xzpos if x < M // 2 else xneg))
    d['cmp'] = _arity(2)(lambda a, b: ([a, b], 1 if a < b else 2 if a == b else 3))
    d['scmp'] = _arity(2)(lambda a, b: ([a, b], 1 if sgn(k, a) < sgn(k, b) else 2 if a == b else 3))

    def div(x0, kb):
        return _arity(4)(lambda q, r, a, b: ([q, r, a, b], x0) if b == 0 else _ok([a // b, a % b, a, b]))
    d['div'] = div

    def idiv(x0, kb, ro):
        def f(q, r, a, b):
            if b == 0:
                return [q, r, a, b], x0
            za, zb = sgn(k, a), sgn(kb, b)
            if ro == 0:
                zr = za % zb                      # python % : sign of the divisor (floor)
            elif ro == 1:
                zr = abs(za) % abs(zb) * (-1 if za < 0 else 1)   # truncation: sign of the dividend
            else:
                zr = za % abs(zb)
            zq = (za - zr) // zb
            return _ok([usg(k, zq), usg(kb, zr), a, b])
        return _arity(4)(f)
    d['idiv'] = idiv
    return d


def _trunc_divmod(n, a, b):
    za, zb = sgn(n, a), sgn(n, b)
    q = abs(za) // abs(zb) * (-1 if (za < 0) != (zb < 0) else 1)
    return usg(n, q), usg(n, za - q * zb)


SPECS = {
    # hex namespace
    'hex_zero': lambda n: V(4 * n)['zero'], 'hex_mov': lambda n: V(4 * n)['mov'],
    'hex_mov_self': lambda n: V(n)['keep'], 'hex_set': lambda n, c: V(4 * n)['set'](c),
    'hex_swap': lambda n: V(4 * n)['swap'], 'hex_swap_self': lambda n: V(n)['keep'],
    'hex_xor_by': lambda n, c: V(4 * n)['xor_by'](c),
    'hex_xor': lambda n: V(4 * n)['xor'], 'hex_xor_self': lambda n: V(4 * n)['zero'],
    'hex_xor_zero': lambda n: V(4 * n)['xor_zero'], 'hex_double_xor': lambda: V(4)['double_xor'],
    'hex_not': lambda n: V(4 * n)['not'], 'hex_or': lambda n: V(4 * n)['or'], 'hex_and': lambda n: V(4 * n)['and'],
    'hex_inc': lambda n: V(4 * n)['inc'], 'hex_dec': lambda n: V(4 * n)['dec'], 'hex_neg': lambda n: V(4 * n)['neg'],
    'hex_abs': lambda n: V(4 * n)['abs'],
    'hex_inc1': lambda: _arity(1)(lambda x: ([(x + 1) % 16], 2 if x == 15 else 1)),
    'hex_dec1': lambda: _arity(1)(lambda x: ([(x - 1) % 16], 2 if x == 0 else 1)),
    'hex_sign_extend': lambda fn, sn: _arity(1)(
        lambda x: _ok([(x % 16 ** sn) if (x % 16 ** sn) < 16 ** sn // 2 else (x % 16 ** sn) + 16 ** fn - 16 ** sn])),
    'hex_add_count_bits': lambda n: _arity(2)(lambda d, s: _ok([(d + popcount(s)) % 16 ** n, s])),
    'hex_count_bits': lambda n: _arity(2)(lambda d, x: _ok([popcount(x), x])),
    'hex_add': lambda n: V(4 * n)['add'], 'hex_add_self': lambda n: V(4 * n)['add_self'],
    'hex_sub': lambda n: V(4 * n)['sub'], 'hex_sub_self': lambda n: V(4 * n)['zero'],
    'hex_add_shifted': lambda dn, sn, sh: _arity(2)(lambda d, s: _ok([(d + s * 16 ** sh) % 16 ** dn, s])),
    'hex_sub_shifted': lambda dn, sn, sh: _arity(2)(lambda d, s: _ok([(d - s * 16 ** sh) % 16 ** dn, s])),
    'hex_add_constant': lambda n, c: V(4 * n)['add_const'](c),
    'hex_sub_constant': lambda n, c: V(4 * n)['sub_const'](c),
    'hex_mul': lambda n: V(4 * n)['mul3'], 'hex_mul10': lambda n: V(4 * n)['mul10'],
    'hex_add_mul': lambda n: _arity(3)(lambda r, a, b: _ok([(r + a * b) % 16 ** n, a, b])),
    'hex_div': lambda n, nb: V(4 * n)['div'](1, 4 * nb),
    'hex_idiv': lambda n, nb, ro: V(4 * n)['idiv'](1, 4 * nb, ro),
    'hex_shl_bit': lambda n: V(4 * n)['shl'](1), 'hex_shr_bit': lambda n: V(4 * n)['shr'](1),
    'hex_shl_hex': lambda n, t: V(4 * n)['shl'](4 * t), 'hex_shr_hex': lambda n, t: V(4 * n)['shr'](4 * t),
    'hex_if_flags': lambda flags: _arity(1)(lambda x: ([x], 2 if (flags >> x) & 1 else 1)),
    'hex_if': lambda n: V(4 * n)['if'](1, 2), 'hex_if0': lambda n: V(4 * n)['if'](1, 0),
    'hex_if1': lambda n: V(4 * n)['if'](0, 1), 'hex_sign': lambda n: V(4 * n)['sign'](1, 2),
    'hex_cmp': lambda n: V(4 * n)['cmp'], 'hex_scmp': lambda n: V(4 * n)['scmp'],
    'hex_min': lambda n: V(4 * n)['min'], 'hex_max': lambda n: V(4 * n)['max'],
    # bit namespace
    'bit_zero': lambda n: V(n)['zero'], 'bit_one': lambda n: V(n)['ones'], 'bit_mov': lambda n: V(n)['mov'],
    'bit_mov_self': lambda n: V(n)['keep'], 'bit_swap': lambda n: V(n)['swap'],
    'bit_xor': lambda n: V(n)['xor'], 'bit_xor_self': lambda n: V(n)['zero'], 'bit_xor_zero': lambda n: V(n)['xor_zero'],
    'bit_double_exact_xor': lambda: V(1)['double_xor'],
    'bit_or': lambda n: V(n)['or'], 'bit_and': lambda n: V(n)['and'], 'bit_not': lambda n: V(n)['not'],
    'bit_if': lambda n: V(n)['if'](1, 2), 'bit_if0': lambda n: V(n)['if'](1, 0), 'bit_if1': lambda n: V(n)['if'](0, 1),
    'bit_cmp': lambda n: V(n)['cmp'],
    'bit_shr': lambda n, t: V(n)['shr'](t), 'bit_shra': lambda n, t: V(n)['shra'](t), 'bit_shl': lambda n, t: V(n)['shl'](t),
    'bit_ror': lambda n: V(n)['ror'], 'bit_rol': lambda n: V(n)['rol'],
    'bit_inc1': lambda: _arity(2)(lambda d, c: _ok([(d + c) % 2, (d + c) // 2])),
    'bit_add1': lambda: _arity(3)(lambda d, s, c: _ok([(d + s + c) % 2, s, (d + s + c) // 2])),
    'bit_inc': lambda n: V(n)['inc'], 'bit_dec': lambda n: V(n)['dec'], 'bit_neg': lambda n: V(n)['neg'],
    'bit_add': lambda n: V(n)['add'], 'bit_sub': lambda n: V(n)['sub'],
    'bit_mul10': lambda n: V(n)['mul10'], 'bit_mul': lambda n: V(n)['mul2'], 'bit_mul_self': lambda n: V(n)['square'],
    'bit_div10': lambda n: _arity(2)(lambda d, s: _ok([s // 10, s % 10])),
    'bit_div': lambda n: _arity(4)(lambda a, b, q, r: _ok([a, b, q, r]) if b == 0 else _ok([a, b, a // b, a % b])),
    'bit_idiv': lambda n: _arity(4)(
        lambda a, b, q, r: _ok([a, b, q, r]) if b == 0 else _ok([a, b] + list(_trunc_divmod(n, a, b)))),
}


def spec_fn(inst):
    """'hex_add 2' -> python function"""
    toks = inst.split()
    return SPECS[toks[0]](*[int(t, 0) for t in toks[1:]])


# ---------------------------------------------------------------------------------------------------------
# macro tables

def M(name, file, sig, call, vars, spec, exits=0, temps=(), inst=None, seq=None, pin=None, note=None, guard=None,
      witness=None, sweep=None, rerun=None):
    e = dict(rerun=rerun, name=name, file=file, sig=sig, call=call, vars=list(vars), spec=spec, exits=exits,
             temps=list(temps), inst=inst, seq=seq, pin=pin or {}, note=note, guard=guard, witness=witness, sweep=sweep)
    if sweep is None:
        keys = {k for t in ('quick', 'thorough', 'sample') for p in inst[t] for k in p if k not in ('w', 'pin')}
        if keys == {'n'}:
            e['sweep'] = lambda n, rng: {'n': n}
    return e


# SIZE SWEEP (sampled on the real engines, never a theorem): every macro with a `sweep` function (size, rng) -> parameters
# is instantiated at sizes drawn from the WHOLE range 1..SWEEP_MAX (all of them for the size-critical macros and in the
# thorough tier, a seed-chosen handful otherwise) and run on a few edge/random operands.  This is what notices a loop
# counter / `#n` / `rep(n-..)` expression that is only wrong for some sizes.
SIZE_CRITICAL = (r'div|mul|count_bits|cmp|scmp|min|max|sign|shifted|constant|shl|shr|shra|ror|rol|/t$|\.if|'
                 r'bit\.(inc|dec|neg|add|sub)$')
QUADRATIC = r'bit\.(mul(?!10)|mul_loop|div(?!10)|idiv|div_loop|idiv_loop)'


def _sw_const(n, rng):
    return {'n': n, 'c': rng.randrange(1, 16 ** n)}


def _sw_shifted(n, rng):
    sn = rng.randint(1, n)
    return {'dn': n, 'sn': sn, 'sh': rng.randint(0, n - sn)}


def N_(*ns, **extra):
    return [dict(n=n, **extra) for n in ns]


# an instance dict may carry 'w': [widths] to restrict the widths it is built for (default: all of the namespace)


# instance presets (hex): exhaustive sizes per tier and sampled sizes
H1 = {'quick': N_(1), 'thorough': N_(1, 2), 'sample': N_(4, 8, 16)}           # one operand: 16 / 256 cases
H2 = {'quick': N_(1), 'thorough': N_(1) + N_(2, w=[64]), 'sample': N_(4, 8, 16)}   # two operands: 256 / 65,536 cases (n=2 at w=64)
H2W = {'quick': N_(1), 'thorough': N_(1, 2), 'sample': N_(4, 8, 16)}                # ... n=2 at every width
H3 = {'quick': N_(1), 'thorough': N_(1), 'sample': N_(2, 4, 8)}               # three operands: 4,096 cases at n=1
ONE = {'quick': [{}], 'thorough': [{}], 'sample': []}

T_HEXMUL = [('dst', 'n'), ('src', 'n'), ('a_1bits', '((n*4).bit_length()+3)//4'), ('b_1bits', '((n*4).bit_length()+3)//4')]
T_HEXDIV = [('_b', 'nb+1'), ('_a', 'n'), ('_r', 'nb+1'), ('i', 'n.bit_length()')]
T_HEXIDIV = T_HEXDIV + [('negative_a', '1'), ('negative_b', '1'), ('one_negative', '1')]


def consts(n_list, cs):
    return [dict(n=n, c=c) for n in n_list for c in cs if c < 16 ** n]


HEX = [
    # ---- hex/memory.fj
    M('hex.zero', 'hex/memory.fj', 'def zero n, x', 'hex.zero {n}, {a}', [('a', 'hex', 'n')], 'hex_zero {n}', inst=H1,
      seq='hex.zero {n}, {x}'),
    M('hex.zero/1', 'hex/memory.fj', 'def zero hex', 'hex.zero {a}', [('a', 'hex', '1')], 'hex_zero 1', inst=ONE),
    M('hex.mov', 'hex/memory.fj', 'def mov n, dst, src', 'hex.mov {n}, {a}, {b}', [('a', 'hex', 'n'), ('b', 'hex', 'n')],
      'hex_mov {n}', inst=H2, seq='hex.mov {n}, {x}, {y}'),
    M('hex.mov/1', 'hex/memory.fj', 'def mov dst, src', 'hex.mov {a}, {b}', [('a', 'hex', '1'), ('b', 'hex', '1')],
      'hex_mov 1', inst=ONE),
    M('hex.mov/self', 'hex/memory.fj', 'def mov n, dst, src', 'hex.mov {n}, {a}, {a}', [('a', 'hex', 'n')],
      'hex_mov_self {n}', inst=H1),
    M('hex.set', 'hex/memory.fj', 'def set n, hex, val', 'hex.set {n}, {a}, {c}', [('a', 'hex', 'n')], 'hex_set {n} {c}',
      inst={'quick': consts([1], [0, 9, 15]), 'thorough': consts([1], range(16)) + consts([2], [0, 1, 0x5a, 0x80, 0xff]),
            'sample': consts([4], [0xbeef])}, sweep=_sw_const),
    M('hex.set/1', 'hex/memory.fj', 'def set hex, val', 'hex.set {a}, {c}', [('a', 'hex', '1')], 'hex_set 1 {c}',
      inst={'quick': [dict(c=6)], 'thorough': [dict(c=c) for c in (0, 6, 15)], 'sample': []}),
    M('hex.swap', 'hex/memory.fj', 'def swap n, hex1, hex2', 'hex.swap {n}, {a}, {b}', [('a', 'hex', 'n'), ('b', 'hex', 'n')],
      'hex_swap {n}', inst=H2, seq='hex.swap {n}, {x}, {y}'),
    M('hex.swap/1', 'hex/memory.fj', 'def swap hex1, hex2', 'hex.swap {a}, {b}', [('a', 'hex', '1'), ('b', 'hex', '1')],
      'hex_swap 1', inst=ONE),
    M('hex.swap/self', 'hex/memory.fj', 'def swap n, hex1, hex2', 'hex.swap {n}, {a}, {a}', [('a', 'hex', 'n')],
      'hex_swap_self {n}', inst=H1),
    M('hex.xor_by', 'hex/memory.fj', 'def xor_by n, hex, val', 'hex.xor_by {n}, {a}, {c}', [('a', 'hex', 'n')],
      'hex_xor_by {n} {c}',
      inst={'quick': consts([1], [0, 5, 15]), 'thorough': consts([1], range(16)) + consts([2], [0, 1, 0xa5, 0xf0, 0xff]),
            'sample': consts([4], [0x1234])}, sweep=_sw_const),
    M('hex.xor_by/1', 'hex/memory.fj', 'def xor_by hex, val', 'hex.xor_by {a}, {c}', [('a', 'hex', '1')], 'hex_xor_by 1 {c}',
      inst={'quick': [dict(c=9)], 'thorough': [dict(c=c) for c in (0, 9, 15)], 'sample': []}),
    # ---- hex/logics.fj
    M('hex.xor', 'hex/logics.fj', 'def xor n, dst, src', 'hex.xor {n}, {a}, {b}', [('a', 'hex', 'n'), ('b', 'hex', 'n')],
      'hex_xor {n}', inst=H2, seq='hex.xor {n}, {x}, {y}'),
    M('hex.xor/1', 'hex/logics.fj', 'def xor dst, src', 'hex.xor {a}, {b}', [('a', 'hex', '1'), ('b', 'hex', '1')],
      'hex_xor 1', inst=ONE),
    M('hex.xor/self', 'hex/logics.fj', 'def xor n, dst, src', 'hex.xor {n}, {a}, {a}', [('a', 'hex', 'n')],
      'hex_xor_self {n}', inst=H1),
    M('hex.exact_xor', 'hex/logics.fj', 'def exact_xor d3, d2, d1, d0, src',
      'hex.exact_xor {a}+dbit+3, {a}+dbit+2, {a}+dbit+1, {a}+dbit+0, {b}', [('a', 'hex', '1'), ('b', 'hex', '1')],
      'hex_xor 1', inst=ONE),
    M('hex.xor_zero', 'hex/logics.fj', 'def xor_zero n, dst, src', 'hex.xor_zero {n}, {a}, {b}',
      [('a', 'hex', 'n'), ('b', 'hex', 'n')], 'hex_xor_zero {n}', inst=H2, seq='hex.xor_zero {n}, {x}, {y}'),
    M('hex.xor_zero/1', 'hex/logics.fj', 'def xor_zero dst, src', 'hex.xor_zero {a}, {b}',
      [('a', 'hex', '1'), ('b', 'hex', '1')], 'hex_xor_zero 1', inst=ONE),
    M('hex.double_xor', 'hex/logics.fj', 'def double_xor dst1, dst2, src', 'hex.double_xor {a}, {b}, {c}',
      [('a', 'hex', '1'), ('b', 'hex', '1'), ('c', 'hex', '1')], 'hex_double_xor', inst=ONE),
    M('hex.not', 'hex/logics.fj', 'def not n, x', 'hex.not {n}, {a}', [('a', 'hex', 'n')], 'hex_not {n}', inst=H1,
      seq='hex.not {n}, {x}'),
    M('hex.not/1', 'hex/logics.fj', 'def not hex', 'hex.not {a}', [('a', 'hex', '1')], 'hex_not 1', inst=ONE),
    M('hex.or', 'hex/logics.fj', 'def or n, dst, src', 'hex.or {n}, {a}, {b}', [('a', 'hex', 'n'), ('b', 'hex', 'n')],
      'hex_or {n}', inst=H2, seq='hex.or {n}, {x}, {y}'),
    M('hex.or/1', 'hex/logics.fj', 'def or dst, src', 'hex.or {a}, {b}', [('a', 'hex', '1'), ('b', 'hex', '1')],
      'hex_or 1', inst=ONE),
    M('hex.and', 'hex/logics.fj', 'def and n, dst, src', 'hex.and {n}, {a}, {b}', [('a', 'hex', 'n'), ('b', 'hex', 'n')],
      'hex_and {n}', inst=H2, seq='hex.and {n}, {x}, {y}'),
    M('hex.and/1', 'hex/logics.fj', 'def and dst, src', 'hex.and {a}, {b}', [('a', 'hex', '1'), ('b', 'hex', '1')],
      'hex_and 1', inst=ONE),
    # ---- hex/math_basic.fj
    M('hex.inc', 'hex/math_basic.fj', 'def inc n, hex', 'hex.inc {n}, {a}', [('a', 'hex', 'n')], 'hex_inc {n}', inst=H1,
      seq='hex.inc {n}, {x}'),
    M('hex.dec', 'hex/math_basic.fj', 'def dec n, hex', 'hex.dec {n}, {a}', [('a', 'hex', 'n')], 'hex_dec {n}', inst=H1,
      seq='hex.dec {n}, {y}'),
    M('hex.neg', 'hex/math_basic.fj', 'def neg n, x', 'hex.neg {n}, {a}', [('a', 'hex', 'n')], 'hex_neg {n}', inst=H1,
      seq='hex.neg {n}, {x}'),
    M('hex.abs', 'hex/math_basic.fj', 'def abs n, x', 'hex.abs {n}, {a}', [('a', 'hex', 'n')], 'hex_abs {n}', inst=H1,
      seq='hex.abs {n}, {y}'),
    M('hex.inc1', 'hex/math_basic.fj', 'def inc1 hex, carry0, carry1', 'hex.inc1 {a}, {x1}, {x2}', [('a', 'hex', '1')],
      'hex_inc1', exits=2, inst=ONE),
    M('hex.dec1', 'hex/math_basic.fj', 'def dec1 hex, borrow0, borrow1', 'hex.dec1 {a}, {x1}, {x2}', [('a', 'hex', '1')],
      'hex_dec1', exits=2, inst=ONE),
    M('hex.sign_extend', 'hex/math_basic.fj', 'def sign_extend full_n, signed_n, hex', 'hex.sign_extend {fn}, {sn}, {a}',
      [('a', 'hex', 'fn')], 'hex_sign_extend {fn} {sn}',
      inst={'quick': [dict(fn=2, sn=1)], 'thorough': [dict(fn=2, sn=1), dict(fn=3, sn=1), dict(fn=3, sn=2), dict(fn=2, sn=2)],
            'sample': [dict(fn=8, sn=3), dict(fn=16, sn=8)]}, sweep=lambda n, rng: {'fn': n, 'sn': rng.randint(1, n)}),
    M('hex.add_count_bits', 'hex/math_basic.fj', 'def add_count_bits n, dst, src', 'hex.add_count_bits {n}, {a}, {b}',
      [('a', 'hex', 'n'), ('b', 'hex', '1')], 'hex_add_count_bits {n}',
      inst={'quick': N_(1), 'thorough': N_(1, 2), 'sample': N_(4)}),
    M('hex.count_bits', 'hex/math_basic.fj', 'def count_bits n, dst, x', 'hex.count_bits {n}, {a}, {b}',
      [('a', 'hex', '((n*4).bit_length()+3)//4'), ('b', 'hex', 'n')], 'hex_count_bits {n}',
      inst={'quick': N_(1), 'thorough': N_(1, 2) + N_(3, w=[64]), 'sample': N_(4, 8, 16)}),
    # ---- hex/math.fj
    M('hex.add', 'hex/math.fj', 'def add n, dst, src', 'hex.add {n}, {a}, {b}', [('a', 'hex', 'n'), ('b', 'hex', 'n')],
      'hex_add {n}', inst=H2W, seq='hex.add {n}, {x}, {y}'),
    M('hex.add/self', 'hex/math.fj', 'def add n, dst, src', 'hex.add {n}, {a}, {a}', [('a', 'hex', 'n')],
      'hex_add_self {n}', inst=H1, note='dst and src the same variable (not excluded by the documentation)'),
    M('hex.sub', 'hex/math.fj', 'def sub n, dst, src', 'hex.sub {n}, {a}, {b}', [('a', 'hex', 'n'), ('b', 'hex', 'n')],
      'hex_sub {n}', inst=H2W, seq='hex.sub {n}, {x}, {y}'),
    M('hex.sub/self', 'hex/math.fj', 'def sub n, dst, src', 'hex.sub {n}, {a}, {a}', [('a', 'hex', 'n')],
      'hex_sub_self {n}', inst=H1, note='dst and src the same variable (not excluded by the documentation)'),
    M('hex.add_shifted', 'hex/math.fj', 'def add_shifted dst_n, src_n, dst, src, hex_shift',
      'hex.add_shifted {dn}, {sn}, {a}, {b}, {sh}', [('a', 'hex', 'dn'), ('b', 'hex', 'sn')], 'hex_add_shifted {dn} {sn} {sh}',
      inst={'quick': [dict(dn=2, sn=1, sh=1)],
            'thorough': [dict(dn=2, sn=1, sh=0), dict(dn=2, sn=1, sh=1), dict(dn=3, sn=1, sh=1, w=[64]),
                         dict(dn=2, sn=2, sh=0, w=[64]), dict(dn=3, sn=1, sh=2, w=[64])],
            'sample': [dict(dn=8, sn=3, sh=2), dict(dn=16, sn=4, sh=5)]}, sweep=_sw_shifted),
    M('hex.sub_shifted', 'hex/math.fj', 'def sub_shifted dst_n, src_n, dst, src, hex_shift',
      'hex.sub_shifted {dn}, {sn}, {a}, {b}, {sh}', [('a', 'hex', 'dn'), ('b', 'hex', 'sn')], 'hex_sub_shifted {dn} {sn} {sh}',
      inst={'quick': [dict(dn=2, sn=1, sh=1)],
            'thorough': [dict(dn=2, sn=1, sh=0), dict(dn=2, sn=1, sh=1), dict(dn=3, sn=1, sh=1, w=[64]),
                         dict(dn=2, sn=2, sh=0, w=[64]), dict(dn=3, sn=1, sh=2, w=[64])],
            'sample': [dict(dn=8, sn=3, sh=2), dict(dn=16, sn=4, sh=5)]}, sweep=_sw_shifted),
    M('hex.add_constant', 'hex/math.fj', 'def add_constant n, dst, const', 'hex.add_constant {n}, {a}, {c}',
      [('a', 'hex', 'n')], 'hex_add_constant {n} {c}',
      inst={'quick': consts([1], [0, 1, 15]) + consts([2], [0x10]),
            'thorough': consts([1], [0, 1, 7, 8, 15]) + consts([2], [0, 1, 0x10, 0x1f, 0x80, 0xf0, 0xff]) + consts([3], [0x100, 0x230, 0xfff]),
            'sample': consts([8], [0x12345678, 0x1000, 1])}, sweep=_sw_const),
    M('hex.sub_constant', 'hex/math.fj', 'def sub_constant n, dst, const', 'hex.sub_constant {n}, {a}, {c}',
      [('a', 'hex', 'n')], 'hex_sub_constant {n} {c}',
      inst={'quick': consts([1], [1, 15]) + consts([2], [0x10]),
            'thorough': consts([1], [1, 7, 8, 15]) + consts([2], [1, 0x10, 0x1f, 0x80, 0xf0, 0xff]) + consts([3], [0x100, 0x230, 0xfff]),
            'sample': consts([8], [0x12345678, 0x1000, 1])}, sweep=_sw_const),
    # ---- hex/mul.fj
    M('hex.mul', 'hex/mul.fj', 'def mul n, res, a, b', 'hex.mul {n}, {a}, {b}, {c}',
      [('a', 'hex', 'n'), ('b', 'hex', 'n'), ('c', 'hex', 'n')], 'hex_mul {n}', temps=T_HEXMUL, pin={'a': 0xa5},
      rerun={'quick': [(dict(n=2, pin=1), {'c': (0, 16)})], 'thorough': [(dict(n=2, pin=1), {'c': (0, 64)})]},
      inst={'quick': N_(1), 'thorough': N_(1) + N_(2, pin=1, w=[64]), 'sample': N_(2, 4, 8)}, seq='hex.mul {n}, {z}, {x}, {y}'),
    M('hex.mul10', 'hex/mul.fj', 'def mul10 n, x', 'hex.mul10 {n}, {a}', [('a', 'hex', 'n')], 'hex_mul10 {n}', inst=H1,
      seq='hex.mul10 {n}, {x}'),
    M('hex.add_mul', 'hex/mul.fj', 'def add_mul n, res, a, b', 'hex.add_mul {n}, {a}, {b}, {c}',
      [('a', 'hex', 'n'), ('b', 'hex', 'n'), ('c', 'hex', '1')], 'hex_add_mul {n}', pin={'a': 0x9e},
      inst={'quick': N_(1), 'thorough': N_(1) + N_(2, pin=1), 'sample': N_(2, 4, 8)}, seq='hex.add_mul {n}, {z}, {x}, {y}'),
    # ---- hex/div.fj
    M('hex.div', 'hex/div.fj', 'def div n, nb, q, r, a, b, div0', 'hex.div {n}, {nb}, {q}, {r}, {a}, {b}, {x1}',
      [('q', 'hex', 'n'), ('r', 'hex', 'nb'), ('a', 'hex', 'n'), ('b', 'hex', 'nb')], 'hex_div {n} {nb}', exits=1,
      temps=T_HEXDIV, pin={'q': 0x3c, 'r': 0x59},
      rerun={'quick': [(dict(n=2, nb=1, pin=1), {'b': (1, 5)})], 'thorough': [(dict(n=2, nb=1, pin=1), {})]},
      inst={'quick': [dict(n=1, nb=1, pin=1)],
            'thorough': [dict(n=1, nb=1, w=[64]), dict(n=1, nb=1, pin=1, w=[32]), dict(n=2, nb=1, pin=1)],
            'deep': [dict(n=2, nb=2, pin=1, w=[64])],
            'sample': [dict(n=2, nb=2), dict(n=4, nb=2), dict(n=8, nb=8)]}, sweep=lambda n, rng: {'n': n, 'nb': rng.randint(1, 16)}),
    M('hex.idiv', 'hex/div.fj', 'def idiv n, nb, q, r, a, b, div0, rem_opt',
      'hex.idiv {n}, {nb}, {q}, {r}, {a}, {b}, {x1}, {ro}',
      [('q', 'hex', 'n'), ('r', 'hex', 'nb'), ('a', 'hex', 'n'), ('b', 'hex', 'nb')], 'hex_idiv {n} {nb} {ro}', exits=1,
      temps=T_HEXIDIV, pin={'q': 0x3c, 'r': 0x59},
      rerun={'quick': [(dict(n=2, nb=1, ro=0, pin=1), {'b': (6, 10)})],
             'thorough': [(dict(n=2, nb=1, ro=ro, pin=1), {}) for ro in (0, 1, 2)]},
      inst={'quick': [dict(n=1, nb=1, ro=ro, pin=1) for ro in (0, 1, 2)],
            'thorough': [dict(n=1, nb=1, ro=ro, pin=1) for ro in (0, 1, 2)] + [dict(n=2, nb=1, ro=ro, pin=1, w=[64]) for ro in (0, 1, 2)],
            'deep': [dict(n=1, nb=1, ro=0, w=[64])] + [dict(n=2, nb=2, ro=ro, pin=1, w=[64]) for ro in (0, 1, 2)],
            'sample': [dict(n=2, nb=2, ro=ro) for ro in (0, 1, 2)] + [dict(n=4, nb=4, ro=0)]}, sweep=lambda n, rng: {'n': n, 'nb': rng.randint(1, 16), 'ro': rng.randrange(3)}),
    # ---- hex/shifts.fj
    M('hex.shl_bit', 'hex/shifts.fj', 'def shl_bit n, dst', 'hex.shl_bit {n}, {a}', [('a', 'hex', 'n')], 'hex_shl_bit {n}',
      inst=H1, seq='hex.shl_bit {n}, {x}'),
    M('hex.shr_bit', 'hex/shifts.fj', 'def shr_bit n, dst', 'hex.shr_bit {n}, {a}', [('a', 'hex', 'n')], 'hex_shr_bit {n}',
      inst=H1, seq='hex.shr_bit {n}, {y}'),
    M('hex.shl_hex', 'hex/shifts.fj', 'def shl_hex n, dst', 'hex.shl_hex {n}, {a}', [('a', 'hex', 'n')], 'hex_shl_hex {n} 1',
      inst=H1, seq='hex.shl_hex {n}, {x}'),
    M('hex.shr_hex', 'hex/shifts.fj', 'def shr_hex n, dst', 'hex.shr_hex {n}, {a}', [('a', 'hex', 'n')], 'hex_shr_hex {n} 1',
      inst=H1),
    M('hex.shl_hex/t', 'hex/shifts.fj', 'def shl_hex n, times, dst', 'hex.shl_hex {n}, {t}, {a}', [('a', 'hex', 'n')],
      'hex_shl_hex {n} {t}',
      inst={'quick': [dict(n=2, t=1)], 'thorough': [dict(n=n, t=t) for n in (1, 2, 3) for t in range(n + 1)],
            'sample': [dict(n=8, t=3), dict(n=16, t=16)]}, sweep=lambda n, rng: {'n': n, 't': rng.randint(0, n)}),
    M('hex.shr_hex/t', 'hex/shifts.fj', 'def shr_hex n, times, dst', 'hex.shr_hex {n}, {t}, {a}', [('a', 'hex', 'n')],
      'hex_shr_hex {n} {t}',
      inst={'quick': [dict(n=2, t=1)], 'thorough': [dict(n=n, t=t) for n in (1, 2, 3) for t in range(n + 1)],
            'sample': [dict(n=8, t=3), dict(n=16, t=16)]}, sweep=lambda n, rng: {'n': n, 't': rng.randint(0, n)}),
    # ---- hex/cond_jumps.fj
    M('hex.if_flags', 'hex/cond_jumps.fj', 'def if_flags hex, flags, l0, l1', 'hex.if_flags {a}, {fl}, {x1}, {x2}',
      [('a', 'hex', '1')], 'hex_if_flags {fl}', exits=2,
      inst={'quick': [dict(fl=0x8421)], 'thorough': [dict(fl=f) for f in (0, 1, 0x8000, 0x8421, 0xfffe, 0xff00, 0xffff, 0x5a3c)],
            'sample': []}),
    M('hex.if/1', 'hex/cond_jumps.fj', 'def if hex, l0, l1', 'hex.if {a}, {x1}, {x2}', [('a', 'hex', '1')], 'hex_if 1',
      exits=2, inst=ONE),
    M('hex.if0/1', 'hex/cond_jumps.fj', 'def if0 hex, l0', 'hex.if0 {a}, {x1}', [('a', 'hex', '1')], 'hex_if0 1', exits=1,
      inst=ONE),
    M('hex.if1/1', 'hex/cond_jumps.fj', 'def if1 hex, l1', 'hex.if1 {a}, {x1}', [('a', 'hex', '1')], 'hex_if1 1', exits=1,
      inst=ONE),
    M('hex.if', 'hex/cond_jumps.fj', 'def if n, hex, l0, l1', 'hex.if {n}, {a}, {x1}, {x2}', [('a', 'hex', 'n')],
      'hex_if {n}', exits=2, inst={'quick': N_(1), 'thorough': N_(1, 2, 3), 'sample': N_(4, 8, 16)}),
    M('hex.if0', 'hex/cond_jumps.fj', 'def if0 n, hex, l0', 'hex.if0 {n}, {a}, {x1}', [('a', 'hex', 'n')], 'hex_if0 {n}',
      exits=1, inst={'quick': N_(1), 'thorough': N_(1, 2, 3), 'sample': N_(4, 8, 16)}),
    M('hex.if1', 'hex/cond_jumps.fj', 'def if1 n, hex, l1', 'hex.if1 {n}, {a}, {x1}', [('a', 'hex', 'n')], 'hex_if1 {n}',
      exits=1, inst={'quick': N_(1), 'thorough': N_(1, 2, 3), 'sample': N_(4, 8, 16)}),
    M('hex.sign', 'hex/cond_jumps.fj', 'def sign n, number, neg, zpos', 'hex.sign {n}, {a}, {x1}, {x2}', [('a', 'hex', 'n')],
      'hex_sign {n}', exits=2, inst={'quick': N_(1), 'thorough': N_(1, 2, 3), 'sample': N_(4, 8, 16)}),
    M('hex.cmp/1', 'hex/cond_jumps.fj', 'def cmp a, b, lt, eq, gt', 'hex.cmp {a}, {b}, {x1}, {x2}, {x3}',
      [('a', 'hex', '1'), ('b', 'hex', '1')], 'hex_cmp 1', exits=3, inst=ONE),
    M('hex.cmp', 'hex/cond_jumps.fj', 'def cmp n, a, b, lt, eq, gt', 'hex.cmp {n}, {a}, {b}, {x1}, {x2}, {x3}',
      [('a', 'hex', 'n'), ('b', 'hex', 'n')], 'hex_cmp {n}', exits=3, inst=H2W),
    M('hex.scmp', 'hex/cond_jumps.fj', 'def scmp n, a, b, lt, eq, gt', 'hex.scmp {n}, {a}, {b}, {x1}, {x2}, {x3}',
      [('a', 'hex', 'n'), ('b', 'hex', 'n')], 'hex_scmp {n}', exits=3, temps=[('ba', 'n'), ('bb', 'n')], inst=H2),
    M('hex.min', 'hex/cond_jumps.fj', 'def min n, dst, a, b', 'hex.min {n}, {a}, {b}, {c}',
      [('a', 'hex', 'n'), ('b', 'hex', 'n'), ('c', 'hex', 'n')], 'hex_min {n}', pin={'a': 0x5c},
      inst=dict(H3, thorough=N_(1) + N_(2, pin=1, w=[64])), seq='hex.min {n}, {z}, {x}, {y}'),
    M('hex.max', 'hex/cond_jumps.fj', 'def max n, dst, a, b', 'hex.max {n}, {a}, {b}, {c}',
      [('a', 'hex', 'n'), ('b', 'hex', 'n'), ('c', 'hex', 'n')], 'hex_max {n}', pin={'a': 0x5c},
      inst=dict(H3, thorough=N_(1) + N_(2, pin=1, w=[64])), seq='hex.max {n}, {z}, {x}, {y}'),
]


# ---------------------------------------------------------------------------------------------------------
# bit namespace (C05).  Exhaustive up to n = 8 for the cheap macros; the multiplication/division family is
# enumerated up to the n its cost allows (see `inst`), larger n are sampled on the real engines.

B1 = {'quick': N_(1, 4), 'thorough': N_(1, 2, 3, 4, 8), 'sample': N_(16, 32)}               # one operand
B2 = {'quick': N_(1), 'thorough': N_(1, 2, 4) + N_(8, w=[64]), 'sample': N_(16, 32)}        # two operands (8: 65,536 pairs)
B2Q = dict(B2, quick=N_(1, 4))
BONE = ONE
T_ADD = [('carry', '1'), ('_src', '1')]
T_NEGS = [('negative_a', '1'), ('negative_b', '1'), ('one_negative', '1')]
GARB = lambda n: ((0xA5A5A5A5 >> 3) & ((1 << n) - 1))   # noqa: E731


def shifts(ns):
    return [dict(n=n, t=t) for n in ns for t in range(0, n + 1)]


BDIV_PIN = {'q': 0xA5A5A5A5 >> 3, 'r': 0xA5A5A5A5 >> 4}


def DIVI(small, big):
    """division family: everything enumerated at the small sizes, q/r pinned at the big ones"""
    return {'quick': [dict(n=n) for n in small[:2]], 'thorough': [dict(n=n) for n in small] + [dict(n=n, pin=1, w=[64]) for n in big],
            'sample': N_(8, 16)}


BIT = [
    # ---- bit/memory.fj
    M('bit.zero/1', 'bit/memory.fj', 'def zero bit', 'bit.zero {a}', [('a', 'bit', '1')], 'bit_zero 1', inst=BONE),
    M('bit.zero', 'bit/memory.fj', 'def zero n, x', 'bit.zero {n}, {a}', [('a', 'bit', 'n')], 'bit_zero {n}', inst=B1,
      seq='bit.zero {n}, {x}'),
    M('bit.one/1', 'bit/memory.fj', 'def one bit', 'bit.one {a}', [('a', 'bit', '1')], 'bit_one 1', inst=BONE),
    M('bit.one', 'bit/memory.fj', 'def one n, x', 'bit.one {n}, {a}', [('a', 'bit', 'n')], 'bit_one {n}', inst=B1,
      seq='bit.one {n}, {y}'),
    M('bit.unsafe_mov', 'bit/memory.fj', 'def unsafe_mov dst, src', 'bit.unsafe_mov {a}, {b}',
      [('a', 'bit', '1'), ('b', 'bit', '1')], 'bit_mov 1', inst=BONE),
    M('bit.mov/1', 'bit/memory.fj', 'def mov dst, src', 'bit.mov {a}, {b}', [('a', 'bit', '1'), ('b', 'bit', '1')],
      'bit_mov 1', inst=BONE),
    M('bit.mov/1self', 'bit/memory.fj', 'def mov dst, src', 'bit.mov {a}, {a}', [('a', 'bit', '1')], 'bit_mov_self 1', inst=BONE),
    M('bit.mov', 'bit/memory.fj', 'def mov n, dst, src', 'bit.mov {n}, {a}, {b}', [('a', 'bit', 'n'), ('b', 'bit', 'n')],
      'bit_mov {n}', inst=B2Q, seq='bit.mov {n}, {x}, {y}'),
    M('bit.mov/self', 'bit/memory.fj', 'def mov n, dst, src', 'bit.mov {n}, {a}, {a}', [('a', 'bit', 'n')],
      'bit_mov_self {n}', inst=B1),
    M('bit.swap/1', 'bit/memory.fj', 'def swap a, b', 'bit.swap {a}, {b}', [('a', 'bit', '1'), ('b', 'bit', '1')],
      'bit_swap 1', inst=BONE),
    M('bit.swap', 'bit/memory.fj', 'def swap n, a, b', 'bit.swap {n}, {a}, {b}', [('a', 'bit', 'n'), ('b', 'bit', 'n')],
      'bit_swap {n}', inst=B2Q, seq='bit.swap {n}, {x}, {y}'),
    # ---- bit/logics.fj
    M('bit.xor/1', 'bit/logics.fj', 'def xor dst, src', 'bit.xor {a}, {b}', [('a', 'bit', '1'), ('b', 'bit', '1')],
      'bit_xor 1', inst=BONE),
    M('bit.xor', 'bit/logics.fj', 'def xor n, dst, src', 'bit.xor {n}, {a}, {b}', [('a', 'bit', 'n'), ('b', 'bit', 'n')],
      'bit_xor {n}', inst=B2Q, seq='bit.xor {n}, {x}, {y}'),
    M('bit.xor/self', 'bit/logics.fj', 'def xor n, dst, src', 'bit.xor {n}, {a}, {a}', [('a', 'bit', 'n')],
      'bit_xor_self {n}', inst=B1),
    M('bit.exact_xor', 'bit/logics.fj', 'def exact_xor dst, src', 'bit.exact_xor {a}+dbit, {b}',
      [('a', 'bit', '1'), ('b', 'bit', '1')], 'bit_xor 1', inst=BONE),
    M('bit.double_exact_xor', 'bit/logics.fj', 'def double_exact_xor dst1, dst2, src',
      'bit.double_exact_xor {a}+dbit, {b}+dbit, {c}', [('a', 'bit', '1'), ('b', 'bit', '1'), ('c', 'bit', '1')],
      'bit_double_exact_xor', inst=BONE),
    M('bit.xor_zero/1', 'bit/logics.fj', 'def xor_zero dst, src', 'bit.xor_zero {a}, {b}',
      [('a', 'bit', '1'), ('b', 'bit', '1')], 'bit_xor_zero 1', inst=BONE),
    M('bit.xor_zero', 'bit/logics.fj', 'def xor_zero n, dst, src', 'bit.xor_zero {n}, {a}, {b}',
      [('a', 'bit', 'n'), ('b', 'bit', 'n')], 'bit_xor_zero {n}', inst=B2Q, seq='bit.xor_zero {n}, {x}, {y}'),
    M('bit.or/1', 'bit/logics.fj', 'def or dst, src', 'bit.or {a}, {b}', [('a', 'bit', '1'), ('b', 'bit', '1')],
      'bit_or 1', inst=BONE),
    M('bit.or', 'bit/logics.fj', 'def or n, dst, src', 'bit.or {n}, {a}, {b}', [('a', 'bit', 'n'), ('b', 'bit', 'n')],
      'bit_or {n}', inst=B2Q, seq='bit.or {n}, {x}, {y}'),
    M('bit.and/1', 'bit/logics.fj', 'def and dst, src', 'bit.and {a}, {b}', [('a', 'bit', '1'), ('b', 'bit', '1')],
      'bit_and 1', inst=BONE),
    M('bit.and', 'bit/logics.fj', 'def and n, dst, src', 'bit.and {n}, {a}, {b}', [('a', 'bit', 'n'), ('b', 'bit', 'n')],
      'bit_and {n}', inst=B2Q, seq='bit.and {n}, {x}, {y}'),
    M('bit.not/1', 'bit/logics.fj', 'def not dst', 'bit.not {a}', [('a', 'bit', '1')], 'bit_not 1', inst=BONE),
    M('bit.not', 'bit/logics.fj', 'def not n, dst', 'bit.not {n}, {a}', [('a', 'bit', 'n')], 'bit_not {n}', inst=B1,
      seq='bit.not {n}, {x}'),
    M('bit.exact_not', 'bit/logics.fj', 'def exact_not dst', 'bit.exact_not {a}+dbit', [('a', 'bit', '1')], 'bit_not 1',
      inst=BONE),
    # ---- bit/cond_jumps.fj
    M('bit.if/1', 'bit/cond_jumps.fj', 'def if x, l0, l1', 'bit.if {a}, {x1}, {x2}', [('a', 'bit', '1')], 'bit_if 1',
      exits=2, inst=BONE),
    M('bit.if', 'bit/cond_jumps.fj', 'def if n, x, l0, l1', 'bit.if {n}, {a}, {x1}, {x2}', [('a', 'bit', 'n')],
      'bit_if {n}', exits=2, inst=B1),
    M('bit.if1/1', 'bit/cond_jumps.fj', 'def if1 x, l1', 'bit.if1 {a}, {x1}', [('a', 'bit', '1')], 'bit_if1 1', exits=1,
      inst=BONE),
    M('bit.if1', 'bit/cond_jumps.fj', 'def if1 n, x, l1', 'bit.if1 {n}, {a}, {x1}', [('a', 'bit', 'n')], 'bit_if1 {n}',
      exits=1, inst=B1),
    M('bit.if0/1', 'bit/cond_jumps.fj', 'def if0 x, l0', 'bit.if0 {a}, {x1}', [('a', 'bit', '1')], 'bit_if0 1', exits=1,
      inst=BONE),
    M('bit.if0', 'bit/cond_jumps.fj', 'def if0 n, x, l0', 'bit.if0 {n}, {a}, {x1}', [('a', 'bit', 'n')], 'bit_if0 {n}',
      exits=1, inst=B1),
    M('bit.cmp/1', 'bit/cond_jumps.fj', 'def cmp a, b, lt, eq, gt', 'bit.cmp {a}, {b}, {x1}, {x2}, {x3}',
      [('a', 'bit', '1'), ('b', 'bit', '1')], 'bit_cmp 1', exits=3, inst=BONE),
    M('bit.cmp', 'bit/cond_jumps.fj', 'def cmp n, a, b, lt, eq, gt', 'bit.cmp {n}, {a}, {b}, {x1}, {x2}, {x3}',
      [('a', 'bit', 'n'), ('b', 'bit', 'n')], 'bit_cmp {n}', exits=3, inst=B2Q),
    # ---- bit/shifts.fj
    M('bit.shr', 'bit/shifts.fj', 'def shr n, x', 'bit.shr {n}, {a}', [('a', 'bit', 'n')], 'bit_shr {n} 1', inst=B1,
      seq='bit.shr {n}, {x}'),
    M('bit.shr/t', 'bit/shifts.fj', 'def shr n, times, x', 'bit.shr {n}, {t}, {a}', [('a', 'bit', 'n')], 'bit_shr {n} {t}',
      inst={'quick': [dict(n=4, t=2)], 'thorough': shifts([1, 2, 3, 4, 8]), 'sample': [dict(n=16, t=5), dict(n=32, t=32)]}, sweep=lambda n, rng: {'n': n, 't': rng.randint(0, n)}),
    M('bit.shra', 'bit/shifts.fj', 'def shra n, times, x', 'bit.shra {n}, {t}, {a}', [('a', 'bit', 'n')], 'bit_shra {n} {t}',
      inst={'quick': [dict(n=4, t=2)], 'thorough': [d for d in shifts([1, 2, 3, 4, 8]) if d['t'] >= 1],
            'sample': [dict(n=16, t=5), dict(n=32, t=32)]}, sweep=lambda n, rng: {'n': n, 't': rng.randint(1, n)}),
    M('bit.shl', 'bit/shifts.fj', 'def shl n, x', 'bit.shl {n}, {a}', [('a', 'bit', 'n')], 'bit_shl {n} 1', inst=B1,
      seq='bit.shl {n}, {y}'),
    M('bit.shl/t', 'bit/shifts.fj', 'def shl n, times, x', 'bit.shl {n}, {t}, {a}', [('a', 'bit', 'n')], 'bit_shl {n} {t}',
      inst={'quick': [dict(n=4, t=2)], 'thorough': shifts([1, 2, 3, 4, 8]), 'sample': [dict(n=16, t=5), dict(n=32, t=32)]}, sweep=lambda n, rng: {'n': n, 't': rng.randint(0, n)}),
    M('bit.ror', 'bit/shifts.fj', 'def ror n, x', 'bit.ror {n}, {a}', [('a', 'bit', 'n')], 'bit_ror {n}',
      temps=[('temp_bit', '1')], inst=B1, seq='bit.ror {n}, {x}'),
    M('bit.rol', 'bit/shifts.fj', 'def rol n, x', 'bit.rol {n}, {a}', [('a', 'bit', 'n')], 'bit_rol {n}',
      temps=[('temp_bit', '1')], inst=B1, seq='bit.rol {n}, {y}'),
    # ---- bit/math.fj
    M('bit.inc1', 'bit/math.fj', 'def inc1 dst, carry', 'bit.inc1 {a}, {b}', [('a', 'bit', '1'), ('b', 'bit', '1')],
      'bit_inc1', inst=BONE, note='doc "{carry:dst}++" read as: dst += carry, carry = carry out (file header: carry is both input and output)'),
    M('bit.add1', 'bit/math.fj', 'def add1 dst, src, carry', 'bit.add1 {a}, {b}, {c}',
      [('a', 'bit', '1'), ('b', 'bit', '1'), ('c', 'bit', '1')], 'bit_add1', temps=[('_src', '1')], inst=BONE,
      note='doc "{carry:dst} += src" read as: dst + src + carry'),
    M('bit.inc', 'bit/math.fj', 'def inc n, x', 'bit.inc {n}, {a}', [('a', 'bit', 'n')], 'bit_inc {n}',
      temps=[('carry', '1')], inst=B1, seq='bit.inc {n}, {x}'),
    M('bit.dec', 'bit/math.fj', 'def dec n, x', 'bit.dec {n}, {a}', [('a', 'bit', 'n')], 'bit_dec {n}',
      temps=[('carry', '1')], inst=B1, seq='bit.dec {n}, {y}'),
    M('bit.neg', 'bit/math.fj', 'def neg n, x', 'bit.neg {n}, {a}', [('a', 'bit', 'n')], 'bit_neg {n}',
      temps=[('carry', '1')], inst=B1, seq='bit.neg {n}, {x}',
      note='the doc line above `def neg` says "x[:n]--" (copied from dec); the name and the stl README say negate'),
    M('bit.add', 'bit/math.fj', 'def add n, dst, src', 'bit.add {n}, {a}, {b}', [('a', 'bit', 'n'), ('b', 'bit', 'n')],
      'bit_add {n}', temps=T_ADD, inst=B2Q, seq='bit.add {n}, {x}, {y}'),
    M('bit.sub', 'bit/math.fj', 'def sub n, dst, src', 'bit.sub {n}, {a}, {b}', [('a', 'bit', 'n'), ('b', 'bit', 'n')],
      'bit_sub {n}', temps=T_ADD, inst=B2Q, seq='bit.sub {n}, {x}, {y}'),
    # ---- bit/mul.fj
    M('bit.mul10', 'bit/mul.fj', 'def mul10 n, x', 'bit.mul10 {n}, {a}', [('a', 'bit', 'n')], 'bit_mul10 {n}',
      temps=T_ADD + [('twice', 'n')], inst=B1, seq='bit.mul10 {n}, {x}'),
    M('bit.mul_loop', 'bit/mul.fj', 'def mul_loop n, dst, src', 'bit.mul_loop {n}, {a}, {b}',
      [('a', 'bit', 'n'), ('b', 'bit', 'n')], 'bit_mul {n}', temps=T_ADD + [('src_copy', 'n'), ('res', 'n')],
      inst={'quick': N_(1, 3), 'thorough': N_(1, 2, 3, 4) + N_(6, w=[64]), 'sample': N_(8, 16)}),
    M('bit.mul', 'bit/mul.fj', 'def mul n, dst, src', 'bit.mul {n}, {a}, {b}', [('a', 'bit', 'n'), ('b', 'bit', 'n')],
      'bit_mul {n}', temps=T_ADD + [('shifted_src', '2*n'), ('res', 'n')],
      inst={'quick': N_(1, 3), 'thorough': N_(1, 2, 3, 4) + N_(6, w=[64]), 'sample': N_(8, 16)}, seq='bit.mul {n}, {x}, {y}'),
    M('bit.mul/self', 'bit/mul.fj', 'def mul n, dst, src', 'bit.mul {n}, {a}, {a}', [('a', 'bit', 'n')],
      'bit_mul_self {n}', temps=T_ADD + [('shifted_src', '2*n'), ('res', 'n')],
      inst={'quick': N_(1, 3), 'thorough': N_(1, 2, 3, 4, 8), 'sample': N_(16)}),
    # ---- bit/div.fj
    M('bit.div10', 'bit/div.fj', 'def div10 n, dst, src', 'bit.div10 {n}, {a}, {b}', [('a', 'bit', 'n'), ('b', 'bit', 'n')],
      'bit_div10 {n}', inst={'quick': N_(1, 4), 'thorough': N_(1, 2, 3, 4, 5, 6) + N_(8, w=[64]), 'sample': N_(16, 32)}),
    M('bit.div', 'bit/div.fj', 'def div n, a, b, q, r', 'bit.div {n}, {a}, {b}, {q}, {r}',
      [('a', 'bit', 'n'), ('b', 'bit', 'n'), ('q', 'bit', 'n'), ('r', 'bit', 'n')], 'bit_div {n}',
      temps=T_ADD + [('R', '2*n'), ('Q', 'n')], inst=DIVI([1, 2, 3], [4, 6]), pin=BDIV_PIN),
    M('bit.idiv', 'bit/div.fj', 'def idiv n, a, b, q, r', 'bit.idiv {n}, {a}, {b}, {q}, {r}',
      [('a', 'bit', 'n'), ('b', 'bit', 'n'), ('q', 'bit', 'n'), ('r', 'bit', 'n')], 'bit_idiv {n}',
      temps=T_ADD + T_NEGS + [('R', '2*n'), ('Q', 'n')], inst=DIVI([1, 2, 3], [4, 6]), pin=BDIV_PIN),
    M('bit.div_loop', 'bit/div.fj', 'def div_loop n, a, b, q, r', 'bit.div_loop {n}, {a}, {b}, {q}, {r}',
      [('a', 'bit', 'n'), ('b', 'bit', 'n'), ('q', 'bit', 'n'), ('r', 'bit', 'n')], 'bit_div {n}',
      temps=T_ADD + [('A', 'n'), ('R', 'n'), ('Q', 'n'), ('i', 'n')], inst=DIVI([1, 2, 3], [4, 6]), pin=BDIV_PIN),
    M('bit.idiv_loop', 'bit/div.fj', 'def idiv_loop n, a, b, q, r', 'bit.idiv_loop {n}, {a}, {b}, {q}, {r}',
      [('a', 'bit', 'n'), ('b', 'bit', 'n'), ('q', 'bit', 'n'), ('r', 'bit', 'n')], 'bit_idiv {n}',
      temps=T_ADD + T_NEGS + [('A', 'n'), ('R', 'n'), ('Q', 'n'), ('i', 'n')], inst=DIVI([1, 2, 3], [4, 6]), pin=BDIV_PIN),
]


def pinned_domain(entry, params, vars_):
    """{placeholder: (lo, hi)} for an instance with pin=1; vars_ = [(placeholder, kind, digits)]"""
    if not params.get('pin'):
        return {}
    out = {}
    for ph, kind, n in vars_:
        if ph in entry['pin']:
            v = entry['pin'][ph] & ((1 << ((4 if kind == 'hex' else 1) * n)) - 1)
            out[ph] = (v, v + 1)
    return out


# python mirrors of the known-defect predicates of StlSpec.v (none at present: the hex.idiv zero-remainder defect found with
# this check was fixed in the repo, commit "fix: hex.idiv leaves a zero remainder alone")
GUARDS = {}


def guard_fn(inst):
    toks = inst.split()
    return GUARDS[toks[0]](*[int(t, 0) for t in toks[1:]])
