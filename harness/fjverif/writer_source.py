"""C06 source tie for the Writer's data / segment methods (wiring used by checks/c06.py).

prepare(ctx)                  regenerate coq/Gen/Facts_Writer.v (gen_facts_writer, fail closed), build Tie/Writer_steps.vo,
                              Tie/Writer_tie.vo, Properties/C06_source.vo; returns (property files, extra targets).
compare(ctx, header, terms)   the translator's own tie: the call sequences of the campaign are run through the REGENERATED
                              add_data / add_segment (PyIR.exec inside Coq, Tie/Writer_steps.check_writer_src) and compared
                              with the REAL Writer: accepted / rejected and returned value per call, and the file the real
                              Writer wrote (or left behind) = what the regenerated write_to_file assembles from the table +
                              pool the regenerated add_data / add_segment built."""
from . import framework as fw
from . import gen_facts_writer as gen
from .source_tie import SourceTie

TIE = SourceTie('Writer source tie', gen, 'Facts_Writer', 'Tie/Writer_steps.v', 'Tie/Writer_tie.v',
                'Properties/C06_source.v', ['Proofs/FjmWriter.vo', 'Proofs/PyIRProps.vo', 'Model/PyIR.vo'])


def prepare(ctx):
    props, targets = TIE.prepare(ctx)
    if TIE.state(ctx)['text'] is not None:
        ctx.coverage['trusted_base'] += [
            'Model/PyIR.v (semantics of the Python subset: unbounded ints incl. negative ones computed in Z, lists owned by an '
            'attribute with append / += / item assignment, enumerate, any over a comprehension, continue) and '
            'harness/fjverif/gen_facts_writer.py (fail-closed ast translator of Writer.add_data / add_segment and their helpers, '
            'rules W1-W7 in its header); cross-checked on every run by running the regenerated methods inside Coq against the '
            'real Writer (coverage.source_ir_agreeing)',
            'Tie/Writer_steps.v: the Writer object read as the attribute list of the interpreter world, one call = one method call, '
            'returned / FlipJumpWriteFjmException = the outcome code of Fjm.exec; the file opened by write_to_file = the output stream of '
            'the world; struct.pack = EPack; lzma (Writer._compress_data) is an oracle as in Fjm.write']
        ctx.assumptions += ['Writer source tie: covers add_data, add_segment (+ helpers), add_simple_segment_with_data, write_to_file; '
                            'Writer.__init__ and _compress_data (the lzma wrapper) stay hand-transcribed (Model/Fjm.v)']
    return props, targets


def compare(ctx, header, terms, limit=None):
    st = TIE.state(ctx)
    if not st or not st['steps']:
        return
    chosen = terms[:limit or ctx.n(700, 5000)]
    full = header + 'From FJ Require Import Model.PyIR.\n' + TIE.steps_import(ctx)
    oks = fw.coq_eval_shards(ctx, 'src_writer', full, chosen, 'check_writer_src', shard=max(30, len(chosen) // (fw.NCPU * 2) + 1))
    good = sum(1 for ok in oks if ok)
    ctx.coverage['source_ir_agreeing'] = ctx.coverage.get('source_ir_agreeing', 0) + good
    for t, ok in zip(chosen, oks):
        if ok is None:
            continue
        ctx.count(('source-ir', t), True)
        ctx.hist('source_ir_cases', 'agrees' if ok else 'DISAGREES')
    for t in [t for t, ok in zip(chosen, oks) if ok is False][:3]:
        ctx.broken_tie('Writer source tie: the regenerated add_data / add_segment (PyIR.exec) disagree with the real Writer',
                       f'case: {t[:3000]}')
    TIE.check_unchanged(ctx)
