"""Generators of FlipJump memory images (word level) for the engine campaigns (C01/C07/C11/C18/C19)."""


class Image:
    """bit-level builder: place w-bit values at arbitrary bit addresses inside declared segments"""

    def __init__(self, w, segs):
        self.w = w
        self.ww = w.bit_length() - 1
        self.segs = segs                      # list of [start, length] in words
        self.words = {}                       # word address -> value
        self.used = []                        # placed bit ranges (lo, hi)

    def valid_word(self, a):
        return any(s <= a < s + l for s, l in self.segs)

    def free(self, lo, hi):
        return all(hi <= a or b <= lo for a, b in self.used)

    def place(self, bitaddr, value, nbits=None, force=False):
        nbits = nbits or self.w
        lo, hi = bitaddr, bitaddr + nbits
        if not force and not self.free(lo, hi):
            return False
        for wa in range(lo >> self.ww, ((hi - 1) >> self.ww) + 1):
            if not self.valid_word(wa):
                return False
        self.used.append((lo, hi))
        for i in range(nbits):
            b = (value >> i) & 1
            wa, off = (lo + i) >> self.ww, (lo + i) & (self.w - 1)
            cur = self.words.get(wa, 0)
            cur = (cur | (1 << off)) if b else (cur & ~(1 << off))
            self.words[wa] = cur
        return True

    def place_op(self, bitaddr, f, j):
        if not self.free(bitaddr, bitaddr + 2 * self.w):
            return False
        for wa in range(bitaddr >> self.ww, ((bitaddr + 2 * self.w - 1) >> self.ww) + 1):
            if not self.valid_word(wa):
                return False
        self.place(bitaddr, f)
        self.place(bitaddr + self.w, j)
        return True

    def to_case(self, rng, trim=True):
        """segments with data = the shortest even prefix covering the nonzero words (rest is the zero tail),
        sometimes padded further with explicit zeros"""
        out = []
        for s, l in self.segs:
            hi = 0
            for a, v in self.words.items():
                if s <= a < s + l and v:
                    hi = max(hi, a - s + 1)
            if not trim or rng.random() < 0.3:
                hi = rng.randint(hi, l)
            hi += hi & 1
            hi = min(hi, l)
            out.append([s, l, [self.words.get(s + i, 0) for i in range(hi)]])
        return out


def gen_segments(rng, w, geometry='plain'):
    ww = w.bit_length() - 1
    max_words = 1 << (w - ww) if w < 64 else 1 << 58
    if w == 8:
        l0 = rng.choice([2, 4, 6, 8, 12, 16, 24, 32])
        segs = [[0, l0]]
        if l0 <= 20 and rng.random() < 0.4:
            s1 = rng.randrange(l0 // 2 + 1, 15) * 2
            segs.append([s1, rng.choice([2, 4]) if s1 + 4 <= 32 else 2])
        return [s for s in segs if s[0] + s[1] <= 32]
    l0 = rng.choice([2, 4, 6, 8, 10, 12, 16, 20, 24, 32, 40, 64])
    segs = [[0, l0]]
    n_extra = rng.choice([0, 0, 1, 1, 2, 3])
    cur = l0
    for _ in range(n_extra):
        if geometry == 'plain':
            gap = rng.choice([0, 0, 2, 4, 8, 30, 1000, 4096])
        else:
            gap = rng.choice([0, 2, 1 << 14, (1 << 14) - 2, (1 << 14) + 2, 1 << 20, 1 << 23, (1 << 23) - 4, 1 << 30,
                              1 << 40, 1 << 50, (1 << 57)])
        start = cur + gap
        start += start & 1
        length = rng.choice([2, 2, 4, 6, 8, 16, 1002, 2000]) if rng.random() < 0.9 else rng.choice([1 << 14, 40000])
        if start + length > max_words:
            break
        segs.append([start, length])
        cur = start + length
    return segs


def gen_image(rng, w=None, geometry='plain', n_ops=None, segs=None, focus=None):
    """returns (case_segs, info) with info describing which structural features were generated"""
    w = w or rng.choice([8, 16, 16, 32, 32, 64, 64, 64])
    ww = w.bit_length() - 1
    dw = 2 * w
    mask = (1 << w) - 1
    in_addr = 3 * w + w.bit_length()
    segs = segs or gen_segments(rng, w, geometry)
    focus = focus or {}
    f_ops, f_flips, f_jumps = focus.get('ops', []), focus.get('flips', []), focus.get('jumps', [])
    img = Image(w, segs)
    tags = set()

    # candidate op addresses
    def rand_word():
        s, l = rng.choice(segs)
        r = rng.random()
        if r < 0.15:
            return s + l - 1
        if r < 0.25:
            return s
        return s + rng.randrange(min(l, 80))

    def op_addr():
        if f_ops and rng.random() < 0.6:
            return rng.choice(f_ops)
        r = rng.random()
        s, l = rng.choice(segs)
        if r < 0.62:
            return (s + 2 * rng.randrange(max(1, min(l, 64) // 2))) << ww
        if r < 0.72:
            return (s + rng.randrange(min(l, 64))) << ww          # word aligned, maybe odd word
        if r < 0.80:
            return (s + l - 1) << ww                               # last word: jump word outside
        if r < 0.90:
            return in_addr - rng.randrange(0, dw + 2) + rng.choice([0, 0, 1, -1])   # around the input window
        return ((s + rng.randrange(min(l, 64))) << ww) + rng.randrange(1, w)       # unaligned

    n_ops = n_ops or rng.choice([1, 2, 3, 4, 6, 8, 12, 16, 24])
    ops = []
    for _ in range(n_ops * 2):
        a = op_addr()
        if a < 0 or a + dw > (1 << w) + dw:
            continue
        if a not in ops:
            ops.append(a)
        if len(ops) >= n_ops:
            break
    if 0 not in ops:
        ops.insert(0, 0)
    if rng.random() < 0.5 and dw not in ops and any(s <= 2 and s + l >= 4 for s, l in segs):
        ops.insert(1, dw)                                          # the canonical IO op

    def flip_target(ip):
        if f_flips and rng.random() < 0.5:
            return rng.choice(f_flips)
        r = rng.random()
        if r < 0.30:
            return (rand_word() << ww) + rng.randrange(w)
        if r < 0.42:
            return rng.choice([dw, dw + 1])
        if r < 0.50:
            return rng.randrange(dw)
        if r < 0.60:
            return ip + rng.randrange(dw)                          # self-modifying (own words)
        if r < 0.72 and ops:
            o = rng.choice(ops)
            return o + w + rng.choice([ww + 1, ww + 1, ww + 2, ww, rng.randrange(w)])   # another op's jump word
        if r < 0.78:
            s, l = rng.choice(segs)
            return ((s + l) << ww) + rng.randrange(w)              # one past the end
        if r < 0.84:
            return in_addr + rng.choice([0, 1, -1, w, -w])
        if r < 0.90:
            return rng.randrange(1 << w)
        return mask - rng.randrange(4)

    def jump_target(ip):
        if f_jumps and rng.random() < 0.5:
            return rng.choice(f_jumps)
        if f_ops and rng.random() < 0.5:
            return rng.choice(f_ops)
        r = rng.random()
        if r < 0.62 and ops:
            return rng.choice(ops)
        if r < 0.70:
            return ip
        if r < 0.76:
            return rng.randrange(dw)
        if r < 0.82:
            s, l = rng.choice(segs)
            return (s + l - rng.choice([0, 1, 2])) << ww
        if r < 0.88:
            return ip + dw
        if r < 0.93:
            return in_addr - rng.randrange(dw + 1)
        if r < 0.97:
            return rng.randrange(1 << w)
        return mask - rng.randrange(2 * w)

    placed = 0
    for a in ops:
        f, j = flip_target(a) & mask, jump_target(a) & mask
        if img.place_op(a, f, j):
            placed += 1
            if a & (w - 1):
                tags.add('unaligned-op')
            if in_addr - dw < a <= in_addr:
                tags.add('input-op')
            if f in (dw, dw + 1):
                tags.add('output-op')
            if a <= f < a + dw:
                tags.add('self-mod')
    # random filler words
    for _ in range(rng.choice([0, 0, 2, 6])):
        wa = rand_word()
        if img.free(wa << ww, (wa + 1) << ww):
            v = rng.choice([rng.randrange(1 << w), mask, 1 << (w - 1), 0xBB67AE8584CAA73B & mask, rng.choice(ops or [0])])
            img.place(wa << ww, v)
    return w, img.to_case(rng), sorted(tags)


def chain_program(rng, w, n, geometry='plain'):
    """a long-running structured program: a ring of n ops walked `laps` times by a unary counter made of
    self-modifying jump words; exercises long runs, output and input."""
    ww = w.bit_length() - 1
    dw = 2 * w
    total = 2 * n + 8
    if w == 8:
        n = min(n, 8)
        total = min(32, 2 * n + 6)
    segs = [[0, total]]
    img = Image(w, segs)
    # op i at i*dw; op 0 jumps to op 2; op 1 (addr dw) is the IO op
    addrs = [i * dw for i in range(total // 2)]
    body = addrs[2:2 + n]
    img.place_op(0, rng.choice([0, dw, dw + 1]), body[0])
    for k, a in enumerate(body):
        nxt = body[k + 1] if k + 1 < len(body) else None
        r = rng.random()
        if r < 0.3:
            f = rng.choice([dw, dw + 1])
        elif r < 0.6:
            f = (rng.randrange(2, total) << ww) + rng.randrange(w) if w > 8 else rng.randrange(1 << w)
        else:
            # flip a bit in a later op's jump word so that it detours (bit ww+1 moves by one op)
            t = rng.choice(body)
            f = t + w + ww + 1
        if nxt is None:
            j = rng.choice([a, body[0], rng.randrange(dw), dw, a])
        else:
            j = nxt if rng.random() < 0.9 else rng.choice(body)
        img.place_op(a, f & ((1 << w) - 1), j & ((1 << w) - 1))
    img.place_op(dw, rng.choice([0, dw + 1, 5]), rng.choice(body))
    return w, img.to_case(rng), ['chain']


def cycle_program(rng, w, io_in_cycle=False):
    """a program that never halts (io_in_cycle: one op of the cycle writes an output bit on every lap): op 0 -> a prologue of ops that write output bits -> a cycle of >= 2 ops (aligned or
    unaligned, in 4-word slots) that keep flipping bits of a scratch area (sometimes in a second, far segment).
    returns (w, case_segs, tags, n_outputs)"""
    ww = w.bit_length() - 1
    dw = 2 * w
    n_pro = rng.randrange(1, 4)
    n_cyc = rng.randrange(2, 6)
    slots = n_pro + n_cyc
    code_words = 4 + 4 * slots
    scratch_n = 8
    far = w >= 32 and rng.random() < 0.4
    if far:
        fs = rng.choice([1 << 14, (1 << 14) + 100, 5 << 14])
        segs = [[0, code_words + 2], [fs, scratch_n]]
        scratch = fs
    else:
        segs = [[0, code_words + 2 + scratch_n]]
        scratch = code_words + 2
    img = Image(w, segs)
    unaligned = rng.random() < 0.6
    addr = []
    for k in range(slots):
        off = rng.randrange(1, w) if (unaligned and k >= n_pro and rng.random() < 0.7) else 0
        addr.append(((4 + 4 * k) << ww) + off)
    img.place_op(0, (scratch << ww) + rng.randrange(w), addr[0])
    for k in range(slots):
        if k < n_pro:
            f = rng.choice([dw, dw + 1])
        elif io_in_cycle and k == n_pro:
            f = rng.choice([dw, dw + 1])
        else:
            f = ((scratch + rng.randrange(scratch_n)) << ww) + rng.randrange(w)
        j = addr[k + 1] if k + 1 < slots else addr[n_pro]
        img.place_op(addr[k], f, j)
    tags = ['cycle', 'unaligned-cycle' if unaligned else 'aligned-cycle'] + (['far-scratch'] if far else [])
    return w, img.to_case(rng), tags, n_pro


def directed_native_case(rng):
    """images + knobs aimed at the cold paths of the native loops. returns (w, case_segs, tags, knobs)"""
    kind = rng.choice(['cache-collision', 'page-straddle', 'window-edge', 'tiny-window-input', 'ring-flat-lane',
                       'measured-input-edge', 'magic-collision', 'many-pages', 'top-self-mod', 'far-sort'])
    knobs = {}
    if kind == 'many-pages':
        return many_pages_case(rng)
    if kind == 'far-sort':
        return far_sort_case(rng)
    if kind == 'top-self-mod':
        return top_self_mod_case(rng)
    if kind == 'cache-collision':
        w = rng.choice([32, 64])
        ww = w.bit_length() - 1
        n0 = rng.choice([4, 6, 8, 12])
        far = rng.choice([16, 32, 48, 16 * 64]) * (1 << 14) + rng.choice([0, 2, 6, (1 << 14) - 8])
        if w == 32:
            far = 16 * (1 << 14) + rng.choice([0, 2, 6])
        m = rng.choice([4, 8, 2000])
        segs = [[0, n0], [far, m]]
        focus = {'ops': [(n0 - 2) << ww, (n0 - 1) << ww, 0, 2 << ww, far << ww, (far + m - 1) << ww],
                 'flips': [((far + rng.randrange(min(m, 6))) << ww) + rng.randrange(w) for _ in range(4)] +
                          [(rng.randrange(n0) << ww) + rng.randrange(w) for _ in range(2)],
                 'jumps': [(n0 - 2) << ww, (n0 - 1) << ww, far << ww, (far + m - 1) << ww, (far + m - 2) << ww]}
        knobs = rng.choice([{'no_flat': True}, {'no_flat': True, 'last_ops': 3}, {'flat_max_words': n0}, {'flat_max_words': 2},
                            {'flat_max_words': n0, 'last_ops': 2}])
    elif kind == 'page-straddle':
        w = rng.choice([32, 64])
        ww = w.bit_length() - 1
        pg = rng.choice([1, 2, 16]) * (1 << 14)
        segs = [[0, 6], [pg - 6, 12]]
        focus = {'ops': [(pg - 1) << ww, (pg - 2) << ww, pg << ww, ((pg - 1) << ww) + rng.randrange(1, w), 0],
                 'flips': [((pg - 1) << ww) + rng.randrange(w), (pg << ww) + rng.randrange(w), ((pg + 5) << ww) + 1, ((pg + 6) << ww)],
                 'jumps': [(pg - 1) << ww, (pg - 2) << ww, pg << ww]}
        knobs = rng.choice([{'no_flat': True}, {'flat_max_words': 4}, {'flat_max_words': pg}, {'flat_max_words': pg - 1},
                            {'flat_max_words': pg + 1}, {'no_flat': True, 'last_ops': 2}, {}])
    elif kind == 'window-edge':
        w = rng.choice([16, 32, 64])
        ww = w.bit_length() - 1
        n = rng.choice([12, 16, 24])
        k = rng.choice([3, 4, 5, 6, 7, 8, n - 1, n])
        segs = [[0, n]] if rng.random() < 0.6 else [[0, k + (k & 1)], [k + (k & 1) + 2, 6]]
        focus = {'ops': [(k - 2) << ww, (k - 1) << ww, k << ww, (k + 1) << ww, ((k - 1) << ww) + rng.randrange(1, w), 0],
                 'flips': [((k + d) << ww) + rng.randrange(w) for d in (-1, 0, 0, 1)],
                 'jumps': [(k - 2) << ww, (k - 1) << ww, k << ww]}
        knobs = rng.choice([{'flat_max_words': k}, {'flat_max_words': k, 'last_ops': 3}, {'flat_max_words': k, 'measure': True}, {}])
    elif kind == 'tiny-window-input':
        w = rng.choice([16, 32, 64])
        ww = w.bit_length() - 1
        segs = [[0, rng.choice([8, 12, 16])]]
        dw = 2 * w
        focus = {'ops': [dw, 0, 2 * dw, 3 * dw, dw + rng.randrange(1, w)], 'flips': [dw, dw + 1, 3 * w + ww + 1, 0],
                 'jumps': [dw, 2 * dw, 3 * dw]}
        knobs = {'flat_max_words': rng.choice([1, 2, 3, 4, 5])}
        if rng.random() < 0.3:
            knobs['last_ops'] = 2
    elif kind == 'ring-flat-lane':
        w = rng.choice([16, 32, 64])
        ww = w.bit_length() - 1
        n = rng.choice([8, 12, 16])
        segs = [[0, n]] if rng.random() < 0.5 else [[0, n], [rng.choice([n + 4, 1 << 14, 1 << 23]), 6]]
        focus = {'ops': [0, 4 << ww, (2 << ww) + rng.randrange(1, w), (6 << ww) + rng.randrange(1, w), segs[-1][0] << ww],
                 'flips': [], 'jumps': []}
        knobs = {'last_ops': rng.choice([1, 2, 5, 100])}
        if rng.random() < 0.4:
            knobs['flat_max_words'] = rng.choice([4, 6, n])
    elif kind == 'measured-input-edge':
        w = rng.choice([8, 16, 32, 64])
        ww = w.bit_length() - 1
        dw = 2 * w
        ia = 3 * w + ww + 1
        segs = [[0, rng.choice([8, 12])]]
        focus = {'ops': [ia, ia - dw, ia - dw + 1, ia + 1, ia - 1, dw, 0], 'flips': [], 'jumps': [ia, ia - dw, ia - dw + 1, ia + 1]}
        knobs = {'measure': True}
        if rng.random() < 0.3:
            knobs['no_flat'] = True
    else:   # magic-collision: words equal to the w=64 fill constant / bit-63 words
        w = 64
        ww = 6
        segs = [[0, rng.choice([8, 12])]] if rng.random() < 0.5 else [[0, 8], [rng.choice([12, 1 << 14]), 6]]
        focus = {}
        knobs = rng.choice([{}, {'last_ops': 2}, {'flat_max_words': 6}, {'measure': True}])
    # only addressable segments: word addresses below 2^w / w
    limit = 1 << (w - ww)
    segs = [s for s in segs if s[0] + s[1] <= limit]
    w2, case_segs, tags = gen_image(rng, w=w, segs=[list(s) for s in segs], focus=focus, n_ops=rng.choice([3, 5, 8]))
    if kind == 'magic-collision':
        magic = 0xBB67AE8584CAA73B
        for sgm in case_segs:
            for i in range(len(sgm[2])):
                if rng.random() < 0.25:
                    sgm[2][i] = rng.choice([magic, magic ^ 1, magic ^ (1 << rng.randrange(64)), 1 << 63])
    return w2, case_segs, tags + ['directed:' + kind], knobs


def many_pages_case(rng):
    """a chain of ops, one per 16K-word page, over more pages than the native page table holds before it grows
    (growth at 32, 64, 128 ... used slots); every op flips a data word of an EARLIER page, so lost pages show up in
    the run and in the memory read back"""
    w = rng.choice([32, 64, 64])
    ww = w.bit_length() - 1
    dw = 2 * w
    n_pages = rng.choice([40, 70, 140, 300])
    limit_pages = (1 << (w - ww)) >> 14
    pages = [0]
    pool = list(range(1, min(limit_pages, 4000)))
    rng.shuffle(pool)
    pages += pool[:n_pages - 1 - (4 if w == 64 else 0)]
    if w == 64:
        pages += [(1 << 26) + rng.randrange(1000), (1 << 36) + rng.randrange(1000), (1 << 40) + 5, (1 << 43) + 77]
    pages = [p for p in pages if p < limit_pages]
    segs = []
    order = pages[:]                       # execution order = list order; page 0 first (op 0)
    starts = {}
    for p in order:
        off = 0 if p == 0 else 2 * rng.randrange(0, 8000)
        starts[p] = (p << 14) + off
    for k, p in enumerate(order):
        s = starts[p]
        nxt = starts[order[k + 1]] << ww if k + 1 < len(order) else None
        # flip target: the data word (third word) of an earlier page, else own data word
        q = order[rng.randrange(0, k)] if k > 0 and rng.random() < 0.8 else p
        f = ((starts[q] + 2) << ww) + rng.randrange(w)
        if rng.random() < 0.1:
            f = rng.choice([dw, dw + 1])
        j = nxt if nxt is not None else (s << ww)            # the last op loops on itself (halt)
        segs.append([s, 4, [f & ((1 << w) - 1), j & ((1 << w) - 1), rng.randrange(1 << min(w, 30)), 0]])
    knobs = rng.choice([{'no_flat': True}, {'flat_max_words': 4}, {'flat_max_words': 1 << 14}, {'no_flat': True, 'last_ops': 3},
                        {'flat_max_words': 2, 'measure': True}, {}])
    return w, segs, ['directed:many-pages'], knobs


def far_sort_case(rng):
    """w=64: a few low segments plus several small segments sharing far 16K-word pages whose start addresses differ from
    the low ones (and from each other) by amounts whose low 32 bits look negative / zero / wrap - the ordering of the
    segment list, its binary search and the "second intersection with a page" path of the native engine; the ops (in
    segment 0 and inside far segments) flip bits of words in every far segment, in particular not the first of its page"""
    w, ww = 64, 6
    lo32 = [0x80000000, 0xC0000000, 0xFFFFC000, 0x7FFFC000, 0, 0x40000000, 0xFFFF8000]
    bases = []
    for _ in range(rng.choice([1, 2, 3])):
        hi = 1 << rng.choice([32, 33, 36, 40, 45, 50])
        bases.append(hi * rng.choice([1, 1, 3]) + rng.choice(lo32))
    bases = sorted(set(bases))
    far = []                                 # (start, length)
    for b in bases:
        off = 0
        for _ in range(rng.choice([2, 3, 4])):
            ln = rng.choice([4, 6, 8])
            far.append((b + off, ln))
            off += ln + rng.choice([2, 8, 10, 100])
    n_ops = rng.randrange(2, 7)
    n0 = 2 * n_ops + 2
    low_extra = [(16 + 16 * i, rng.choice([4, 8])) for i in range(rng.choice([0, 2, 3]))]
    low_extra = [(s0, ln) for s0, ln in low_extra if s0 >= n0 + 2]
    words0 = []
    # an op inside a far segment (not the first of its page when possible) that flips and jumps back
    fs, fl = far[-1] if rng.random() < 0.7 else rng.choice(far)
    use_far_op = rng.random() < 0.6
    for k in range(n_ops):
        ts, tl = rng.choice(far[1:] if len(far) > 1 and rng.random() < 0.8 else far)
        f = ((ts + rng.randrange(tl)) << ww) + rng.randrange(w)
        if use_far_op and ts == fs:
            f = ((ts + 2 + rng.randrange(tl - 2)) << ww) + rng.randrange(w)      # keep the far op's own words
        last = k == n_ops - 1
        j = (2 * k) << ww if last else (2 * (k + 1)) << ww                      # the last op loops on itself
        if use_far_op and k == n_ops // 2 and not last:
            j = fs << ww
        words0 += [f, j]
    words0 += [0, 0]
    segs = [[0, n0, words0]]
    for s0, ln in low_extra:
        segs.append([s0, ln, [rng.randrange(1 << 20) for _ in range(rng.choice([0, 2]))]])
    for s0, ln in far:
        data = []
        if use_far_op and s0 == fs:
            back = (2 * (n_ops // 2 + 1)) << ww
            data = [((far[0][0] + 1) << ww) + 5, back]
        elif rng.random() < 0.5:
            data = [rng.randrange(1 << 40) for _ in range(2)]
        segs.append([s0, ln, data])
    head, rest = segs[:1], segs[1:]
    rng.shuffle(rest)                        # the order of segments in a file is free (segment 0 stays first)
    segs = head + rest
    knobs = rng.choice([{}, {'no_flat': True}, {'flat_max_words': 4}, {'no_flat': True, 'last_ops': 3}, {'last_ops': 4},
                        {'flat_max_words': 2, 'measure': True}])
    return w, segs, ['directed:far-sort'], knobs


def top_self_mod_case(rng):
    """w=64: ops in the last op slot of the address space that modify their own words (the 'own words' halting test)"""
    w, ww, dw = 64, 6, 128
    top = (1 << 58) - 2                                     # word address of the last op
    ip_top = top << ww
    k = rng.randrange(7, 40)
    variant = rng.choice(['own-jump-to-self', 'own-flip-word', 'own-jump-elsewhere', 'plain-self-loop'])
    other = rng.choice([4, 6]) << ww
    if variant == 'own-jump-to-self':
        f_top, j_top = ip_top + w + k, ip_top ^ (1 << k)    # the flip turns the jump word into ip itself
    elif variant == 'own-flip-word':
        f_top, j_top = ip_top + rng.randrange(w), ip_top
    elif variant == 'own-jump-elsewhere':
        f_top, j_top = ip_top + w + k, other ^ (1 << k)
    else:
        f_top, j_top = (8 << ww) + 3, ip_top
    mask = (1 << 64) - 1
    seg0 = [0, 12, [rng.choice([0, dw + 1, (8 << ww) + 1]), ip_top, 0, 0, (9 << ww) + 2, other + dw if other == (4 << ww) else 0,
                    rng.choice([dw, (10 << ww) + 5]), 6 << ww, 0, 0, 0, 0]]
    segs = [seg0, [top, 2, [f_top & mask, j_top & mask]]]
    knobs = rng.choice([{}, {'no_flat': True}, {'last_ops': 4}, {'measure': True}, {'flat_max_words': 8}, {'no_flat': True, 'last_ops': 2}])
    return w, segs, ['directed:top-self-mod', 'top-of-address-space'], knobs
