#!/bin/bash
# usage: harness/full_pass.sh <seed> [tier]   - runs every registered check sequentially on /repo, prints a summary
seed=${1:-0}; tier=${2:-quick}
cd "$(dirname "$0")/.."
out=/var/tmp/fullpass.$seed.$tier; mkdir -p $out
for p in $(python3 -c "import json;print(' '.join(c['property_id'] for c in json.load(open('MANIFEST.json'))['checks']))"); do
  t0=$(date +%s)
  VERIF_SEED=$seed ./check $p --tier $tier > $out/$p.log 2>&1; rc=$?
  t1=$(date +%s)
  echo "$p rc=$rc wall=$((t1-t0))s $(grep -c '^VIOLATION' $out/$p.log) violations $(grep -c '^KNOWN-FINDING' $out/$p.log) known | $(tail -n 1 $out/$p.log | cut -c1-150)"
done
