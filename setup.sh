#!/bin/bash
# setup_cmd: build the static Coq development (full .vo, never -vos), then the lint gate.
# Generated files (coq/Gen) are produced and compiled by the checks themselves.
cd "$(dirname "$0")"
export PYTHONPATH="$(pwd)/harness" PYTHONHASHSEED=0 PYTHONDONTWRITEBYTECODE=1
# facts regenerated from the current source (the checks regenerate them again on every run); best effort here,
# so that the files under coq/Tie that depend on them are built by setup as well
/venv/bin/python - <<'PY'
from fjverif import framework as fw
import importlib
for name in ('gen_facts_c01', 'gen_facts_c12', 'gen_facts_c13', 'gen_facts_c20', 'gen_facts_engpy', 'gen_facts_devices', 'gen_facts_loader', 'gen_facts_writer', 'gen_facts_breakpoints', 'gen_facts_expr'):
    try:
        m = importlib.import_module('fjverif.' + name)
        if hasattr(m, 'write'):
            m.write()
        else:
            fw.write_if_changed(fw.COQ / 'Gen' / ('Facts_' + name[-3:].upper() + '.v'), m.generate(fw.REPO))
    except Exception as e:  # noqa
        print('setup: facts', name, 'not generated:', repr(e)[:200])
PY
/venv/bin/python -c "from fjverif import framework as fw; fw.ensure_makefile()" || exit 2
cd coq
# -k: a file that does not compile must not hide the others; every check re-makes its own targets and
# reports a failure there as a broken proof obligation of that property.
timeout 7200 make -k -j16 2>&1 | grep -v '^COQDEP\|^CLEAN\|WARNING: overwriting' | tail -n 60
rc=${PIPESTATUS[0]}
cd ..
./lint.sh || echo "setup: lint failed on some file (see above); every check lints the files its own theorems depend on and reports it"
if [ "$rc" != 0 ]; then echo "setup: some Coq targets failed to build (see above); the affected checks will report it"; fi
test -f coq/Spec/MachineSpec.vo || exit 2
echo "setup ok"
