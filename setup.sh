#!/bin/bash
# setup_cmd: build the static Coq development (full .vo), then the lint gate.
set -e
cd "$(dirname "$0")/coq"
{ echo "-Q . FJ"; echo "-arg -w -arg -notation-overridden,-deprecated-hint-without-locality,-deprecated-instance-without-locality"; find Lib Spec Model Proofs Properties -name '*.v' | sort; } > _CoqProject
coq_makefile -f _CoqProject -o Makefile > /dev/null
timeout 7200 make -j16 2>&1 | grep -v '^COQDEP\|^CLEAN\|WARNING: overwriting' | tail -n 40
test "${PIPESTATUS[0]}" = 0
cd ..
./lint.sh
echo "setup ok"
