#!/bin/bash
# lint gate: no admitted proofs, no declared axioms, no disabled kernel checks anywhere in coq/
cd "$(dirname "$0")/coq"
exec python3 - "$@" <<'PY'
import re,sys,glob
FORBID=re.compile(r'\b(Admitted|admit|Axiom|Axioms|Parameter|Parameters|Conjecture|Conjectures)\b|Admit\s+Obligations|Unset\s+Guard|bypass_check|type-in-type|impredicative-set|Unset\s+Universe\s+Checking|Unset\s+Positivity|native_compute')
def strip_comments(t):
    out=[];d=0;i=0
    while i<len(t):
        if t.startswith('(*',i): d+=1;i+=2;continue
        if t.startswith('*)',i) and d>0: d-=1;i+=2;continue
        if d==0 or t[i]=='\n': out.append(t[i])
        i+=1
    return ''.join(out)
bad=[]
files = sys.argv[1:] or sorted(glob.glob('**/*.v',recursive=True))
for f in files:
    stack=[]
    for n,l in enumerate(strip_comments(open(f).read()).split('\n'),1):
        s=l.strip()
        if FORBID.search(s): bad.append(f'{f}:{n}: {s}')
        mm=re.match(r'(Section|Module Type|Module)\s+(\w+)',s)
        if mm and ':=' not in s: stack.append((mm.group(1),mm.group(2)))
        me=re.match(r'End\s+(\w+)\s*\.',s)
        if me and stack and stack[-1][1]==me.group(1): stack.pop()
        if re.match(r'(Variable|Variables|Hypothesis|Hypotheses|Context)\b',s) and not any(k=='Section' for k,_ in stack):
            bad.append(f'{f}:{n}: outside a section: {s}')
if bad:
    print('LINT FAILED:'); print('\n'.join(bad)); sys.exit(2)
print('lint ok')
PY
